#!/bin/bash
# Runs every quick check once (sequentially) on the current /repo tree, prints one verdict line per check and the
# wall time, and leaves the evidence files written by the runs in /verif/evidence. Exit 1 if any check did not exit 0.
cd /verif || exit 2
rc_all=0
for i in $(seq -w 1 20); do
  c="C$i"
  s=$(date +%s.%N)
  out=$(./check "$c" quick 2>&1); rc=$?
  e=$(date +%s.%N)
  line=$(echo "$out" | grep -E "^$c quick:" | tail -1)
  printf "%s exit=%d total=%.1fs | %s\n" "$c" "$rc" "$(echo "$e - $s" | bc)" "$line"
  [ $rc -ne 0 ] && { rc_all=1; echo "$out" | grep -E "^(VIOLATION|machinery|  signature|  what)" | head -8; }
done
exit $rc_all
