#!/usr/bin/env python3
"""Validates every /verif/evidence/*.json against EVIDENCE.schema.json (run with python3-vt)."""
import glob, json, os, sys
import jsonschema
schema = json.load(open("/root/.vp/EVIDENCE.schema.json"))
bad = 0
for f in sorted(glob.glob(os.path.join(os.path.dirname(os.path.dirname(os.path.abspath(__file__))), "evidence", "*.json"))):
    e = json.load(open(f))
    try:
        jsonschema.validate(e, schema)
        c = e["coverage"]
        print(f"{os.path.basename(f)}: ok tier={e['tier']} level={e['level']} evaluations={c.get('evaluations')} distinct={c.get('distinct_nontrivial')} samples={len(c.get('samples', []))} exhaustive={c.get('exhaustive')} wall={e['wall_s']:.1f}s")
    except jsonschema.ValidationError as ex:
        bad += 1
        print(f"{os.path.basename(f)}: INVALID {ex.message[:200]}")
sys.exit(1 if bad else 0)
