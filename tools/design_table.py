#!/usr/bin/env python3
"""Prints a markdown table (one row per check) from the evidence files: level, tier, wall, evaluations, distinct,
exhaustive, known-finding occurrences."""
import json, glob
print("| check | level | tier | wall s | evaluations | distinct | exhaustive | known occurrences |")
print("|---|---|---|---|---|---|---|---|")
for f in sorted(glob.glob('/verif/evidence/C*.json')):
    e = json.load(open(f)); c = e['coverage']
    print(f"| {e['property_id']} | {e['level']} | {e['tier']} | {e['wall_s']:.0f} | {c['evaluations']:,} | {c['distinct_nontrivial']:,} | {c['exhaustive']} | {c.get('known_finding_occurrences', 0)} |")
