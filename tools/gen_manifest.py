#!/usr/bin/env python3
"""Generates /verif/MANIFEST.json from the table below and validates it (run with python3-vt)."""
import json, os, sys

HERE = os.path.dirname(os.path.dirname(os.path.abspath(__file__)))

# id -> (category, technique, level text, level note, design ref)
CHECKS = {
 "C01": ("exploration", "bounded-exhaustive program enumeration (MiniCairo families) x full boundary input cross product, compiled and run on the real pipeline against an independent reference evaluator",
         "Every program of each bounded family (expression trees, control skeletons, data movement, collection-operation sequences, liveness patterns) is compiled under two configurations and run on every input of the boundary cross product; the result felts or the exact panic data must equal those of a small big-step evaluator written independently (num-bigint, Vec, BTreeMap).",
         "The evaluator is the specification for the modelled subset only; constructs outside MiniCairo are covered differentially by C05.", "DESIGN.md §3 C01"),
 "C08": ("exploration", "bounded-exhaustive enumeration: well-typed-by-construction programs x the configuration lattice (must compile end to end), and an exhaustive ownership-violation injection matrix with legal controls (must be rejected / accepted)",
         "Direction 1: every program of the C01 space and every error-free corpus snippet goes through diagnostics -> Sierra -> ProgramRegistry -> metadata -> CASM under every configuration, under catch_unwind. Direction 2: every combination of (non-copy kind x first move x second use x position) and (non-droppable kind x leak scenario) must produce an error, while the matching legal control compiles, so the injected violation is what is being detected.",
         "Linear metadata solvers only; any error diagnostic counts as rejection.", "DESIGN.md §3 C08"),
 "C02": ("exploration", "bounded-exhaustive execution: every corpus/hand-written function x full cross product of boundary inputs x gas ladder x configurations, plus every compile-accepted single-point Sierra mutant, run on the real VM",
         "Every run of the enumerated space must end in Ok (value or Sierra-level panic); a CairoRunError or runner panic is the violation. The accepted-mutant part executes valid Sierra the front end can never produce (swapped same-typed variables, retargeted aligned branches, swapped libfuncs), which is where 'accepted implies safe' can actually fail.",
         "Honest hints only; syscalls out of scope; inputs limited to scalar parameters (<=3) from the boundary domains.", "DESIGN.md §3 C02"),
 "C03": ("fault_enumeration", "deviation-bounded fault enumeration: every hint occurrence of every honest run x every alternative of a per-output menu, injected through a hint-processor wrapper on the real VM",
         "The environment answers a prover controls (hint outputs) are enumerated: after an honest run records the ordered hint occurrences, one run per (occurrence, alternative) deviates at exactly that point (bound 1). The deviated run must be invalid in the VM or produce the same value and gas. The real hint still executes (outputs redirected to scratch cells) so its side state stays honest. Evidence lists (hint kind, outcome) counts so vacuity is visible.",
         "Soundness judged against cairo-vm's own checks, not a STARK prover; pointer-writing hints executed honestly; results holding addresses are not judged.", "DESIGN.md §3 C03"),
 "C04": ("exploration", "bounded-exhaustive execution with a per-run gas-accounting monitor over the relocated trace",
         "For every run of the execution space the property's inequality is evaluated from the real trace and resource counters; the evidence shows the minimum slack reached is exactly 0 on the unchanged tree (the formula is tight), so any undercharged step on an executed path is caught.",
         "Accounting convention (user-code pc range, the +100 return step) fixed on the unmodified tree and stated in the evidence rule; holes and range_check96 unpriced as in the property.", "DESIGN.md §3 C04"),
 "C05": ("exploration", "bounded-exhaustive differential execution across the optimisation/lowering configuration lattice",
         "Every function of the execution space is compiled under every configuration of the lattice (6 corners quick, 88 configurations thorough) and run on the full boundary cross product; results are compared with the optimisations-disabled baseline. No hand-written expected values are involved.",
         "Only pointer-free results are compared (addresses legitimately differ); programs that read the gas counter are excluded; ample gas.", "DESIGN.md §3 C05"),
 "C16": ("exploration", "exhaustive enumeration of CASM instruction shapes x boundary offsets x boundary immediates x machine states; one real cairo-vm step per case against a reference step",
         "Every shape Instruction::assemble accepts is encoded, decoded by cairo-vm and executed for exactly one step from prepared machine states; the resulting pc/ap/fp/memory writes (or failure) must equal a reference step written from the meaning of the instruction; encode().len()==op_size()==decoded size. The space is finite and covered completely (exhaustive:true).",
         "cairo-vm 3.2.0 is trusted as the meaning of bytecode; QM31/blake bodies are checked for size/decodability only.", "DESIGN.md §3 C16"),
 "C17": ("exploration", "bounded-exhaustive execution with an ap/pc monitor over the relocated trace (shadow call stack) plus a static tiling check of statement ranges",
         "For every dynamic call instance in every run the measured ap movement is compared with function_ap_change; every trace pc must fall in exactly one recorded statement range on an instruction boundary; ranges must tile the code. Millions of dynamic call instances per quick run.",
         "Call/ret convention fixed on the unmodified tree; both ap-change solvers; functions with unknown ap change are not judged.", "DESIGN.md §3 C17"),
 "C06": ("exploration", "exhaustive operand enumeration (all 65 536 pairs for 8-bit types, full boundary cross products for wider types) of a generated operation table, each op compiled and run through the whole pipeline against a big-integer model",
         "Every (operation, type) of the table is a tiny Cairo function run on the real VM; results are compared with num-bigint arithmetic, and panic/None/overflow flags must occur exactly when the mathematical result does not fit. 8-bit sub-spaces are covered completely (~3 million runs in the quick tier).",
         "The table lists the corelib trait surface named in the rule; operands for >8-bit types are the boundary sets.", "DESIGN.md §3 C06"),
 "C07": ("exploration", "exhaustive operand enumeration over a const-evaluable expression alphabet x 6 evaluator entry shapes; three-way differential (const item vs folded function vs opaque-argument function) on the real compiler and VM",
         "For each instance the same expression is evaluated by the semantic const evaluator (a const item), by the lowering constant folder (literal operands, folding on and off) and by the libfuncs at run time (opaque arguments); diagnostics on the const item must appear iff the run-time twin panics, and all defined values must agree.",
         "Diagnostics are attributed by line; E2127 (unsupported in const context) is outside the property's domain and only counted.", "DESIGN.md §3 C07"),
 "C09": ("exploration", "bounded-exhaustive input enumeration on the real front end (all token strings up to length n, all single-point mutants of corpus files, nesting depth sweep)",
         "Every text of the enumerated spaces is pushed through parser, formatter and full semantic+lowering diagnostics under catch_unwind, a fatal-signal handler (stack overflow/abort) and a watchdog; no sampling. Totality is a universally quantified 'never crashes' claim, so the strongest practical evidence is exhaustion of a small-scope input space.",
         "Texts outside the enumerated alphabets/bounds are not covered; 8 MiB stack and a 30 s watchdog stand for 'stack overflow on ordinary nesting' and 'loops forever'.", "DESIGN.md §3 C09"),
 "C10": ("exploration", "bounded-exhaustive input enumeration on the real parser with a structural losslessness oracle on every tree",
         "Same text spaces as C09; on every produced tree the oracle checks leaf concatenation == source, children tile parents, widths, per-leaf text vs span, root span. Exhaustive within the stated bound (exhaustive:true unless the wall cap is hit).",
         "Texts outside the enumerated spaces are not covered.", "DESIGN.md §3 C10"),
 "C11": ("exploration", "bounded-exhaustive enumeration of formatter configurations (every max_line_length 1..120, 2^6 option product) and single-point layout deviations over corpus files, on the real formatter",
         "For every (text, configuration) of the enumerated space the output is re-parsed, re-formatted and compared token-by-token (comments word-wise) with the input; under sort/merge the comparison is on multisets of expanded use leaves and items. The width sweep is exhaustive because break-point choice is a function of the width - the place where oscillation hides.",
         "Comments compared word-wise (re-wrapping is layout); inputs with parse diagnostics skipped; layout deviations bound 1 (2 in thorough for tiny seeds).", "DESIGN.md §3 C11"),
 "C12": ("model_checking", "explicit-state exploration of query histories (order of first execution of top-level queries x executing thread) on the real database by fork-snapshot DFS, invariant = byte-identical artefacts",
         "Every sequence of distinct tasks up to the depth bound, each on the main or a second thread, is executed on a copy-on-write image of the real RootDatabase; after each history the diagnostics, named and canonical Sierra and CASM must be byte-identical to the no-history baseline. The model is the implementation itself (no abstraction to drift). Free-running rayon pools are run as a labelled, non-deciding sample.",
         "Schedules are abstracted to whole-query order + thread; no preemption inside a query (salsa under shuttle is infeasible, DESIGN §1).", "DESIGN.md §3 C12"),
 "C13": ("model_checking", "explicit-state exploration of edit/query histories over a flag-rendered project on the real database by fork-snapshot DFS, invariant = incremental output equals from-scratch output",
         "States are project contents (flag vectors), transitions are (edit, query) steps executed on the live salsa database in a forked process image; every step sequence up to the depth bound from the initial and from every single-flag start is explored, and at every queried node diagnostics (with positions) and Sierra must equal those of a database that never saw another version (memoised per content, bound to a brand-new database on the start contents).",
         "fork() copy-on-write; single-threaded workers; edits are whole-flag flips of the templates listed in the rule.", "DESIGN.md §3 C13"),
 "C14": ("exploration", "exhaustive single-point mutation enumeration of corpus Sierra programs and serialized classes, executed on the real registry/metadata/compile pipeline",
         "Every mutant of every corpus program (and every position x boundary value of its felt serialization) runs through ProgramRegistryInfo::new, calc_metadata (both solver families), compile, extract_sierra_program and CasmContractClass::from_contract_class under catch_unwind + fatal-signal handler + address-space cap + watchdog. Findings are keyed by panic site.",
         "Corpus programs are seeds; multi-point mutants only in the thorough tier for small programs; 4 GiB address-space cap stands for 'allocates without bound'.", "DESIGN.md §3 C14"),
 "C15": ("model_checking", "explicit-state exploration of an independent abstract typing/linearity machine over every control-flow path, conformance-checked against the real compile on every program of the exhaustive single-point mutation space",
         "A reference model (abstract interpreter over (statement, var->type) states, written without the compiler's annotation code) is explored to a fixpoint on every mutant; the implementation's verdict (compile) is computed for every one of them and compile==Ok with model==Err is the violation. The evidence carries abstract states/transitions and the 2x2 agreement matrix, so vacuity (a checker that accepts everything, or no accepted mutants) is visible.",
         "Libfunc signatures from ProgramRegistry are trusted as the per-operation type specification; dup/drop legality is left to the registry's specialization.", "DESIGN.md §3 C15"),
 "C18": ("exploration", "complete pass over corpus Sierra + compiler-generated Sierra and a programmatically enumerated format lattice, every program through every serialization on the real code",
         "Each program is printed and re-parsed (fixpoint after one round, isomorphism), serialized to felts via ContractClass and back, through VersionedProgram JSON and back, and each variant is compiled to CASM and compared byte for byte. The lattice enumerates every GenericArg kind x boundary values x harvested real debug-name spellings x statement shapes.",
         "Program equality is the crate's id-based equality; lattice programs are not valid Sierra and only exercise serialization.", "DESIGN.md §3 C18"),
 "C19": ("exploration", "complete pass over every contract class in the repository, every contract compiled in-process, and an enumerated family of generated contracts (entry-point subsets x constructor x l1_handler), each x hint/size-limit configurations, with structural invariants checked on the real CasmContractClass",
         "For each class the CASM compiled from the published felts is compared with a direct compile of the extracted Sierra and of the compiler's own in-memory Sierra; entry offsets, builtin lists (against an independent protocol-order table), selector order, canonical words, hint offsets, segment lengths, hash/JSON stability and exact size-limit behaviour are checked.",
         "Contracts are the corpus + a 6-function menu family; syscall semantics are not executed.", "DESIGN.md §3 C19"),
 "C20": ("exploration", "differential compilation of every corpus dependent against corelib-from-source and corelib-from-cache in paired incremental databases",
         "Every dependent of the enumerated set (corpus snippets, examples, bug samples, seeds and deliberately ill-typed variants) is compiled in two databases that differ only in cache_file of the core crate; diagnostics text and Sierra text must be byte-identical. No expected values are hand-written.",
         "Cached crate is the corelib only; cache blob generated in-process with identical settings.", "DESIGN.md §3 C20"),
}

NOT_YET = {
}

ALL = [f"C{i:02d}" for i in range(1, 21)]

def main():
    checks = []
    for pid in ALL:
        if pid not in CHECKS:
            continue
        cat, tech, text, note, ref = CHECKS[pid]
        checks.append({
            "property_id": pid,
            "quick_cmd": f"./check {pid} quick",
            "thorough_cmd": f"./check {pid} thorough",
            "evidence_file": f"/verif/evidence/{pid}.json",
            "replay_cmd_template": "./check --replay {path}",
            "engine": "verif-harness",
            "level_claimed": {"category": cat, "text": text, "design_ref": ref},
            "level_note": note,
            "technique": tech,
        })
    na = []
    for pid in ALL:
        if pid not in CHECKS:
            na.append({"property_id": pid, "reason": NOT_YET.get(pid, "check designed (DESIGN.md §3) but not yet built and validated on the unchanged tree in this session; it is not claimed until it is")})
    m = {
        "version": 1,
        "setup_cmd": "./check --build",
        "hooks": {
            "guard": "cairo_verif",
            "enable": "no source hooks are needed: every seam used is public API; ./check rebuilds the harness (path dependencies on /repo/crates/*) from /repo's working tree before every run",
            "baseline_off_cmd": "cd /repo && cargo nextest run --workspace --no-fail-fast --tool-config-file pb:/w/lib/nextest.toml --profile pb --test-threads 8 --offline",
            "source_commits": [],
            "add_only": True,
        },
        "engines": [{
            "name": "verif-harness", "path": "harness", "serves_properties": sorted(CHECKS),
            "kind_free_text": "bounded-exhaustive enumeration executed on the real code: deterministic enumerators, 16 sharded worker subprocesses, catch_unwind + fatal-signal/watchdog attribution per case, known-finding matching by defect signature, replay of single cases",
        }],
        "checks": checks,
        "not_applicable": na,
        "notes": "Family: model checking in the sense of exhaustive exploration of explicitly bounded spaces on the implementation. See DESIGN.md. Exit codes: 0 held, 1 VIOLATION, 2 machinery failure (never a verdict).",
    }
    path = os.path.join(HERE, "MANIFEST.json")
    with open(path, "w") as f:
        json.dump(m, f, indent=1)
        f.write("\n")
    try:
        import jsonschema
        jsonschema.validate(m, json.load(open("/root/.vp/MANIFEST.schema.json")))
        print("MANIFEST.json written and valid:", len(checks), "checks,", len(na), "not_applicable")
    except ImportError:
        print("MANIFEST.json written (jsonschema not importable: run with python3-vt to validate)")

if __name__ == "__main__":
    main()
