#!/bin/bash
# usage: tools/run_seeded.sh <seeded-id> [check ids...]   (default: the property named in meta.json)
# Applies /verif/seeded/<id>/patch.diff to /repo, runs the checks' quick tier, prints the verdict lines,
# and ALWAYS restores /repo (git checkout -- .). Evidence/ is put back as it was before the run (also when it
# was not committed yet), so seeded runs never become evidence.
set -u
id="$1"; shift
dir="/verif/seeded/$id"
[ -f "$dir/patch.diff" ] || { echo "no $dir/patch.diff"; exit 2; }
checks="$*"
[ -n "$checks" ] || checks=$(python3 -c "import json;print(json.load(open('$dir/meta.json'))['property'])")
cd /repo || exit 2
git diff --quiet || { echo "/repo has uncommitted changes; refusing"; exit 2; }
git apply "$dir/patch.diff" || { echo "patch does not apply"; exit 2; }
bak=$(mktemp -d /tmp/verif-evidence.XXXXXX); cp -a /verif/evidence/. "$bak"/
trap 'git -C /repo checkout -- . ; rm -rf /verif/evidence; mkdir -p /verif/evidence; cp -a "$bak"/. /verif/evidence/; rm -rf "$bak"' EXIT
rc_all=0
for c in $checks; do
  echo "=== $id -> $c quick"
  /verif/check "$c" quick 2>&1 | grep -E "^(VIOLATION|KNOWN-FINDING|C[0-9]+ |machinery|  signature|  what)" | cut -c1-300
  rc=${PIPESTATUS[0]}
  echo "exit=$rc"
  [ "$rc" -eq 1 ] && rc_all=1
done
exit $rc_all
