//! Shared machinery: sharded subprocess workers, crash/timeout attribution, counters, evidence,
//! known-finding matching, replay files.
//!
//! A *check* is a deterministic enumeration: `fn(&mut Ctx)`. It calls `ctx.case(desc, body)` once per work
//! item, in an order that is a pure function of (tier, /repo contents). The parent process starts one worker
//! subprocess per shard; a worker executes only the items whose running index is congruent to its shard.
//! Every item runs under `catch_unwind`; SIGSEGV/SIGABRT/SIGBUS (stack overflow, abort, allocation failure)
//! and the per-item watchdog are attributed to the open item through a signal-safe write and the shard is
//! restarted with that item in its skip list, so the verdict for it is "crash"/"timeout", never a lost run.

use std::collections::{BTreeMap, BTreeSet, HashSet};
use std::hash::{Hash, Hasher};
use std::io::{Read, Write};
use std::panic::{AssertUnwindSafe, catch_unwind};
use std::sync::Mutex;
use std::sync::atomic::{AtomicU64, Ordering};
use std::time::{Duration, Instant};

use serde_json::{Value, json};

#[derive(Clone, Copy, PartialEq, Eq, Debug)]
pub enum Tier {
    Quick,
    Thorough,
}
impl Tier {
    pub fn name(self) -> &'static str {
        match self {
            Tier::Quick => "quick",
            Tier::Thorough => "thorough",
        }
    }
    pub fn pick<T>(self, q: T, t: T) -> T {
        match self {
            Tier::Quick => q,
            Tier::Thorough => t,
        }
    }
}

pub struct CheckDef {
    pub id: &'static str,
    /// evidence `level`
    pub level: &'static str,
    pub rule: &'static str,
    pub assumptions: &'static [&'static str],
    pub run: fn(&mut Ctx),
    /// stack size of the worker thread that runs the items
    pub stack_mb: usize,
    /// per-item watchdog (seconds)
    pub item_timeout_s: u64,
    /// wall cap per worker (quick, thorough) in seconds; hitting it sets exhaustive=false
    pub wall_cap_s: (u64, u64),
    /// number of worker processes (0 = number of cores)
    pub shards: usize,
}

#[derive(Clone, Debug, serde::Serialize, serde::Deserialize)]
pub struct Violation {
    /// Defect signature: stable across unrelated edits, used to match known findings.
    pub sig: String,
    pub what: String,
    pub idx: u64,
    pub case: Value,
}

static CUR_CASE: AtomicU64 = AtomicU64::new(u64::MAX);
static CUR_SUB: AtomicU64 = AtomicU64::new(u64::MAX);
static CASE_START_MS: AtomicU64 = AtomicU64::new(0);
static CASE_TIMEOUT_MS: AtomicU64 = AtomicU64::new(0);
static DEFAULT_TIMEOUT_MS: AtomicU64 = AtomicU64::new(0);
static LAST_PANIC: Mutex<Option<(String, String)>> = Mutex::new(None);

fn now_ms() -> u64 {
    static START: std::sync::OnceLock<Instant> = std::sync::OnceLock::new();
    // never 0: the watchdog reads 0 as "no case open" (a replayed item can start within the first millisecond)
    START.get_or_init(Instant::now).elapsed().as_millis() as u64 + 1
}

pub struct Ctx {
    pub id: &'static str,
    pub tier: Tier,
    pub shard: usize,
    pub nshards: usize,
    pub seed: u64,
    only: Option<u64>,
    skip: BTreeSet<u64>,
    skip_subs: BTreeSet<(u64, u64)>,
    describe: Option<(u64, Option<u64>)>,
    sub_idx: u64,
    idx: u64,
    pub counters: BTreeMap<String, i64>,
    pub mins: BTreeMap<String, i64>,
    pub maxs: BTreeMap<String, i64>,
    samples: Vec<Value>,
    distinct: HashSet<u64>,
    outcomes: BTreeMap<String, i64>,
    violations: Vec<Violation>,
    deadline: Instant,
    pub capped: bool,
    notes: BTreeSet<String>,
}

pub fn hash_of<T: Hash + ?Sized>(t: &T) -> u64 {
    let mut h = std::collections::hash_map::DefaultHasher::new();
    t.hash(&mut h);
    h.finish()
}

/// Normalises a panic message into a signature fragment: digits collapsed, truncated.
pub fn norm_msg(msg: &str) -> String {
    let mut out = String::new();
    let mut last_digit = false;
    for c in msg.chars() {
        if c.is_ascii_digit() {
            if !last_digit {
                out.push('#');
            }
            last_digit = true;
        } else {
            last_digit = false;
            out.push(if c == '\n' { ' ' } else { c });
        }
        if out.len() >= 70 {
            break;
        }
    }
    out
}

impl Ctx {
    /// True when this worker should stop starting new items (wall cap); marks the run as capped.
    /// Part of the space was not explored (a watchdog fired): the run is reported as not exhaustive.
    pub fn mark_capped(&mut self, why: &str) {
        self.capped = true;
        self.count("subtrees_cut_by_watchdog", 1);
        self.note(format!("not exhaustive: {why}"));
    }
    pub fn out_of_time(&mut self) -> bool {
        if Instant::now() >= self.deadline {
            self.capped = true;
            true
        } else {
            false
        }
    }
    pub fn count(&mut self, key: &str, n: i64) {
        *self.counters.entry(key.to_string()).or_default() += n;
    }
    pub fn min(&mut self, key: &str, v: i64) {
        let e = self.mins.entry(key.to_string()).or_insert(v);
        *e = (*e).min(v);
    }
    pub fn max(&mut self, key: &str, v: i64) {
        let e = self.maxs.entry(key.to_string()).or_insert(v);
        *e = (*e).max(v);
    }
    /// Records a distinct, non-trivial case (by hash of its content).
    pub fn distinct<T: Hash + ?Sized>(&mut self, t: &T) {
        self.distinct.insert(hash_of(t));
    }
    /// As `distinct`; true when the element was not seen before by this worker.
    pub fn distinct_new<T: Hash + ?Sized>(&mut self, t: &T) -> bool {
        self.distinct.insert(hash_of(t))
    }
    /// Records an observed outcome class (small vocabulary; reported with counts).
    pub fn outcome(&mut self, o: &str) {
        *self.outcomes.entry(o.to_string()).or_default() += 1;
    }
    pub fn note(&mut self, s: String) {
        if self.notes.len() < 50 {
            self.notes.insert(s);
        }
    }
    pub fn sample(&mut self, v: impl FnOnce() -> Value) {
        if self.samples.len() < 3 {
            self.samples.push(v());
        }
    }
    pub fn violation(&mut self, sig: impl Into<String>, what: impl Into<String>, case: Value) {
        let idx = CUR_CASE.load(Ordering::Relaxed);
        self.violations.push(Violation { sig: sig.into(), what: what.into(), idx, case });
    }
    pub fn n_violations(&self) -> usize {
        self.violations.len()
    }
    pub fn replaying(&self) -> bool {
        self.only.is_some()
    }

    /// Claims the next work-item index. Returns false when the item belongs to another shard, is filtered
    /// out, or the wall cap was reached.
    fn claim(&mut self) -> Option<u64> {
        let i = self.idx;
        self.idx += 1;
        if let Some(o) = self.only {
            return (o == i).then_some(i);
        }
        // a describe request only needs the described item (running the others made a description cost
        // the whole shard's work up to it)
        if let Some((d, _)) = self.describe {
            return (d == i).then_some(i);
        }
        if i as usize % self.nshards != self.shard {
            return None;
        }
        if self.out_of_time() {
            self.count("items_skipped_by_wall_cap", 1);
            return None;
        }
        Some(i)
    }

    /// One work item. `desc` is only evaluated when something must be reported about the item.
    /// Returns Some(result of body) if the item ran to completion in this worker.
    pub fn case<R>(&mut self, desc: impl Fn() -> Value, body: impl FnOnce(&mut Ctx) -> R) -> Option<R> {
        let i = self.claim()?;
        self.count("items", 1);
        if self.skip.contains(&i) {
            // crashed or hung in a previous incarnation of this shard: the parent already recorded it
            // (it asks for the description through VERIF_DESCRIBE).
            return None;
        }
        if self.describe == Some((i, None)) {
            println!("{}", json!({"t":"describe","idx":i,"case":desc()}));
            std::io::stdout().flush().ok();
            std::process::exit(0);
        }
        self.sub_idx = 0;
        CUR_SUB.store(u64::MAX, Ordering::SeqCst);
        CUR_CASE.store(i, Ordering::SeqCst);
        CASE_TIMEOUT_MS.store(DEFAULT_TIMEOUT_MS.load(Ordering::SeqCst), Ordering::SeqCst);
        CASE_START_MS.store(now_ms(), Ordering::SeqCst);
        let t_item = Instant::now();
        let r = catch_unwind(AssertUnwindSafe(|| body(self)));
        CASE_START_MS.store(0, Ordering::SeqCst);
        if self.samples.is_empty() {
            // every evidence file shows at least one literal work item of the run
            self.samples.push(json!({"work_item": desc()}));
        }
        let ms = t_item.elapsed().as_millis() as i64;
        self.max("item_ms_max", ms);
        if ms > 5000 {
            self.note(format!("slow item ({ms} ms): {}", desc()));
        }
        let out = match r {
            Ok(v) => Some(v),
            Err(_) => {
                let (loc, msg) = LAST_PANIC.lock().unwrap().take().unwrap_or_default();
                let file = loc.rsplit_once(':').map(|x| x.0).unwrap_or(&loc).to_string();
                let file = file.strip_prefix("/repo/").unwrap_or(&file).to_string();
                if file.starts_with("src/") || file.contains("/verif/harness/") {
                    // a bug in the harness itself is a machinery failure, never a verdict
                    eprintln!("MACHINERY-PANIC at {loc}: {msg} (item {i}: {})", desc());
                    std::process::exit(2);
                }
                self.violations.push(Violation {
                    sig: format!("panic@{file}:{}", norm_msg(&msg)),
                    what: format!("panic at {loc}: {}", msg.chars().take(300).collect::<String>()),
                    idx: i,
                    case: desc(),
                });
                None
            }
        };
        CUR_CASE.store(u64::MAX, Ordering::SeqCst);
        out
    }

    /// Announces a sub-case inside the current item (for items that bundle many cheap cases). Returns
    /// false when the sub-case must be skipped because it crashed the process in an earlier incarnation.
    /// A fatal signal or watchdog expiry is attributed to the open sub-case.
    pub fn sub(&mut self, desc: impl Fn() -> Value) -> bool {
        let i = CUR_CASE.load(Ordering::Relaxed);
        let k = self.sub_idx;
        self.sub_idx += 1;
        if self.describe == Some((i, Some(k))) {
            println!("{}", json!({"t":"describe","idx":i,"case":desc()}));
            std::io::stdout().flush().ok();
            std::process::exit(0);
        }
        if self.skip_subs.contains(&(i, k)) {
            return false;
        }
        CUR_SUB.store(k, Ordering::SeqCst);
        CASE_START_MS.store(now_ms(), Ordering::SeqCst);
        true
    }

    /// Tightens the watchdog for the rest of the current item (sub-cases known to take micro- or milliseconds:
    /// a hang is then reported after `secs`, not after the item timeout of the heaviest space of the check).
    pub fn set_timeout_s(&mut self, secs: u64) {
        CASE_TIMEOUT_MS.store(secs * 1000, Ordering::SeqCst);
    }

    /// Runs `f` under catch_unwind *inside* an item, returning the panic site on unwind.
    /// Used by checks whose oracle is "does not panic" on many sub-cases per item.
    pub fn guarded<R>(&mut self, f: impl FnOnce() -> R) -> Result<R, (String, String)> {
        match catch_unwind(AssertUnwindSafe(f)) {
            Ok(v) => Ok(v),
            Err(_) => {
                let (loc, msg) = LAST_PANIC.lock().unwrap().take().unwrap_or_default();
                let loc = loc.strip_prefix("/repo/").unwrap_or(&loc).to_string();
                Err((loc, msg))
            }
        }
    }
}

/// Runs `f` under catch_unwind, returning the panic site (location, message) on unwind.
pub fn guarded<R>(f: impl FnOnce() -> R) -> Result<R, (String, String)> {
    match catch_unwind(AssertUnwindSafe(f)) {
        Ok(v) => Ok(v),
        Err(_) => {
            let (loc, msg) = LAST_PANIC.lock().unwrap().take().unwrap_or_default();
            let loc = loc.strip_prefix("/repo/").unwrap_or(&loc).to_string();
            Err((loc, msg))
        }
    }
}

pub fn panic_sig(loc: &str, msg: &str) -> String {
    let file = loc.rsplit_once(':').map(|x| x.0).unwrap_or(loc);
    format!("panic@{file}:{}", norm_msg(msg))
}

extern "C" fn on_fatal_signal(sig: libc::c_int) {
    // async-signal-safe: format into a stack buffer and write(2).
    let idx = CUR_CASE.load(Ordering::Relaxed);
    let mut buf = [0u8; 96];
    let mut n = 0;
    for b in b"\nFATAL " {
        buf[n] = *b;
        n += 1;
    }
    let mut digits = [0u8; 24];
    let mut d = 0;
    let mut v = idx;
    if v == 0 {
        digits[0] = b'0';
        d = 1;
    }
    while v > 0 {
        digits[d] = b'0' + (v % 10) as u8;
        v /= 10;
        d += 1;
    }
    while d > 0 {
        d -= 1;
        buf[n] = digits[d];
        n += 1;
    }
    buf[n] = b' ';
    n += 1;
    let mut v = CUR_SUB.load(Ordering::Relaxed);
    if v == u64::MAX {
        buf[n] = b'-';
        n += 1;
    } else {
        let mut d = 0;
        if v == 0 {
            digits[0] = b'0';
            d = 1;
        }
        while v > 0 {
            digits[d] = b'0' + (v % 10) as u8;
            v /= 10;
            d += 1;
        }
        while d > 0 {
            d -= 1;
            buf[n] = digits[d];
            n += 1;
        }
    }
    buf[n] = b' ';
    n += 1;
    buf[n] = b'0' + (sig / 10) as u8;
    buf[n + 1] = b'0' + (sig % 10) as u8;
    buf[n + 2] = b'\n';
    n += 3;
    unsafe {
        libc::write(2, buf.as_ptr() as *const _, n);
        libc::_exit(77);
    }
}

fn install_signal_handlers() {
    unsafe {
        let size = 1 << 16;
        let stack = libc::mmap(
            std::ptr::null_mut(),
            size,
            libc::PROT_READ | libc::PROT_WRITE,
            libc::MAP_PRIVATE | libc::MAP_ANONYMOUS,
            -1,
            0,
        );
        let ss = libc::stack_t { ss_sp: stack, ss_flags: 0, ss_size: size };
        libc::sigaltstack(&ss, std::ptr::null_mut());
        for s in [libc::SIGSEGV, libc::SIGABRT, libc::SIGBUS, libc::SIGILL] {
            let mut sa: libc::sigaction = std::mem::zeroed();
            sa.sa_sigaction = on_fatal_signal as usize;
            sa.sa_flags = libc::SA_ONSTACK;
            libc::sigaction(s, &sa, std::ptr::null_mut());
        }
    }
}

/// The alternate signal stack is per-thread: call this at the start of the item thread.
fn install_altstack_for_thread() {
    unsafe {
        let size = 1 << 16;
        let stack = libc::mmap(
            std::ptr::null_mut(),
            size,
            libc::PROT_READ | libc::PROT_WRITE,
            libc::MAP_PRIVATE | libc::MAP_ANONYMOUS,
            -1,
            0,
        );
        let ss = libc::stack_t { ss_sp: stack, ss_flags: 0, ss_size: size };
        libc::sigaltstack(&ss, std::ptr::null_mut());
    }
}

fn parse_env_u64(name: &str) -> Option<u64> {
    std::env::var(name).ok().and_then(|s| s.parse().ok())
}

/// Entry point of a worker subprocess.
pub fn worker_main(def: &'static CheckDef, tier: Tier, shard: usize, nshards: usize) -> ! {
    std::panic::set_hook(Box::new(|info| {
        let loc = info.location().map(|l| format!("{}:{}", l.file(), l.line())).unwrap_or_default();
        let msg = if let Some(s) = info.payload().downcast_ref::<String>() {
            s.clone()
        } else if let Some(s) = info.payload().downcast_ref::<&str>() {
            s.to_string()
        } else {
            "<non-string panic payload>".to_string()
        };
        *LAST_PANIC.lock().unwrap() = Some((loc, msg));
    }));
    install_signal_handlers();
    // RSS/address-space cap: an unbounded allocation becomes an abort attributed to the open item.
    unsafe {
        // (C05's thorough tier compiles and runs the whole corelib test suite in one process: 8 GiB there)
        let gib: u64 = if def.id == "C05" { 8 } else { 4 };
        let lim = libc::rlimit { rlim_cur: gib << 30, rlim_max: gib << 30 };
        libc::setrlimit(libc::RLIMIT_AS, &lim);
    }
    CASE_TIMEOUT_MS.store(def.item_timeout_s * 1000, Ordering::SeqCst);
    DEFAULT_TIMEOUT_MS.store(def.item_timeout_s * 1000, Ordering::SeqCst);
    std::thread::spawn(|| {
        loop {
            std::thread::sleep(Duration::from_millis(100));
            let st = CASE_START_MS.load(Ordering::SeqCst);
            let to = CASE_TIMEOUT_MS.load(Ordering::SeqCst);
            if st != 0 && to != 0 && now_ms() > st + to {
                let idx = CUR_CASE.load(Ordering::SeqCst);
                let sub = CUR_SUB.load(Ordering::SeqCst);
                let sub = if sub == u64::MAX { "-".to_string() } else { sub.to_string() };
                eprintln!("\nTIMEOUT {idx} {sub} 0");
                unsafe { libc::_exit(78) };
            }
        }
    });
    let only = parse_env_u64("VERIF_ONLY");
    let skip_env = std::env::var("VERIF_SKIP").unwrap_or_default();
    let skip: BTreeSet<u64> = skip_env.split(',').filter_map(|s| s.parse().ok()).collect();
    let skip_subs: BTreeSet<(u64, u64)> = skip_env
        .split(',')
        .filter_map(|s| s.split_once(':').and_then(|(a, b)| Some((a.parse().ok()?, b.parse().ok()?))))
        .collect();
    let describe: Option<(u64, Option<u64>)> = std::env::var("VERIF_DESCRIBE").ok().and_then(|s| match s.split_once(':') {
        Some((a, b)) => Some((a.parse().ok()?, Some(b.parse().ok()?))),
        None => Some((s.parse().ok()?, None)),
    });
    let cap = tier.pick(def.wall_cap_s.0, def.wall_cap_s.1);
    let cap = parse_env_u64("VERIF_WALL_CAP_S").unwrap_or(cap);
    let seed = parse_env_u64("VERIF_SEED").unwrap_or(0);
    let h = std::thread::Builder::new()
        .stack_size(def.stack_mb << 20)
        .spawn(move || {
            install_altstack_for_thread();
            let mut ctx = Ctx {
                id: def.id,
                tier,
                shard,
                nshards,
                seed,
                only,
                skip,
                skip_subs,
                describe,
                sub_idx: 0,
                idx: 0,
                counters: BTreeMap::new(),
                mins: BTreeMap::new(),
                maxs: BTreeMap::new(),
                samples: vec![],
                distinct: HashSet::new(),
                outcomes: BTreeMap::new(),
                violations: vec![],
                deadline: Instant::now() + Duration::from_secs(cap),
                capped: false,
                notes: BTreeSet::new(),
            };
            let r = catch_unwind(AssertUnwindSafe(|| (def.run)(&mut ctx)));
            if r.is_err() {
                let (loc, msg) = LAST_PANIC.lock().unwrap().take().unwrap_or_default();
                eprintln!("MACHINERY-PANIC outside an item at {loc}: {msg}");
                std::process::exit(2);
            }
            ctx
        })
        .unwrap();
    let ctx = h.join().unwrap_or_else(|_| std::process::exit(2));
    // distinct hashes go to a side file (can be millions)
    let dir = out_dir().join("tmp");
    std::fs::create_dir_all(&dir).ok();
    let hpath = dir.join(format!("{}-{}-{}.hashes", def.id, std::process::id(), shard));
    let mut bytes = Vec::with_capacity(ctx.distinct.len() * 8);
    for h in &ctx.distinct {
        bytes.extend_from_slice(&h.to_le_bytes());
    }
    std::fs::write(&hpath, bytes).unwrap();
    let out = json!({
        "t": "done",
        "counters": ctx.counters, "mins": ctx.mins, "maxs": ctx.maxs, "samples": ctx.samples,
        "outcomes": ctx.outcomes, "violations": ctx.violations, "capped": ctx.capped,
        "hashes": hpath, "notes": ctx.notes, "total_items": ctx.idx,
    });
    println!("{out}");
    std::io::stdout().flush().ok();
    std::process::exit(0);
}

pub fn verif_dir() -> std::path::PathBuf {
    std::env::var("VERIF_DIR").map(Into::into).unwrap_or_else(|_| "/verif".into())
}
pub fn out_dir() -> std::path::PathBuf {
    verif_dir().join("out")
}

struct WorkerResult {
    done: Option<Value>,
    code: i32,
    stderr: String,
}

fn spawn_worker(def: &CheckDef, tier: Tier, shard: usize, nshards: usize, env: &[(String, String)]) -> std::process::Child {
    let exe = std::env::current_exe().unwrap();
    let mut cmd = std::process::Command::new(exe);
    cmd.args(["worker", def.id, tier.name(), &shard.to_string(), &nshards.to_string()]);
    for (k, v) in env {
        cmd.env(k, v);
    }
    cmd.env("RAYON_NUM_THREADS", std::env::var("VERIF_WORKER_RAYON").unwrap_or("1".into()));
    cmd.stdout(std::process::Stdio::piped()).stderr(std::process::Stdio::piped()).stdin(std::process::Stdio::null());
    cmd.spawn().expect("spawn worker")
}

fn wait_worker(mut ch: std::process::Child) -> WorkerResult {
    let mut so = ch.stdout.take().unwrap();
    let mut se = ch.stderr.take().unwrap();
    let t = std::thread::spawn(move || {
        let mut s = String::new();
        se.read_to_string(&mut s).ok();
        s
    });
    let mut out = String::new();
    so.read_to_string(&mut out).ok();
    let st = ch.wait().unwrap();
    let stderr = t.join().unwrap();
    let done = out.lines().rev().find_map(|l| serde_json::from_str::<Value>(l).ok().filter(|v| v["t"] == "done" || v["t"] == "describe"));
    WorkerResult { done, code: st.code().unwrap_or(-1), stderr }
}

#[derive(serde::Deserialize, Debug, Clone)]
pub struct KnownFinding {
    pub status: String,
    pub property: String,
    pub signature: String,
    pub what: String,
    #[serde(default)]
    pub commit: Option<String>,
}

pub fn load_known() -> Vec<KnownFinding> {
    let p = verif_dir().join("known_findings.jsonl");
    let Ok(s) = std::fs::read_to_string(p) else { return vec![] };
    s.lines().filter(|l| !l.trim().is_empty()).map(|l| serde_json::from_str(l).expect("known_findings.jsonl line")).collect()
}

fn describe_item(def: &CheckDef, tier: Tier, shard: usize, nshards: usize, idx: u64, sub: Option<u64>, base_env: &[(String, String)]) -> Value {
    let d = match sub {
        Some(k) => format!("{idx}:{k}"),
        None => idx.to_string(),
    };
    let mut env = base_env.to_vec();
    env.push(("VERIF_DESCRIBE".into(), d));
    let ch = spawn_worker(def, tier, shard, nshards, &env);
    let r = wait_worker(ch);
    r.done.map(|v| v["case"].clone()).unwrap_or(Value::Null)
}


/// Drives one shard to completion: a worker that died on a fatal signal or watchdog is restarted with the
/// offending item (or sub-case) in its skip list, and the crash is recorded as a violation of that case.
fn finish_worker(
    def: &'static CheckDef,
    tier: Tier,
    shard: usize,
    nshards: usize,
    first: WorkerResult,
    base_env: &[(String, String)],
    crash_violations: &mut Vec<Violation>,
) -> Result<Value, i32> {
    let mut r = first;
    let mut skip: Vec<String> = vec![];
    let mut restarts = 0;
    loop {
        if r.code == 0 && r.done.is_some() {
            return Ok(r.done.unwrap());
        }
        if r.code == 77 || r.code == 78 {
            let line = r.stderr.lines().rev().find(|l| l.starts_with("FATAL ") || l.starts_with("TIMEOUT ")).unwrap_or("").to_string();
            let mut parts = line.split_whitespace();
            let kind = parts.next().unwrap_or("");
            let idx: u64 = parts.next().and_then(|s| s.parse().ok()).unwrap_or(u64::MAX);
            let sub: Option<u64> = parts.next().and_then(|s| s.parse().ok());
            let signo = parts.next().unwrap_or("").to_string();
            if idx == u64::MAX {
                eprintln!("machinery: worker {shard} died outside an item ({line}); stderr:\n{}", tail(&r.stderr));
                return Err(2);
            }
            let case = describe_item(def, tier, shard, nshards, idx, sub, base_env);
            let hint = case.get("sig_hint").and_then(|h| h.as_str()).map(|h| format!(":{h}")).unwrap_or_default();
            let (sig, what) = if kind == "TIMEOUT" {
                (format!("timeout{hint}"), format!("case did not finish within its watchdog time (at most {} s)", def.item_timeout_s))
            } else {
                let overflow = r.stderr.contains("has overflowed its stack");
                let oom = r.stderr.contains("memory allocation of");
                let k = if overflow { "stack-overflow" } else if oom { "alloc-failure" } else { "fatal-signal" };
                (format!("crash:{k}{hint}"), format!("process died with signal {signo} ({k}) while running the case"))
            };
            crash_violations.push(Violation { sig, what, idx, case });
            // the third crash / hang inside one item abandons the rest of that item (each restart replays the
            // shard up to it): the sub-cases already attributed stand as violations
            let prefix = format!("{idx}:");
            let in_item = skip.iter().filter(|s| s.starts_with(&prefix)).count();
            skip.push(match sub {
                Some(k) if in_item < 2 => format!("{idx}:{k}"),
                _ => idx.to_string(),
            });
            restarts += 1;
            if restarts > 60 {
                eprintln!("machinery: worker {shard} crashed more than 60 times");
                return Err(2);
            }
            let mut env = base_env.to_vec();
            env.push(("VERIF_SKIP".to_string(), skip.join(",")));
            r = wait_worker(spawn_worker(def, tier, shard, nshards, &env));
            continue;
        }
        eprintln!("machinery: worker {shard} exited with {} without a result; stderr:\n{}", r.code, tail(&r.stderr));
        return Err(2);
    }
}

/// Parent: run all shards, aggregate, write evidence, print verdict lines. Returns the exit code.
pub fn run_check(def: &'static CheckDef, tier: Tier) -> i32 {
    let t0 = Instant::now();
    let cores = std::thread::available_parallelism().map(|n| n.get()).unwrap_or(16);
    let nshards = if def.shards == 0 { cores } else { def.shards };
    let seed = parse_env_u64("VERIF_SEED").unwrap_or(0);
    let mut results: Vec<Value> = vec![];
    let mut crash_violations: Vec<Violation> = vec![];
    let children: Vec<_> = (0..nshards).map(|s| (s, spawn_worker(def, tier, s, nshards, &[]))).collect();
    for (shard, ch) in children {
        let r = wait_worker(ch);
        match finish_worker(def, tier, shard, nshards, r, &[], &mut crash_violations) {
            Ok(v) => results.push(v),
            Err(code) => return code,
        }
    }
    // aggregate
    let mut counters: BTreeMap<String, i64> = BTreeMap::new();
    let mut mins: BTreeMap<String, i64> = BTreeMap::new();
    let mut maxs: BTreeMap<String, i64> = BTreeMap::new();
    let mut outcomes: BTreeMap<String, i64> = BTreeMap::new();
    let mut samples: Vec<Value> = vec![];
    let mut notes: BTreeSet<String> = BTreeSet::new();
    let mut violations: Vec<Violation> = crash_violations;
    let mut distinct: HashSet<u64> = HashSet::new();
    let mut capped = false;
    let mut total_items = 0;
    for r in &results {
        for (k, v) in r["counters"].as_object().unwrap() {
            *counters.entry(k.clone()).or_default() += v.as_i64().unwrap();
        }
        for (k, v) in r["outcomes"].as_object().unwrap() {
            *outcomes.entry(k.clone()).or_default() += v.as_i64().unwrap();
        }
        for (k, v) in r["mins"].as_object().unwrap() {
            let v = v.as_i64().unwrap();
            let e = mins.entry(k.clone()).or_insert(v);
            *e = (*e).min(v);
        }
        for (k, v) in r["maxs"].as_object().unwrap() {
            let v = v.as_i64().unwrap();
            let e = maxs.entry(k.clone()).or_insert(v);
            *e = (*e).max(v);
        }
        for s in r["samples"].as_array().unwrap() {
            if samples.len() < 5 {
                samples.push(s.clone());
            }
        }
        for n in r["notes"].as_array().unwrap() {
            notes.insert(n.as_str().unwrap().to_string());
        }
        for v in r["violations"].as_array().unwrap() {
            violations.push(serde_json::from_value(v.clone()).unwrap());
        }
        capped |= r["capped"].as_bool().unwrap();
        total_items = total_items.max(r["total_items"].as_i64().unwrap());
        let hp = r["hashes"].as_str().unwrap();
        if let Ok(b) = std::fs::read(hp) {
            for c in b.chunks_exact(8) {
                distinct.insert(u64::from_le_bytes(c.try_into().unwrap()));
            }
        }
        std::fs::remove_file(hp).ok();
    }
    violations.sort_by(|a, b| (a.idx, &a.sig).cmp(&(b.idx, &b.sig)));
    // verdict
    let known = load_known();
    let mut by_sig: BTreeMap<String, Vec<&Violation>> = BTreeMap::new();
    for v in &violations {
        by_sig.entry(v.sig.clone()).or_default().push(v);
    }
    let mut exit = 0;
    let mut n_known = 0;
    let mut n_new = 0;
    let mut replay_cache: BTreeMap<u64, Option<Vec<Violation>>> = BTreeMap::new();
    let rdir = out_dir().join("replay").join(def.id);
    std::fs::create_dir_all(&rdir).ok();
    for (sig, vs) in &by_sig {
        let k = known.iter().find(|k| k.property == def.id && k.status == "known" && sig_matches(&k.signature, sig));
        if let Some(k) = k {
            println!("KNOWN-FINDING: property={} {} [signature {}; {} occurrence(s) this run, e.g. {}]", def.id, k.what, sig, vs.len(), short(&vs[0].case));
            n_known += vs.len();
            continue;
        }
        // first occurrence: confirm by replay in a fresh process
        let v = vs[0];
        let path = rdir.join(format!("{}-{}-{:08x}.json", tier.name(), v.idx, hash_of(sig) as u32));
        let replay = json!({"property": def.id, "tier": tier.name(), "idx": v.idx, "signature": sig, "what": v.what, "case": v.case, "occurrences": vs.len()});
        std::fs::write(&path, serde_json::to_string_pretty(&replay).unwrap()).unwrap();
        if std::env::var("VERIF_NO_CONFIRM").is_err() {
            let r = replay_cache.entry(v.idx).or_insert_with(|| replay_idx(def, tier, v.idx)).clone();
            match r {
                Some(rv) if rv.iter().any(|x| &x.sig == sig) => {}
                Some(_) if sig.starts_with("timeout") || sig.starts_with("crash:alloc-failure") => {
                    // (likewise the address-space cap hit by a worker whose databases had grown over many items:
                    // the item alone stays far below it)
                    // a watchdog that fires in the loaded run but not when the item is replayed alone is the machine
                    // being busy, not a hang: the item's remaining sub-cases were cut, which makes the run non-exhaustive
                    eprintln!("note: item {} hit its watchdog ({sig}) but completes when replayed alone; counted as a cap, not a verdict", v.idx);
                    capped = true;
                    notes.insert(format!("not exhaustive: item {} hit its watchdog under load ({sig}); it completes when replayed alone", v.idx));
                    continue;
                }
                Some(_) => {
                    eprintln!("machinery: violation {sig} at item {} did not reproduce on replay — uncaptured nondeterminism", v.idx);
                    return 2;
                }
                None => {
                    eprintln!("machinery: replay worker failed for item {}", v.idx);
                    return 2;
                }
            }
        }
        n_new += vs.len();
        exit = 1;
        println!("VIOLATION property={} replay={}", def.id, path.display());
        println!("  signature: {sig}\n  what: {}\n  occurrences: {}\n  first case: {}", v.what, vs.len(), short(&v.case));
    }
    let wall = t0.elapsed().as_secs_f64();
    // evidence
    let evaluations = counters.get("evaluations").copied().unwrap_or_else(|| counters.get("items").copied().unwrap_or(0));
    let mut coverage = json!({
        "evaluations": evaluations,
        "distinct_nontrivial": distinct.len(),
        "rule": def.rule,
        "samples": samples,
        "exhaustive": !capped,
        "work_items": counters.get("items").copied().unwrap_or(0),
        "counters": counters,
        "observed_outcomes": outcomes,
        "mins": mins, "maxs": maxs,
        "notes": notes,
        "known_finding_occurrences": n_known,
        "shards": nshards,
    });
    if def.level == "model_checking" {
        let m = coverage.as_object_mut().unwrap();
        m.insert("states".into(), json!(counters.get("states").copied().unwrap_or(0)));
        m.insert("transitions".into(), json!(counters.get("transitions").copied().unwrap_or(0)));
        m.insert("traces_validated_against_impl".into(), json!(counters.get("traces_validated_against_impl").copied().unwrap_or(0)));
    }
    let ev = json!({
        "property_id": def.id,
        "tier": tier.name(),
        "seed": seed,
        "level": def.level,
        "coverage": coverage,
        "assumptions": def.assumptions,
        "wall_s": wall,
        "violations": n_new,
    });
    let edir = verif_dir().join("evidence");
    std::fs::create_dir_all(&edir).ok();
    std::fs::write(edir.join(format!("{}.json", def.id)), serde_json::to_string_pretty(&ev).unwrap()).unwrap();
    println!(
        "{} {}: items={} evaluations={} distinct={} violations={} known={} exhaustive={} wall={:.1}s",
        def.id,
        tier.name(),
        counters.get("items").copied().unwrap_or(0),
        evaluations,
        distinct.len(),
        n_new,
        n_known,
        !capped,
        wall
    );
    exit
}

fn sig_matches(pattern: &str, sig: &str) -> bool {
    if let Some(p) = pattern.strip_suffix('*') { sig.starts_with(p) } else { pattern == sig }
}

fn tail(s: &str) -> String {
    let lines: Vec<&str> = s.lines().collect();
    lines[lines.len().saturating_sub(15)..].join("\n")
}
fn short(v: &Value) -> String {
    let s = v.to_string();
    if s.len() > 400 { format!("{}…", s.chars().take(400).collect::<String>()) } else { s }
}

/// Re-runs exactly one item in a fresh worker and returns the violations it produced.
pub fn replay_idx(def: &'static CheckDef, tier: Tier, idx: u64) -> Option<Vec<Violation>> {
    let env = vec![("VERIF_ONLY".to_string(), idx.to_string())];
    let ch = spawn_worker(def, tier, 0, 1, &env);
    let r = wait_worker(ch);
    let mut crashes = vec![];
    let d = finish_worker(def, tier, 0, 1, r, &env, &mut crashes).ok()?;
    let mut out: Vec<Violation> = d["violations"].as_array()?.iter().map(|v| serde_json::from_value(v.clone()).unwrap()).collect();
    out.extend(crashes);
    Some(out)
}

