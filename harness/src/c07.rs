//! C07 — compile-time evaluation (const items, const fns, constant folding) agrees with run-time evaluation.

use std::collections::{BTreeMap, BTreeSet};

use cairo_lang_runner::{Arg, RunResultValue};
use num_bigint::BigInt;
use serde_json::json;

use crate::c06::{TYPES, Ty, to_felt};
use crate::core::{CheckDef, Ctx, Tier, guarded};
use crate::exec::{Dbs, value_json};
use crate::pipe::*;

struct COp {
    name: &'static str,
    /// expression over `$a` and `$b`
    expr: &'static str,
    /// result type: "T" (operand type), "bool", or a concrete type name
    ret: &'static str,
    unary: bool,
    unsigned_only: bool,
    signed_only: bool,
}

const OPS: &[COp] = &[
    COp { name: "add", expr: "$a + $b", ret: "T", unary: false, unsigned_only: false, signed_only: false },
    COp { name: "sub", expr: "$a - $b", ret: "T", unary: false, unsigned_only: false, signed_only: false },
    COp { name: "mul", expr: "$a * $b", ret: "T", unary: false, unsigned_only: false, signed_only: false },
    COp { name: "div", expr: "$a / $b", ret: "T", unary: false, unsigned_only: false, signed_only: false },
    COp { name: "rem", expr: "$a % $b", ret: "T", unary: false, unsigned_only: false, signed_only: false },
    COp { name: "and", expr: "$a & $b", ret: "T", unary: false, unsigned_only: true, signed_only: false },
    COp { name: "or", expr: "$a | $b", ret: "T", unary: false, unsigned_only: true, signed_only: false },
    COp { name: "xor", expr: "$a ^ $b", ret: "T", unary: false, unsigned_only: true, signed_only: false },
    COp { name: "neg", expr: "-$a", ret: "T", unary: true, unsigned_only: false, signed_only: true },
    COp { name: "lt", expr: "$a < $b", ret: "bool", unary: false, unsigned_only: false, signed_only: false },
    COp { name: "le", expr: "$a <= $b", ret: "bool", unary: false, unsigned_only: false, signed_only: false },
    COp { name: "eq", expr: "$a == $b", ret: "bool", unary: false, unsigned_only: false, signed_only: false },
    COp { name: "ne", expr: "$a != $b", ret: "bool", unary: false, unsigned_only: false, signed_only: false },
    COp { name: "mixed", expr: "($a + $b) * $a - $b / $a", ret: "T", unary: false, unsigned_only: false, signed_only: false },
    COp { name: "andand", expr: "($a < $b) && ($b / $a == $a)", ret: "bool", unary: false, unsigned_only: false, signed_only: false },
    COp { name: "oror", expr: "($a == $b) || ($a % $b == $b)", ret: "bool", unary: false, unsigned_only: false, signed_only: false },
    COp { name: "to_felt", expr: "$a.into()", ret: "felt252", unary: true, unsigned_only: false, signed_only: false },
];

/// Ways an expression reaches the const evaluator.
const SHAPES: &[&str] = &["direct", "via-struct", "via-const-fn", "via-const-fn2", "via-match-tuple", "via-block"];

struct Inst {
    a: BigInt,
    b: BigInt,
}

/// One expression form with concrete operand and result types.
struct Form {
    name: String,
    expr: String,
    ta: String,
    tb: String,
    ret: String,
    unary: bool,
    /// also evaluated as a `const` item (the const evaluator of semantic analysis)
    const_twin: bool,
    /// items the expression needs (use declarations, helper impls)
    prelude: String,
    /// operand domain of `b` when it is not the domain of its type
    dom_b: &'static str,
}

impl Form {
    fn of_op(op: &COp, t: &Ty) -> Form {
        let r = if op.ret == "T" { t.name } else { op.ret };
        Form { name: op.name.into(), expr: op.expr.into(), ta: t.name.into(), tb: t.name.into(), ret: r.into(), unary: op.unary, const_twin: true, prelude: String::new(), dom_b: "" }
    }
}

fn expr(f: &Form, a: &str, b: &str) -> String {
    f.expr.replace("$a", a).replace("$b", b)
}

/// Literal text of a value of type `t` (felt252 values are written canonically, in [0, P)).
fn lit(t: &str, v: &BigInt) -> String {
    if t == "felt252" { crate::c06::to_felt(v).to_bigint().to_string() } else { v.to_string() }
}

const FOLD_PRELUDE: &str = "#[feature(\"bounded-int-utils\")]
use core::internal::bounded_int::{self, BoundedInt, AddHelper, SubHelper, MulHelper, DivRemHelper};
use core::internal::OptionRev;
use core::num::traits::{CheckedAdd, CheckedSub, CheckedMul, WrappingAdd, WrappingSub, WrappingMul, OverflowingAdd, OverflowingSub, OverflowingMul, SaturatingAdd, SaturatingSub, SaturatingMul, WideMul, Zero};
impl AddU8I8 of AddHelper<u8, i8> { type Result = BoundedInt<-128, 382>; }
impl SubU8I8 of SubHelper<u8, i8> { type Result = BoundedInt<-127, 383>; }
impl MulU8I8 of MulHelper<u8, i8> { type Result = BoundedInt<-32640, 32385>; }
impl DivRemU8 of DivRemHelper<u8, u8> { type DivT = BoundedInt<0, 255>; type RemT = BoundedInt<0, 254>; }
";

/// Module text for one batch. Returns (text, line number of each C const).
fn module(f: &Form, shape: &str, insts: &[Inst], skip_consts: &BTreeSet<usize>, half: bool) -> (String, Vec<usize>) {
    let (ta, tb, r) = (f.ta.as_str(), f.tb.as_str(), f.ret.as_str());
    let mut s = String::new();
    let mut lines = vec![];
    let mut line = 1usize;
    let mut push = |s: &mut String, l: String| {
        let n = l.matches('\n').count() + 1;
        s.push_str(&l);
        s.push('\n');
        line += n;
        line - 1
    };
    if !f.prelude.is_empty() {
        push(&mut s, f.prelude.trim_end().to_string());
    }
    push(&mut s, format!("#[derive(Copy, Drop)] struct P {{ x: {ta}, y: {tb} }}"));
    if f.const_twin {
        push(&mut s, format!("const fn g(a: {ta}, b: {tb}) -> {r} {{ {} }}", expr(f, "a", "b")));
        push(&mut s, format!("const fn h(a: {ta}, b: {tb}) -> {r} {{ g(a, b) }}"));
    }
    push(&mut s, format!("fn rt(a: {ta}, b: {tb}) -> {r} {{ {} }}", expr(f, "a", "b")));
    for (k, i) in insts.iter().enumerate() {
        let (la, lb) = (lit(ta, &i.a), lit(tb, &i.b));
        if f.const_twin {
            push(&mut s, format!("const A{k}: {ta} = {la};"));
            push(&mut s, format!("const B{k}: {tb} = {lb};"));
            let c = match shape {
                "direct" => expr(f, &format!("A{k}"), &format!("B{k}")),
                "via-struct" => {
                    push(&mut s, format!("const S{k}: P = P {{ x: A{k}, y: B{k} }};"));
                    expr(f, &format!("S{k}.x"), &format!("S{k}.y"))
                }
                "via-const-fn" => format!("g(A{k}, B{k})"),
                "via-const-fn2" => format!("h(A{k}, B{k})"),
                "via-match-tuple" => format!("match (A{k}, B{k}) {{ (p, q) => {} }}", expr(f, "p", "q")),
                _ => format!("{{ let p = A{k}; let q = B{k}; {} }}", expr(f, "p", "q")),
            };
            if skip_consts.contains(&k) {
                lines.push(0);
            } else {
                let l = push(&mut s, format!("const C{k}: {r} = {c};"));
                lines.push(l);
                push(&mut s, format!("fn k{k}() -> {r} {{ C{k} }}"));
            }
        } else {
            lines.push(0);
        }
        push(&mut s, format!("fn fold{k}() -> {r} {{ let a: {ta} = {la}; let b: {tb} = {lb}; {} }}", expr(f, "a", "b")));
        // one operand a compile-time constant, the other opaque: the identity / absorbing-element
        // simplifications of the folder (x+0, x*1, 0*x, 0/x, x/1 ...) and partial knowledge
        if half {
            push(&mut s, format!("fn hl{k}(b: {tb}) -> {r} {{ let a: {ta} = {la}; {} }}", expr(f, "a", "b")));
            push(&mut s, format!("fn hr{k}(a: {ta}) -> {r} {{ let b: {tb} = {lb}; {} }}", expr(f, "a", "b")));
        }
    }
    (s, lines)
}

/// Parses `error[CODE]` blocks: (code, line).
fn parse_errors(diag: &str) -> Vec<(String, usize)> {
    let mut out = vec![];
    let mut cur: Option<String> = None;
    for l in diag.lines() {
        if let Some(rest) = l.strip_prefix("error") {
            let code = rest.strip_prefix('[').and_then(|r| r.split(']').next()).unwrap_or("").to_string();
            cur = Some(code);
        } else if l.trim_start().starts_with("-->") {
            if let Some(code) = cur.take() {
                let loc = l.rsplit("lib.cairo:").next().unwrap_or("");
                let line: usize = loc.split(':').next().and_then(|x| x.parse().ok()).unwrap_or(0);
                out.push((code, line));
            }
        }
    }
    out
}

fn run_fn(c: &Compiled, name: &str, args: &[BigInt]) -> Option<RunResultValue> {
    let f = c.program.funcs.iter().find(|f| fname(f) == format!("test::{name}"))?;
    let a: Vec<Arg> = args.iter().map(|v| Arg::Value(to_felt(v))).collect();
    match run(c, f, &a, Some(100_000_000)).0 {
        Outcome::Value(v, _) => Some(v),
        _ => None,
    }
}

fn check_batch(ctx: &mut Ctx, dbs: &mut Dbs, f: &Form, shape: &str, insts: &[Inst], exhaustive: bool) {
    // the half-constant twins: binary forms, shape `direct`, boundary operand sets (not the 65 536-pair sweeps)
    let half = !f.unary && shape == "direct" && !exhaustive;
    let cfg = Cfg::DEFAULT;
    let nofold = Cfg { skip_const_folding: true, ..Cfg::DEFAULT };
    let case = |k: usize, what: &str| json!({"type": f.ta, "type_b": f.tb, "op": f.name, "shape": shape, "a": insts[k].a.to_string(), "b": insts[k].b.to_string(), "expr": expr(f, "A", "B"), "what": what});
    // pass 1: all consts; collect which fail and how
    let (text, lines) = module(f, shape, insts, &BTreeSet::new(), half);
    let diag = match dbs.compile(&cfg, &text) {
        Ok(_) => String::new(),
        Err(d) => d,
    };
    // diagnostics() truncates in Dbs::compile; recompute full text only when needed
    let full_diag = if diag.is_empty() { String::new() } else { dbs.full_diagnostics(&cfg, &text) };
    let errs = parse_errors(&full_diag);
    let mut failed: BTreeMap<usize, String> = BTreeMap::new();
    for (code, line) in &errs {
        match lines.iter().position(|l| *l == *line && *l != 0) {
            Some(k) => {
                failed.entry(k).or_insert(code.clone());
            }
            None => {
                // an error that is not on a C-const line: the generated program itself is ill-formed
                ctx.count("batches_with_foreign_diagnostics", 1);
                ctx.note(format!("{}::{} {shape}: error {code} on line {line} (not a generated const)", f.ta, f.name));
                return;
            }
        }
    }
    // pass 2: without the failing consts; must compile
    let skip: BTreeSet<usize> = failed.keys().copied().collect();
    let (text2, _) = module(f, shape, insts, &skip, half);
    let prog = match guarded(|| dbs.compile(&cfg, &text2)).unwrap_or_else(|(loc, msg)| {
        dbs.forget(&cfg);
        Err(format!("panic at {loc}: {msg}"))
    }) {
        Ok(p) => p,
        Err(e) => {
            // error-free with the failing consts removed: if the build without const folding compiles, the
            // folder turned a program with a run-time meaning into one that has none
            let without = guarded(|| dbs.compile(&nofold, &text2)).unwrap_or_else(|_| {
                dbs.forget(&nofold);
                Err("panic".into())
            });
            if without.is_ok() {
                ctx.violation(
                    format!("build-fails-only-with-folding:{}", f.name),
                    format!("the module compiles with skip_const_folding but not with const folding: {}", e.chars().take(300).collect::<String>()),
                    json!({"type": f.ta, "op": f.name, "shape": shape, "source": text2}),
                );
            } else {
                ctx.count("batches_not_compiling_after_removal", 1);
                ctx.note(format!("{}::{} {shape}: {}", f.ta, f.name, e.chars().take(200).collect::<String>()));
            }
            return;
        }
    };
    let Ok(c) = make_runner(prog, &cfg) else { return };
    let c_nofold = dbs.compile(&nofold, &text2).ok().and_then(|p| make_runner(p, &nofold).ok());
    for (k, i) in insts.iter().enumerate() {
        if !ctx.sub(|| case(k, "instance")) {
            continue;
        }
        ctx.count("evaluations", 1);
        ctx.distinct(&(f.ta.as_str(), f.tb.as_str(), f.name.as_str(), shape, i.a.to_string(), i.b.to_string()));
        let Some(rt) = guarded(|| run_fn(&c, "rt", &[i.a.clone(), i.b.clone()])).ok().flatten() else {
            ctx.count("rt_run_failed", 1);
            continue;
        };
        let rt_panics = matches!(rt, RunResultValue::Panic(_));
        // the opaque-argument twin itself is subject to type-directed folding: bind it to the build without folding
        if let Some(cc) = c_nofold.as_ref() {
            if let Some(v) = guarded(|| run_fn(cc, "rt", &[i.a.clone(), i.b.clone()])).ok().flatten() {
                ctx.count("rt_comparisons", 1);
                if v != rt {
                    ctx.violation(format!("runtime-twin-differs-without-folding:{}", f.name), format!("opaque-argument function = {} with const folding but {} without", value_json(&rt), value_json(&v)), case(k, "rt-fold-vs-nofold"));
                }
            }
        }
        match failed.get(&k) {
            _ if !f.const_twin => {}
            Some(code) if code == "E2127" => {
                ctx.count("unsupported_constant_not_judged", 1);
            }
            Some(code) => {
                ctx.outcome("const-eval-fails");
                if !["E2128", "E2130", "E2131", "E2008"].contains(&code.as_str()) {
                    ctx.violation(format!("unexpected-diagnostic:{code}"), format!("const item gets diagnostic {code}, which is not an evaluation failure"), case(k, "diagnostic"));
                } else if !rt_panics {
                    ctx.violation(
                        format!("compile-time-failure-but-runtime-value:{}", f.name),
                        format!("the const item fails to evaluate ({code}) but the same expression evaluates to {} at run time", value_json(&rt)),
                        case(k, "const-vs-runtime"),
                    );
                }
            }
            None => {
                ctx.outcome("const-eval-value");
                match guarded(|| run_fn(&c, &format!("k{k}"), &[])).ok().flatten() {
                    None => ctx.count("k_run_failed", 1),
                    Some(kv) => {
                        if rt_panics {
                            ctx.violation(
                                format!("compile-time-value-but-runtime-panic:{}", f.name),
                                format!("the const item silently evaluates to {} but the same expression panics at run time with {}", value_json(&kv), value_json(&rt)),
                                case(k, "const-vs-runtime"),
                            );
                        } else if kv != rt {
                            ctx.violation(format!("const-value-differs:{}", f.name), format!("const = {} but run time = {}", value_json(&kv), value_json(&rt)), case(k, "const-vs-runtime"));
                        }
                    }
                }
            }
        }
        // folded twin, with and without const folding
        for (label, cc) in [("folded", Some(&c)), ("not-folded", c_nofold.as_ref())] {
            let Some(cc) = cc else { continue };
            match guarded(|| run_fn(cc, &format!("fold{k}"), &[])).ok().flatten() {
                None => ctx.count("fold_run_failed", 1),
                Some(fv) => {
                    ctx.count("fold_comparisons", 1);
                    if fv != rt {
                        ctx.violation(format!("folded-twin-differs:{label}:{}", f.name), format!("literal-operand function ({label}) = {} but opaque-argument function = {}", value_json(&fv), value_json(&rt)), case(k, "fold-vs-runtime"));
                    }
                }
            }
            if !half {
                continue;
            }
            for (side, fname_, arg) in [("left-const", format!("hl{k}"), &i.b), ("right-const", format!("hr{k}"), &i.a)] {
                match guarded(|| run_fn(cc, &fname_, std::slice::from_ref(arg))).ok().flatten() {
                    None => ctx.count("half_fold_run_failed", 1),
                    Some(fv) => {
                        ctx.count("half_fold_comparisons", 1);
                        if fv != rt {
                            ctx.violation(format!("half-folded-twin-differs:{side}:{label}:{}", f.name), format!("function with the {side} operand literal ({label}) = {} but opaque-argument function = {}", value_json(&fv), value_json(&rt)), case(k, "half-fold-vs-runtime"));
                        }
                    }
                }
            }
        }
    }
    if !insts.is_empty() {
        ctx.sample(|| json!({"type": f.ta, "op": f.name, "shape": shape, "first_instance": case(0, "sample"), "consts_failing": failed.len(), "instances": insts.len()}));
    }
}

fn ty(name: &str) -> Option<&'static Ty> {
    TYPES.iter().find(|t| t.name == name)
}

fn prime() -> BigInt {
    (BigInt::from(1) << 251) + (BigInt::from(17) << 192) + 1
}

/// Operand domain of a type by name.
fn domain(name: &str, tier: Tier, exhaustive: bool) -> Vec<BigInt> {
    if let Some(t) = ty(name) {
        return if exhaustive { t.all() } else if tier == Tier::Quick && t.bits > 8 { small_boundary(t) } else { t.boundary() };
    }
    match name {
        // array index
        "idx" => [0u64, 1, 2, 3, u32::MAX as u64].iter().map(|v| BigInt::from(*v)).collect(),
        _ => {
            // felt252: 0, 1, 2, the integer type boundaries and their neighbours (also as negatives), 2^251, (P±1)/2, P-2, P-1
            let p = prime();
            let mut v: Vec<BigInt> = vec![];
            for k in [0u32, 7, 8, 15, 16, 31, 32, 63, 64, 127, 128, 251] {
                let x = BigInt::from(1) << k;
                for d in [-1i32, 0, 1] {
                    v.push(&x + d);
                    v.push(-(&x + d));
                }
            }
            v.extend([BigInt::from(0), BigInt::from(2), BigInt::from(3), (&p - 1) / 2, (&p + 1) / 2, &p - 2]);
            // the storage address bound 2^251 - 256
            let bound: BigInt = (BigInt::from(1) << 251) - BigInt::from(256);
            for d in [-1i32, 0, 1, 255] {
                v.push(bound.clone() + BigInt::from(d));
            }
            let mut v: Vec<BigInt> = v.into_iter().map(|x| ((x % &p) + &p) % &p).collect();
            v.sort();
            v.dedup();
            if tier == Tier::Quick {
                v.retain(|x| {
                    let y = if *x > &p / 2 { &p - x } else { x.clone() };
                    y.bits() <= 9 || y.bits() >= 127
                });
            }
            v
        }
    }
}

const WIDE: &[(&str, &str)] = &[("u8", "u16"), ("u16", "u32"), ("u32", "u64"), ("u64", "u128"), ("u128", "u256"), ("i8", "i16"), ("i16", "i32"), ("i32", "i64"), ("i64", "i128")];

/// The forms that reach the constant folder of lowering (not the const evaluator): one per kind of
/// statement `const_folding.rs` rewrites.
fn folder_forms(types: &[&Ty], tier: Tier) -> Vec<Form> {
    let mut v = vec![];
    let mut add = |name: String, ta: &str, tb: &str, ret: String, e: String, unary: bool| {
        v.push(Form { name, expr: e, ta: ta.into(), tb: tb.into(), ret, unary, const_twin: false, prelude: FOLD_PRELUDE.into(), dom_b: "" });
    };
    for t in types {
        let n = t.name;
        for op in ["add", "sub", "mul"] {
            // checked_mul / overflowing_mul / saturating_mul / wrapping_mul exist for unsigned types only
            if op == "mul" && t.signed {
                continue;
            }
            add(format!("checked_{op}"), n, n, format!("Option<{n}>"), format!("$a.checked_{op}($b)"), false);
            add(format!("wrapping_{op}"), n, n, n.into(), format!("$a.wrapping_{op}($b)"), false);
            add(format!("overflowing_{op}"), n, n, format!("({n}, bool)"), format!("$a.overflowing_{op}($b)"), false);
            add(format!("saturating_{op}"), n, n, n.into(), format!("$a.saturating_{op}($b)"), false);
        }
        if let Some((_, w)) = WIDE.iter().find(|(s, _)| *s == n) {
            add("wide_mul".into(), n, n, w.to_string(), "$a.wide_mul($b)".into(), false);
        }
        add("is_zero".into(), n, n, "bool".into(), "core::num::traits::Zero::is_zero(@$a)".into(), true);
        add("nonzero".into(), n, n, "bool".into(), format!("{{ let r: Option<NonZero<{n}>> = $a.try_into(); r.is_some() }}"), true);
        add("array_len".into(), n, n, "u32".into(), "{ let arr = array![$a, $b, $a]; arr.len() }".into(), false);
        add("array_at".into(), n, "u32", n.into(), "{ let arr = array![$a, 7, 9]; *arr.at($b) }".into(), false);
        add("span_pop_front".into(), n, n, n.into(), "{ let mut s = array![$a, $b].span(); let _ = s.pop_front(); match s.pop_front() { Some(v) => *v, None => 77 } }".into(), false);
        add("span_pop_back".into(), n, n, n.into(), "{ let mut s = array![$a, $b].span(); match s.pop_back() { Some(v) => *v, None => 77 } }".into(), false);
        add("array_pop_front".into(), n, n, n.into(), "{ let mut arr = array![$a, $b]; match arr.pop_front() { Some(v) => v, None => 77 } }".into(), false);
        add("array_empty_pop_front".into(), n, n, n.into(), format!("{{ let mut arr: Array<{n}> = array![]; match arr.pop_front() {{ Some(v) => v, None => $a }} }}"), true);
        add("span_empty_pop".into(), n, n, n.into(), format!("{{ let mut s: Span<{n}> = array![].span(); match s.pop_front() {{ Some(v) => *v, None => match s.pop_back() {{ Some(v) => *v, None => $a }} }} }}"), true);
        add("span_exhaust".into(), n, n, n.into(), "{ let mut s = array![$a, $b].span(); let _ = s.pop_front(); let _ = s.pop_back(); match s.pop_front() { Some(v) => *v, None => match s.pop_back() { Some(v) => *v, None => 55 } } }".into(), false);
        add("array_empty_len".into(), n, n, n.into(), format!("{{ let arr: Array<{n}> = array![]; if arr.len() == 0 {{ $a }} else {{ 0 }} }}"), true);
        add("array_get_empty".into(), n, n, n.into(), format!("{{ let arr: Array<{n}> = array![]; match arr.get(0) {{ Some(v) => *v.unbox(), None => $a }} }}"), true);
        add("panic_felt".into(), n, n, n.into(), "{ if $a < $b { core::panic_with_felt252('less') } $a }".into(), false);
        add("panic_short".into(), n, n, n.into(), "{ if $a < $b { panic!(\"abc\") } $a }".into(), false);
        add("panic_31".into(), n, n, n.into(), "{ if $a < $b { panic!(\"0123456789012345678901234567890\") } $a }".into(), false);
        add("panic_long".into(), n, n, n.into(), "{ if $a == $b { panic!(\"0123456789012345678901234567890123456789012345678901234567890123456789\") } $a }".into(), false);
        add("assert_fmt".into(), n, n, n.into(), "{ assert!($a != $b, \"equal {} {}\", $a, $b); $b }".into(), false);
        add("call_helper".into(), n, n, n.into(), "hp($a, $b)".into(), false);
        add("call_rec".into(), n, n, n.into(), "rec($a, 3) / 2 + hp($b, $a) / 2".into(), false);
        add("known_enum".into(), n, n, n.into(), "{ let o = Option::Some($a); match o { Some(x) => x, None => $b } }".into(), false);
        add("known_struct".into(), n, n, n.into(), "{ let p = P { x: $a, y: $b }; let P { x: _, y } = p; y }".into(), false);
        add("box".into(), n, n, n.into(), "BoxTrait::new($a).unbox()".into(), true);
        add("nullable".into(), n, n, n.into(), format!("{{ let v: Nullable<{n}> = NullableTrait::new($a); v.deref() }}"), true);
        add("snapshot".into(), n, n, n.into(), "{ let s = @$a; *s }".into(), true);
        add("match_value".into(), n, n, n.into(), "match $a { 0 => $b, 1 => 5, _ => $a }".into(), false);
        add("eq_chain".into(), n, n, "bool".into(), "($a == $b) ^ ($a != $b) ^ ($a == 0) ^ ($b == 1)".into(), false);
        // conversions to every other integer type and to felt252
        for u in TYPES {
            if u.name != n && (tier == Tier::Thorough || types.iter().any(|x| x.name == u.name)) {
                add(format!("try_into_{}", u.name), n, n, format!("Option<{}>", u.name), format!("{{ let r: Option<{}> = $a.try_into(); r }}", u.name), true);
            }
        }
        add("from_felt252".into(), "felt252", "felt252", format!("Option<{n}>"), format!("{{ let r: Option<{n}> = $a.try_into(); r }}"), true);
    }
    for (op, e) in [("felt_add", "$a + $b"), ("felt_sub", "$a - $b"), ("felt_mul", "$a * $b"), ("felt_div", "felt252_div($a, $b.try_into().unwrap())"), ("felt_mixed", "($a - $b) * $a + $b * 3 - $a"), ("felt_is_zero", "{ if $a - $b == 0 { 1 } else { $a } }"), ("felt_match", "match $a { 0 => $b, _ => $a }")] {
        add(op.into(), "felt252", "felt252", "felt252".into(), e.into(), false);
    }
    for (op, e) in [("u256_add", "u256 { low: $a, high: $b } + u256 { low: $b, high: $a }"), ("u256_sub", "u256 { low: $a, high: $b } - u256 { low: $b, high: $a }"), ("u256_mul", "u256 { low: $a, high: 0 } * u256 { low: $b, high: 1 }"), ("u256_wide", "u256 { low: $a, high: 0 } * u256 { low: $b, high: 0 }")] {
        add(op.into(), "u128", "u128", "u256".into(), e.into(), false);
    }
    add("storage_base_address".into(), "felt252", "felt252", "felt252".into(), "starknet::storage_access::storage_address_from_base(starknet::storage_access::storage_base_address_from_felt252($a)).into()".into(), true);
    add("bounded_add".into(), "u8", "i8", "felt252".into(), "bounded_int::add($a, $b).into()".into(), false);
    add("bounded_sub".into(), "u8", "i8", "felt252".into(), "bounded_int::sub($a, $b).into()".into(), false);
    add("bounded_mul".into(), "u8", "i8", "felt252".into(), "bounded_int::mul($a, $b).into()".into(), false);
    add(
        "bounded_div_rem".into(),
        "u8",
        "u8",
        "(felt252, felt252)".into(),
        "{ let d: Option<NonZero<u8>> = $b.try_into(); match d { Some(nz) => { let (q, r) = bounded_int::div_rem($a, nz); (q.into(), r.into()) }, None => (1000, 1000) } }".into(),
        false,
    );
    for t in types {
        let n = t.name;
        add("bounded_trim_min".into(), n, n, "felt252".into(), format!("match bounded_int::trim_min::<{n}>($a) {{ OptionRev::Some(v) => v.into(), OptionRev::None => 999 }}"), true);
        add("bounded_trim_max".into(), n, n, "felt252".into(), format!("match bounded_int::trim_max::<{n}>($a) {{ OptionRev::Some(v) => v.into(), OptionRev::None => 999 }}"), true);
        if t.signed {
            add("bounded_constrain0".into(), n, n, "felt252".into(), format!("match bounded_int::constrain::<{n}, 0>($a) {{ Ok(l) => l.into() - 1000, Err(h) => h.into() + 1000 }}"), true);
        }
    }
    for f in &mut v {
        if f.name == "array_at" {
            f.dom_b = "idx";
        }
        if f.name.starts_with("call_") {
            let n = &f.ta;
            f.prelude.push_str(&format!(
                "#[inline(never)] fn hp(x: {n}, y: {n}) -> {n} {{ if x < y {{ x }} else {{ y / 2 + x / 2 }} }}\nfn rec(x: {n}, n: u8) -> {n} {{ if n == 0 {{ x }} else {{ rec(x / 2 + 1, n - 1) }} }}\n"
            ));
        }
    }
    v
}

fn instances(f: &Form, tier: Tier, exhaustive: bool) -> Vec<Inst> {
    let da = domain(&f.ta, tier, exhaustive);
    let mut insts = vec![];
    if f.unary {
        for a in &da {
            insts.push(Inst { a: a.clone(), b: BigInt::from(1) });
        }
    } else {
        let db = domain(if f.dom_b.is_empty() { &f.tb } else { f.dom_b }, tier, exhaustive);
        for a in &da {
            for b in &db {
                insts.push(Inst { a: a.clone(), b: b.clone() });
            }
        }
    }
    insts
}

fn run_all(ctx: &mut Ctx) {
    let tier = ctx.tier;
    // (modules of up to 600 functions: a database is replaced every 40 compilations to bound its memory)
    let mut dbs = Dbs::default();
    dbs.recycle_after = 40;
    let types: Vec<&Ty> = match tier {
        Tier::Quick => TYPES.iter().filter(|t| ["u8", "i8", "u32", "u128", "i128"].contains(&t.name)).collect(),
        Tier::Thorough => TYPES.iter().collect(),
    };
    for t in &types {
        for op in OPS {
            if (op.unsigned_only && t.signed) || (op.signed_only && !t.signed) {
                continue;
            }
            let f = Form::of_op(op, t);
            let shapes: &[&str] = if tier == Tier::Thorough || ["add", "div", "mixed", "andand", "neg"].contains(&op.name) { SHAPES } else { &SHAPES[..1] };
            for shape in shapes {
                let exhaustive = tier == Tier::Thorough && t.bits == 8 && *shape == "direct" && ["add", "sub", "mul", "div", "rem", "neg"].contains(&op.name);
                let insts = instances(&f, tier, exhaustive);
                for (bi, batch) in insts.chunks(120).enumerate() {
                    ctx.case(
                        || json!({"space":"const-vs-runtime","type":t.name,"op":op.name,"shape":shape,"batch":bi}),
                        |ctx| {
                            ctx.count("batches", 1);
                            check_batch(ctx, &mut dbs, &f, shape, batch, exhaustive)
                        },
                    );
                }
            }
        }
    }
    // quick: the folder forms over u8, i8 and u128 (the const-evaluator forms above keep all five types)
    let folder_types: Vec<&Ty> = if tier == Tier::Quick { types.iter().copied().filter(|t| ["u8", "i8", "u128"].contains(&t.name)).collect() } else { types.clone() };
    for f in folder_forms(&folder_types, tier) {
        let exhaustive = tier == Tier::Thorough
            && ty(&f.ta).is_some_and(|t| t.bits == 8)
            && (f.unary || ["overflowing_add", "overflowing_sub", "wrapping_mul", "saturating_sub", "checked_add"].contains(&f.name.as_str()));
        let insts = instances(&f, tier, exhaustive);
        for (bi, batch) in insts.chunks(120).enumerate() {
            ctx.case(
                || json!({"space":"folder","type":f.ta,"type_b":f.tb,"op":f.name,"batch":bi}),
                |ctx| {
                    ctx.count("folder_batches", 1);
                    check_batch(ctx, &mut dbs, &f, "direct", batch, exhaustive)
                },
            );
        }
    }
}

fn small_boundary(t: &Ty) -> Vec<BigInt> {
    let mut v = vec![t.min(), t.min() + 1, BigInt::from(-1), BigInt::from(0), BigInt::from(1), BigInt::from(2), BigInt::from(3), t.max() - 1, t.max()];
    v.retain(|x| t.fits(x));
    v.sort();
    v.dedup();
    v
}

pub static C07: CheckDef = CheckDef {
    id: "C07",
    level: "exploration",
    rule: "Const-evaluable expression alphabet over integer types (quick: u8,i8,u32,u128,i128; thorough: all ten): + - * / % & | ^ unary- < <= == != , a mixed expression, short-circuit && / || with a dividing right operand, into felt252; each reaching the evaluator through 6 shapes (direct const, via const struct member, via const fn, via nested const fn, via match on a tuple, via a block with lets), consts referring to consts. Operands: the full cross product of {MIN,MIN+1,-1,0,1,2,3,MAX-1,MAX} (8-bit types and thorough: the C06 boundary sets incl. +-2^k+-1, and ALL 65 536 pairs for 8-bit + - * / % neg). For each instance three twins in one crate: `const C: R = e[A,B]; fn k()->R{C}`, `fn fold()->R{ let a=A; let b=B; e[a,b] }` compiled with const folding on AND with skip_const_folding, `fn rt(a,b)->R{ e[a,b] }` run with the same operands. Oracle: the const item carries an evaluation-failure diagnostic (E2128/E2130/E2131/E2008) iff rt panics; otherwise k() == rt(A,B); both fold twins == rt (value or panic data). E2127 (unsupported in const context) is counted, not judged. For shape `direct` two more twins with only the left / only the right operand literal (identity and absorbing-element rewrites of the folder), and rt is also run in the build without folding. (b) Folder forms (no const item; quick: over u8, i8, u128): checked_/wrapping_/overflowing_/saturating_ add sub mul, wide_mul, try_into between every ordered pair of the integer types and from felt252, NonZero conversion, is_zero, felt252 + - * felt252_div == 0 match, u256 + - *, bounded_int add/sub/mul (u8 x i8), div_rem, trim_min/trim_max/constrain<0>, arrays built from the operands (len, at with an opaque index in {0,1,2,3,MAX}, span pop_front/pop_back to exhaustion, empty array pop/get/len), known Option / struct / Box / Nullable / snapshot, match on the value, equality chains, panic_with_felt252, panic! with 3-, 31-, 70-byte messages, assert! with formatted arguments, calls of a never-inlined and of a recursive helper with literal arguments, storage_base_address_from_felt252 (felt252 domain incl. the address bound 2^251-256 +-1); thorough: ALL 256 / 65 536 operands for the unary forms and overflowing_add/sub, wrapping_mul, saturating_sub, checked_add on 8-bit types. Same twins and oracle; a module that compiles with skip_const_folding but not with folding is a violation. distinct_nontrivial = distinct (type, op, shape, operands).",
    assumptions: &["diagnostics are attributed to const items by line number in the generated module", "rt runs under the default configuration with ample gas"],
    run: run_all,
    stack_mb: 16,
    item_timeout_s: 300,
    wall_cap_s: (55, 3000),
    shards: 0,
};
