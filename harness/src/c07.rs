//! C07 — compile-time evaluation (const items, const fns, constant folding) agrees with run-time evaluation.

use std::collections::{BTreeMap, BTreeSet};

use cairo_lang_runner::{Arg, RunResultValue};
use num_bigint::BigInt;
use serde_json::json;

use crate::c06::{TYPES, Ty, to_felt};
use crate::core::{CheckDef, Ctx, Tier, guarded};
use crate::exec::{Dbs, value_json};
use crate::pipe::*;

struct COp {
    name: &'static str,
    /// expression over `$a` and `$b`
    expr: &'static str,
    /// result type: "T" (operand type), "bool", or a concrete type name
    ret: &'static str,
    unary: bool,
    unsigned_only: bool,
    signed_only: bool,
}

const OPS: &[COp] = &[
    COp { name: "add", expr: "$a + $b", ret: "T", unary: false, unsigned_only: false, signed_only: false },
    COp { name: "sub", expr: "$a - $b", ret: "T", unary: false, unsigned_only: false, signed_only: false },
    COp { name: "mul", expr: "$a * $b", ret: "T", unary: false, unsigned_only: false, signed_only: false },
    COp { name: "div", expr: "$a / $b", ret: "T", unary: false, unsigned_only: false, signed_only: false },
    COp { name: "rem", expr: "$a % $b", ret: "T", unary: false, unsigned_only: false, signed_only: false },
    COp { name: "and", expr: "$a & $b", ret: "T", unary: false, unsigned_only: true, signed_only: false },
    COp { name: "or", expr: "$a | $b", ret: "T", unary: false, unsigned_only: true, signed_only: false },
    COp { name: "xor", expr: "$a ^ $b", ret: "T", unary: false, unsigned_only: true, signed_only: false },
    COp { name: "neg", expr: "-$a", ret: "T", unary: true, unsigned_only: false, signed_only: true },
    COp { name: "lt", expr: "$a < $b", ret: "bool", unary: false, unsigned_only: false, signed_only: false },
    COp { name: "le", expr: "$a <= $b", ret: "bool", unary: false, unsigned_only: false, signed_only: false },
    COp { name: "eq", expr: "$a == $b", ret: "bool", unary: false, unsigned_only: false, signed_only: false },
    COp { name: "ne", expr: "$a != $b", ret: "bool", unary: false, unsigned_only: false, signed_only: false },
    COp { name: "mixed", expr: "($a + $b) * $a - $b / $a", ret: "T", unary: false, unsigned_only: false, signed_only: false },
    COp { name: "andand", expr: "($a < $b) && ($b / $a == $a)", ret: "bool", unary: false, unsigned_only: false, signed_only: false },
    COp { name: "oror", expr: "($a == $b) || ($a % $b == $b)", ret: "bool", unary: false, unsigned_only: false, signed_only: false },
    COp { name: "to_felt", expr: "$a.into()", ret: "felt252", unary: true, unsigned_only: false, signed_only: false },
];

/// Ways an expression reaches the const evaluator.
const SHAPES: &[&str] = &["direct", "via-struct", "via-const-fn", "via-const-fn2", "via-match-tuple", "via-block"];

struct Inst {
    a: BigInt,
    b: BigInt,
}

fn expr(op: &COp, a: &str, b: &str) -> String {
    op.expr.replace("$a", a).replace("$b", b)
}

/// Module text for one batch. Returns (text, line number of each C const).
fn module(t: &str, r: &str, op: &COp, shape: &str, insts: &[Inst], skip_consts: &BTreeSet<usize>) -> (String, Vec<usize>) {
    let mut s = String::new();
    let mut lines = vec![];
    let mut line = 1usize;
    let mut push = |s: &mut String, l: String| {
        s.push_str(&l);
        s.push('\n');
        line += 1;
        line - 1
    };
    push(&mut s, format!("#[derive(Copy, Drop)] struct P {{ x: {t}, y: {t} }}"));
    push(&mut s, format!("const fn g(a: {t}, b: {t}) -> {r} {{ {} }}", expr(op, "a", "b")));
    push(&mut s, format!("const fn h(a: {t}, b: {t}) -> {r} {{ g(a, b) }}"));
    push(&mut s, format!("fn rt(a: {t}, b: {t}) -> {r} {{ {} }}", expr(op, "a", "b")));
    for (k, i) in insts.iter().enumerate() {
        push(&mut s, format!("const A{k}: {t} = {};", i.a));
        push(&mut s, format!("const B{k}: {t} = {};", i.b));
        let c = match shape {
            "direct" => expr(op, &format!("A{k}"), &format!("B{k}")),
            "via-struct" => {
                push(&mut s, format!("const S{k}: P = P {{ x: A{k}, y: B{k} }};"));
                expr(op, &format!("S{k}.x"), &format!("S{k}.y"))
            }
            "via-const-fn" => format!("g(A{k}, B{k})"),
            "via-const-fn2" => format!("h(A{k}, B{k})"),
            "via-match-tuple" => format!("match (A{k}, B{k}) {{ (p, q) => {} }}", expr(op, "p", "q")),
            _ => format!("{{ let p = A{k}; let q = B{k}; {} }}", expr(op, "p", "q")),
        };
        if skip_consts.contains(&k) {
            lines.push(0);
        } else {
            let l = push(&mut s, format!("const C{k}: {r} = {c};"));
            lines.push(l);
            push(&mut s, format!("fn k{k}() -> {r} {{ C{k} }}"));
        }
        push(&mut s, format!("fn fold{k}() -> {r} {{ let a: {t} = {}; let b: {t} = {}; {} }}", i.a, i.b, expr(op, "a", "b")));
    }
    (s, lines)
}

/// Parses `error[CODE]` blocks: (code, line).
fn parse_errors(diag: &str) -> Vec<(String, usize)> {
    let mut out = vec![];
    let mut cur: Option<String> = None;
    for l in diag.lines() {
        if let Some(rest) = l.strip_prefix("error") {
            let code = rest.strip_prefix('[').and_then(|r| r.split(']').next()).unwrap_or("").to_string();
            cur = Some(code);
        } else if l.trim_start().starts_with("-->") {
            if let Some(code) = cur.take() {
                let loc = l.rsplit("lib.cairo:").next().unwrap_or("");
                let line: usize = loc.split(':').next().and_then(|x| x.parse().ok()).unwrap_or(0);
                out.push((code, line));
            }
        }
    }
    out
}

fn run_fn(c: &Compiled, name: &str, args: &[BigInt]) -> Option<RunResultValue> {
    let f = c.program.funcs.iter().find(|f| fname(f) == format!("test::{name}"))?;
    let a: Vec<Arg> = args.iter().map(|v| Arg::Value(to_felt(v))).collect();
    match run(c, f, &a, Some(100_000_000)).0 {
        Outcome::Value(v, _) => Some(v),
        _ => None,
    }
}

fn check_batch(ctx: &mut Ctx, dbs: &mut Dbs, t: &Ty, op: &COp, shape: &str, insts: &[Inst]) {
    let r = if op.ret == "T" { t.name } else { op.ret };
    let cfg = Cfg::DEFAULT;
    let nofold = Cfg { skip_const_folding: true, ..Cfg::DEFAULT };
    let case = |k: usize, what: &str| json!({"type": t.name, "op": op.name, "shape": shape, "a": insts[k].a.to_string(), "b": insts[k].b.to_string(), "expr": expr(op, "A", "B"), "what": what});
    // pass 1: all consts; collect which fail and how
    let (text, lines) = module(t.name, r, op, shape, insts, &BTreeSet::new());
    let diag = match dbs.compile(&cfg, &text) {
        Ok(_) => String::new(),
        Err(d) => d,
    };
    // diagnostics() truncates in Dbs::compile; recompute full text only when needed
    let full_diag = if diag.is_empty() { String::new() } else { dbs.full_diagnostics(&cfg, &text) };
    let errs = parse_errors(&full_diag);
    let mut failed: BTreeMap<usize, String> = BTreeMap::new();
    for (code, line) in &errs {
        match lines.iter().position(|l| *l == *line && *l != 0) {
            Some(k) => {
                failed.entry(k).or_insert(code.clone());
            }
            None => {
                // an error that is not on a C-const line: the generated program itself is ill-formed
                ctx.count("batches_with_foreign_diagnostics", 1);
                ctx.note(format!("{}::{} {shape}: error {code} on line {line} (not a generated const)", t.name, op.name));
                return;
            }
        }
    }
    // pass 2: without the failing consts; must compile
    let skip: BTreeSet<usize> = failed.keys().copied().collect();
    let (text2, _) = module(t.name, r, op, shape, insts, &skip);
    let prog = match dbs.compile(&cfg, &text2) {
        Ok(p) => p,
        Err(e) => {
            ctx.count("batches_not_compiling_after_removal", 1);
            ctx.note(format!("{}::{} {shape}: {}", t.name, op.name, e.chars().take(200).collect::<String>()));
            return;
        }
    };
    let Ok(c) = make_runner(prog, &cfg) else { return };
    let c_nofold = dbs.compile(&nofold, &text2).ok().and_then(|p| make_runner(p, &nofold).ok());
    for (k, i) in insts.iter().enumerate() {
        if !ctx.sub(|| case(k, "instance")) {
            continue;
        }
        ctx.count("evaluations", 1);
        ctx.distinct(&(t.name, op.name, shape, i.a.to_string(), i.b.to_string()));
        let Some(rt) = guarded(|| run_fn(&c, "rt", &[i.a.clone(), i.b.clone()])).ok().flatten() else {
            ctx.count("rt_run_failed", 1);
            continue;
        };
        let rt_panics = matches!(rt, RunResultValue::Panic(_));
        match failed.get(&k) {
            Some(code) if code == "E2127" => {
                ctx.count("unsupported_constant_not_judged", 1);
            }
            Some(code) => {
                ctx.outcome("const-eval-fails");
                if !["E2128", "E2130", "E2131", "E2008"].contains(&code.as_str()) {
                    ctx.violation(format!("unexpected-diagnostic:{code}"), format!("const item gets diagnostic {code}, which is not an evaluation failure"), case(k, "diagnostic"));
                } else if !rt_panics {
                    ctx.violation(
                        format!("compile-time-failure-but-runtime-value:{}", op.name),
                        format!("the const item fails to evaluate ({code}) but the same expression evaluates to {} at run time", value_json(&rt)),
                        case(k, "const-vs-runtime"),
                    );
                }
            }
            None => {
                ctx.outcome("const-eval-value");
                match guarded(|| run_fn(&c, &format!("k{k}"), &[])).ok().flatten() {
                    None => ctx.count("k_run_failed", 1),
                    Some(kv) => {
                        if rt_panics {
                            ctx.violation(
                                format!("compile-time-value-but-runtime-panic:{}", op.name),
                                format!("the const item silently evaluates to {} but the same expression panics at run time with {}", value_json(&kv), value_json(&rt)),
                                case(k, "const-vs-runtime"),
                            );
                        } else if kv != rt {
                            ctx.violation(format!("const-value-differs:{}", op.name), format!("const = {} but run time = {}", value_json(&kv), value_json(&rt)), case(k, "const-vs-runtime"));
                        }
                    }
                }
            }
        }
        // folded twin, with and without const folding
        for (label, cc) in [("folded", Some(&c)), ("not-folded", c_nofold.as_ref())] {
            let Some(cc) = cc else { continue };
            match guarded(|| run_fn(cc, &format!("fold{k}"), &[])).ok().flatten() {
                None => ctx.count("fold_run_failed", 1),
                Some(fv) => {
                    ctx.count("fold_comparisons", 1);
                    if fv != rt {
                        ctx.violation(format!("folded-twin-differs:{label}:{}", op.name), format!("literal-operand function ({label}) = {} but opaque-argument function = {}", value_json(&fv), value_json(&rt)), case(k, "fold-vs-runtime"));
                    }
                }
            }
        }
    }
    if !insts.is_empty() {
        ctx.sample(|| json!({"type": t.name, "op": op.name, "shape": shape, "first_instance": case(0, "sample"), "consts_failing": failed.len(), "instances": insts.len()}));
    }
}

fn run_all(ctx: &mut Ctx) {
    let tier = ctx.tier;
    let mut dbs = Dbs::default();
    let types: Vec<&Ty> = match tier {
        Tier::Quick => TYPES.iter().filter(|t| ["u8", "i8", "u32", "u128", "i128"].contains(&t.name)).collect(),
        Tier::Thorough => TYPES.iter().collect(),
    };
    for t in types {
        for op in OPS {
            if (op.unsigned_only && t.signed) || (op.signed_only && !t.signed) {
                continue;
            }
            let shapes: &[&str] = if tier == Tier::Thorough || ["add", "div", "mixed", "andand", "neg"].contains(&op.name) { SHAPES } else { &SHAPES[..1] };
            for shape in shapes {
                let exhaustive = tier == Tier::Thorough && t.bits == 8 && *shape == "direct" && ["add", "sub", "mul", "div", "rem", "neg"].contains(&op.name);
                let dom: Vec<BigInt> = if exhaustive { t.all() } else if tier == Tier::Quick && t.bits > 8 { small_boundary(t) } else { t.boundary() };
                let mut insts = vec![];
                if op.unary {
                    for a in &dom {
                        insts.push(Inst { a: a.clone(), b: BigInt::from(1) });
                    }
                } else {
                    for a in &dom {
                        for b in &dom {
                            insts.push(Inst { a: a.clone(), b: b.clone() });
                        }
                    }
                }
                for (bi, batch) in insts.chunks(120).enumerate() {
                    ctx.case(
                        || json!({"space":"const-vs-runtime","type":t.name,"op":op.name,"shape":shape,"batch":bi}),
                        |ctx| {
                            ctx.count("batches", 1);
                            check_batch(ctx, &mut dbs, t, op, shape, batch)
                        },
                    );
                }
            }
        }
    }
}

fn small_boundary(t: &Ty) -> Vec<BigInt> {
    let mut v = vec![t.min(), t.min() + 1, BigInt::from(-1), BigInt::from(0), BigInt::from(1), BigInt::from(2), BigInt::from(3), t.max() - 1, t.max()];
    v.retain(|x| t.fits(x));
    v.sort();
    v.dedup();
    v
}

pub static C07: CheckDef = CheckDef {
    id: "C07",
    level: "exploration",
    rule: "Const-evaluable expression alphabet over integer types (quick: u8,i8,u32,u128,i128; thorough: all ten): + - * / % & | ^ unary- < <= == != , a mixed expression, short-circuit && / || with a dividing right operand, into felt252; each reaching the evaluator through 6 shapes (direct const, via const struct member, via const fn, via nested const fn, via match on a tuple, via a block with lets), consts referring to consts. Operands: the full cross product of {MIN,MIN+1,-1,0,1,2,3,MAX-1,MAX} (8-bit types and thorough: the C06 boundary sets incl. +-2^k+-1, and ALL 65 536 pairs for 8-bit + - * / % neg). For each instance three twins in one crate: `const C: R = e[A,B]; fn k()->R{C}`, `fn fold()->R{ let a=A; let b=B; e[a,b] }` compiled with const folding on AND with skip_const_folding, `fn rt(a,b)->R{ e[a,b] }` run with the same operands. Oracle: the const item carries an evaluation-failure diagnostic (E2128/E2130/E2131/E2008) iff rt panics; otherwise k() == rt(A,B); both fold twins == rt (value or panic data). E2127 (unsupported in const context) is counted, not judged. distinct_nontrivial = distinct (type, op, shape, operands).",
    assumptions: &["diagnostics are attributed to const items by line number in the generated module", "rt runs under the default configuration with ample gas"],
    run: run_all,
    stack_mb: 16,
    item_timeout_s: 300,
    wall_cap_s: (55, 1500),
    shards: 0,
};
