//! C08 — error-free programs always compile (every configuration); ownership violations are always rejected.

use cairo_lang_sierra_to_casm::compiler::{SierraToCasmConfig, compile};
use cairo_lang_sierra_to_casm::metadata::calc_metadata;
use cairo_lang_sierra_type_size::ProgramRegistryInfo;
use serde_json::json;

use crate::core::{CheckDef, Ctx, Tier, guarded, panic_sig};
use crate::exec::{Dbs, snippets};
use crate::mini::pprog;
use crate::pipe::*;

/// (i) diagnostics error-free => Sierra, registry, metadata, CASM all succeed.
fn check_compiles(ctx: &mut Ctx, dbs: &mut Dbs, name: &str, src: &str, cfg: &Cfg, must_be_error_free: bool) {
    let case = || json!({"program": name, "cfg": cfg.name(), "source": src});
    if !ctx.sub(case) {
        return;
    }
    ctx.count("evaluations", 1);
    let r = guarded(|| dbs.compile(cfg, src));
    let prog = match r {
        Err((loc, msg)) => {
            dbs.forget(cfg);
            ctx.violation(panic_sig(&loc, &msg), format!("compiler panicked (ICE) at {loc}: {msg}"), case());
            return;
        }
        Ok(Err(e)) if e.starts_with("diagnostics:") => {
            if must_be_error_free {
                ctx.violation("well-typed-program-rejected", format!("a program that is well-typed by construction gets error diagnostics under {}: {}", cfg.name(), e.chars().take(300).collect::<String>()), case());
            } else {
                ctx.outcome("has-error-diagnostics");
            }
            return;
        }
        Ok(Err(e)) => {
            ctx.violation("no-errors-but-no-sierra", format!("no error diagnostics, but Sierra generation fails: {e}"), case());
            return;
        }
        Ok(Ok(p)) => p,
    };
    let r = guarded(|| {
        let info = ProgramRegistryInfo::new(&prog).map_err(|e| format!("Sierra validation (ProgramRegistry): {e}"))?;
        let md = calc_metadata(&prog, &info, Default::default()).map_err(|e| format!("metadata: {e}"))?;
        compile(&prog, &info, &md, SierraToCasmConfig { gas_usage_check: true, max_bytecode_size: usize::MAX }).map_err(|e| format!("sierra-to-casm: {e}"))?;
        Ok::<(), String>(())
    });
    match r {
        Err((loc, msg)) => ctx.violation(panic_sig(&loc, &msg), format!("back end panicked at {loc}: {msg}"), case()),
        Ok(Err(e)) => {
            let stage = e.split(':').next().unwrap_or("").to_string();
            ctx.violation(format!("error-free-program-fails-in-back-end:{stage}"), format!("diagnostics are error-free but {e}"), case())
        }
        Ok(Ok(())) => ctx.outcome("compiles"),
    }
}

/// (ii) an ill-formed program must get at least one error diagnostic (under the default configuration and
/// with optimisations disabled — the borrow checker runs before optimisation).
fn check_rejected(ctx: &mut Ctx, dbs: &mut Dbs, name: &str, src: &str, legal: bool) {
    for cfg in [Cfg::DEFAULT, Cfg::BASELINE] {
        let case = || json!({"program": name, "cfg": cfg.name(), "source": src, "expected": if legal { "accepted (control)" } else { "rejected" }});
        if !ctx.sub(case) {
            continue;
        }
        ctx.count("evaluations", 1);
        ctx.distinct(&(name, cfg.name()));
        let r = guarded(|| dbs.compile(&cfg, src));
        match r {
            Err((loc, msg)) => {
                dbs.forget(&cfg);
                ctx.violation(panic_sig(&loc, &msg), format!("compiler panicked at {loc}: {msg}"), case());
            }
            Ok(Ok(_)) => {
                if legal {
                    ctx.outcome("control-accepted");
                } else {
                    let kind = name.split(':').next().unwrap_or("").to_string();
                    ctx.violation(format!("ownership-violation-accepted:{kind}"), "a program that uses a moved value / lets a non-droppable value go out of scope compiles without an error", case());
                }
            }
            Ok(Err(e)) => {
                if legal {
                    ctx.violation("harness:control-rejected", format!("the legal control variant is rejected: {}", e.chars().take(300).collect::<String>()), case());
                } else {
                    ctx.outcome("violation-rejected");
                }
            }
        }
    }
}

const OWN_PRELUDE: &str = "#[derive(Drop)]\nstruct N { v: Array<u8>, k: u8 }\nstruct ND { d: Felt252Dict<u8>, k: u8 }\nstruct P { x: u8 }\n#[derive(Destruct)]\nstruct DD { d: Felt252Dict<u8> }\nfn eat_arr(x: Array<u8>) -> u32 { x.len() }\nfn eat_n(x: N) -> u8 { x.k }\nfn eat_dd(x: DD) -> u8 { 1 }\nfn eat_p(x: P) -> u8 { let P { x: y } = x; y }\nfn eat_nd(x: ND) -> u8 { let ND { d, k } = x; let mut d = d; d.insert(1, k); k }\nfn mk_arr(a: u8) -> Array<u8> { array![a, 1] }\nfn mk_nd(k: u8) -> ND { ND { d: Default::default(), k } }\n";

const OWN_PRELUDE2: &str = "fn chk(a: u8) { assert(a != 9, 'nine'); }\nfn nvr() -> core::never { core::panic_with_felt252('never') }\n";

/// Every (value kind, first move, second use, position) combination: ill-formed by the language rules.
fn use_after_move_programs() -> Vec<(String, String, bool)> {
    let mut out = vec![];
    // (kind name, type, constructor, by-value consumer expression over `$x`)
    let kinds: Vec<(&str, &str, &str, &str)> = vec![
        ("array", "Array<u8>", "mk_arr(a)", "eat_arr($x)"),
        ("struct-with-array", "N", "N { v: mk_arr(a), k: a }", "eat_n($x)"),
        ("destruct-struct", "DD", "DD { d: Default::default() }", "eat_dd($x)"),
        ("non-drop-struct", "P", "P { x: a }", "eat_p($x)"),
    ];
    for (kn, ty, ctor, eat) in &kinds {
        let eat = |v: &str| eat.replace("$x", v);
        // ways of moving x the first time
        let first_moves: Vec<(&str, String)> = vec![
            ("call", format!("let r1 = {};", eat("x"))),
            ("let", format!("let y: {ty} = x; let r1 = {};", eat("y"))),
            ("tuple", format!("let t = (x, 1_u8); let (y, _) = t; let r1 = {};", eat("y"))),
            ("branch", format!("let r1 = if c3 {{ {} }} else {{ {} }};", eat("x"), eat("x"))),
        ];
        // second uses (each is a use of a moved value)
        let second_uses: Vec<(&str, String)> = vec![("call-again", format!("let r2 = {};", eat("x"))), ("let-again", format!("let z: {ty} = x; let r2 = {};", eat("z"))), ("snapshot", "let s = @x; let _q = s; let r2 = 0;".to_string())];
        // where the second use sits
        let positions: Vec<(&str, &str, &str)> = vec![("straight", "", ""), ("in-if", "if a == 7 {", "}"), ("in-else", "if a == 7 { } else {", "}"), ("in-match", "match a % 2 { 0 => {", "}, _ => {} }")];
        for (mn, mv) in &first_moves {
            for (un, us) in &second_uses {
                for (pn, open, close) in &positions {
                    let us_body = if open.is_empty() { us.clone() } else { format!("{open} {} {close}", us.replace("let r2 =", "let _r2 =")) };
                    let tail = if open.is_empty() { "let _u = r2;" } else { "" };
                    let src = format!("{OWN_PRELUDE}fn f(a: u8) -> u8 {{ let c3 = a == 3; let x: {ty} = {ctor}; {mv} {us_body} {tail} let _k = r1; a }}\n");
                    out.push((format!("use-after-move:{kn}:{mn}:{un}:{pn}"), src, false));
                }
            }
            // control: only the first move
            let src = format!("{OWN_PRELUDE}fn f(a: u8) -> u8 {{ let c3 = a == 3; let x: {ty} = {ctor}; {mv} let _k = r1; a }}\n");
            out.push((format!("control-single-move:{kn}:{mn}"), src, true));
        }
        // moved inside a loop body (second iteration uses a moved value)
        for (ln, lp) in [("while", "let mut i = 0_u8; while i != 2 { i += 1; $B }"), ("loop", "let mut i = 0_u8; loop { if i == 2 { break; } i += 1; $B }"), ("for", "for _j in 0..2_u32 { $B }")] {
            let src = format!("{OWN_PRELUDE}fn f(a: u8) -> u8 {{ let x: {ty} = {ctor}; {} a }}\n", lp.replace("$B", &format!("let _r = {};", eat("x"))));
            out.push((format!("use-after-move:{kn}:moved-in-{ln}-body"), src, false));
        }
    }
    out
}

/// Use after move through the constructs whose move / capture semantics have their own lowering: each offending
/// program (`use-after-move:construct:*`) must be rejected, each control (the same without the second use, or a
/// use the language allows) must compile.
fn move_construct_programs() -> Vec<(String, String, bool)> {
    const P: &str = "#[derive(Drop)]\nstruct W { a: Array<u8>, k: u8 }\nfn mk(a: u8) -> Array<u8> { array![a, 1] }\nfn eat(x: Array<u8>) -> u32 { x.len() }\nfn eat_w(w: W) -> u8 { w.k }\nfn wrap(x: Array<u8>) -> Option<Array<u8>> { Some(x) }\nfn two(ref a: Array<u8>, ref b: Array<u8>) { a.append(1); b.append(2); }\nfn val_and_ref(a: Array<u8>, ref b: Array<u8>) -> u32 { b.append(3); a.len() }\n";
    // (name, body of `fn f(a: u8) -> u32`, legal)
    let cases: Vec<(&str, &str, bool)> = vec![
        ("closure-capture", "let x = mk(a); let c = || eat(x); let r = c(); r + eat(x)", false),
        ("closure-capture:control", "let x = mk(a); let c = || eat(x); c()", true),
        ("match-arm-binding", "let o = wrap(mk(a)); let r = match o { Some(y) => eat(y), None => 0 }; r + match o { Some(z) => eat(z), None => 1 }", false),
        ("match-arm-binding:control", "let o = wrap(mk(a)); match o { Some(y) => eat(y), None => 0 }", true),
        ("for-header", "let x = mk(a); let mut t = 0_u32; for v in x { t += v.into(); } t + eat(x)", false),
        ("for-header:control", "let x = mk(a); let mut t = 0_u32; for v in x { t += v.into(); } t", true),
        ("member-then-whole", "let s = W { a: mk(a), k: a }; let r = eat(s.a); r + eat_w(s).into()", false),
        ("member-then-other-member:control", "let s = W { a: mk(a), k: a }; let r = eat(s.a); r + s.k.into()", true),
        ("and-first-operand", "let x = mk(a); let c = eat(x) == 2 && a == 1; if c { eat(x) } else { 0 }", false),
        ("and-second-operand", "let x = mk(a); let c = a == 1 && eat(x) == 2; if c { 1 } else { eat(x) }", false),
        ("and-second-operand:control", "let x = mk(a); let c = a == 1 && eat(x) == 2; if c { 1 } else { 0 }", true),
        ("let-else", "let x = mk(a); let Some(y) = wrap(x) else { return 0; }; eat(y) + eat(x)", false),
        ("let-else:control", "let x = mk(a); let Some(y) = wrap(x) else { return 0; }; eat(y)", true),
        ("ref-twice", "let mut x = mk(a); two(ref x, ref x); eat(x)", false),
        ("ref-twice:control", "let mut x = mk(a); let mut y = mk(a); two(ref x, ref y); eat(x) + eat(y)", true),
        ("value-and-ref", "let mut x = mk(a); val_and_ref(x, ref x)", false),
        ("continue-path", "let x = mk(a); let mut i = 0_u8; let mut t = 0_u32; loop { if i == 2 { break; } i += 1; if i == 1 { t += eat(x); continue; } }; t", false),
        ("continue-path:control", "let x = mk(a); let mut i = 0_u8; let mut t = 0_u32; loop { if i == 2 { break; } i += 1; if i == 1 { continue; } }; t + eat(x)", true),
        ("tuple-pattern", "let x = mk(a); let (p, _q) = (x, 1_u8); eat(p) + eat(x)", false),
        ("tuple-twice", "let x = mk(a); let t = (eat(x), eat(x)); let (p, q) = t; p + q", false),
        ("array-literal-twice", "let x = mk(a); let v = array![x, x]; v.len()", false),
        ("destructure-then-whole", "let w = W { a: mk(a), k: a }; let W { a: arr, k: _ } = w; eat(arr) + eat_w(w).into()", false),
        ("snapshot-survives-move:control", "let x = mk(a); let s = @x; let r = eat(x); r + s.len()", true),
        ("moved-in-inner-block", "let x = mk(a); let r = { let y = x; eat(y) }; r + eat(x)", false),
        ("moved-by-method-chain", "let x = mk(a); let sp = x.span(); let r = eat(x); r + sp.len()", true),
        ("option-unwrap-twice", "let o = wrap(mk(a)); eat(o.unwrap()) + eat(o.unwrap())", false),
    ];
    let mut out = vec![];
    for (n, body, legal) in cases {
        out.push((format!("{}:construct:{n}", if legal { "control-move" } else { "use-after-move" }), format!("{P}fn f(a: u8) -> u32 {{ {body} }}\n"), legal));
    }
    out.push(("use-after-move:construct:generic-without-copy".into(), "fn dup<T, +Drop<T>>(t: T) -> (T, T) { (t, t) }\nfn f(a: u8) -> u8 { let (p, _q) = dup(a); p }\n".into(), false));
    out.push(("control-move:construct:generic-with-copy".into(), "fn dup<T, +Drop<T>, +Copy<T>>(t: T) -> (T, T) { (t, t) }\nfn f(a: u8) -> u8 { let (p, _q) = dup(a); p }\n".into(), true));
    // handwritten Copy / Drop impls: the impl itself must be rejected when a member is not Copy / Drop for some
    // instantiation and no bound says otherwise (otherwise every later use after move goes undiagnosed)
    let impls: Vec<(&str, &str, bool)> = vec![
        ("generic-copy-impl-array-member", "#[derive(Drop)]\nstruct Wr<T> { inner: Array<T> }\nimpl WrCopy<T> of Copy<Wr<T>>;\n#[inline(never)]\nfn consume(w: Wr<felt252>) -> u32 { w.inner.len() }\nfn f(a: u8) -> u32 { let w = Wr { inner: array![a.into()] }; consume(w) + consume(w) }\n", false),
        ("generic-copy-impl-param-member", "#[derive(Drop)]\nstruct Wr<T> { inner: T }\nimpl WrCopy<T> of Copy<Wr<T>>;\n#[inline(never)]\nfn consume(w: Wr<Array<u8>>) -> u32 { w.inner.len() }\nfn f(a: u8) -> u32 { let w = Wr { inner: array![a] }; consume(w) + consume(w) }\n", false),
        ("generic-copy-impl-enum", "#[derive(Drop)]\nenum En<T> { A: Array<T>, B }\nimpl EnCopy<T> of Copy<En<T>>;\n#[inline(never)]\nfn consume(e: En<u8>) -> u32 { match e { En::A(v) => v.len(), En::B => 0 } }\nfn f(a: u8) -> u32 { let e = En::A(array![a]); consume(e) + consume(e) }\n", false),
        ("generic-copy-impl-tuple-member", "#[derive(Drop)]\nstruct Wr<T> { inner: (u8, T) }\nimpl WrCopy<T> of Copy<Wr<T>>;\nfn f(a: u8) -> u8 { let w = Wr { inner: (a, array![a]) }; let v = w; let (x, _) = w.inner; let (y, _) = v.inner; x / 2 + y / 2 }\n", false),
        ("generic-drop-impl-param-member", "struct NoDrop { v: u8 }\nstruct Wr<T> { inner: T }\nimpl WrDrop<T> of Drop<Wr<T>>;\nfn f(a: u8) -> u8 { let _w = Wr { inner: NoDrop { v: a } }; a }\n", false),
        ("generic-copy-impl-with-bound:control", "#[derive(Drop)]\nstruct Wr<T> { inner: T }\nimpl WrCopy<T, +Copy<T>> of Copy<Wr<T>>;\n#[inline(never)]\nfn consume(w: Wr<u8>) -> u8 { w.inner }\nfn f(a: u8) -> u8 { let w = Wr { inner: a }; consume(w) / 2 + consume(w) / 2 }\n", true),
        ("generic-drop-impl-with-bound:control", "struct Wr<T> { inner: T }\nimpl WrDrop<T, +Drop<T>> of Drop<Wr<T>>;\nfn f(a: u8) -> u8 { let _w = Wr { inner: array![a] }; a }\n", true),
        ("concrete-copy-impl-array-member", "#[derive(Drop)]\nstruct Wr { inner: Array<u8> }\nimpl WrCopy of Copy<Wr>;\nfn f(a: u8) -> u32 { let w = Wr { inner: array![a] }; let v = w; w.inner.len() + v.inner.len() }\n", false),
    ];
    for (n, src, legal) in impls {
        out.push((format!("{}:construct:{n}", if legal { "control-move" } else { "use-after-move" }), src.to_string(), legal));
    }
    out.push(("use-after-move:construct:derive-copy-on-non-copy-member".into(), "#[derive(Copy, Drop)]\nstruct Bad { a: Array<u8> }\nfn f(a: u8) -> u32 { let b = Bad { a: array![a] }; let c = b; b.a.len() + c.a.len() }\n".into(), false));
    out
}

/// Values of non-droppable, non-destructible types going out of scope.
fn missing_drop_programs() -> Vec<(String, String, bool)> {
    let mut out = vec![];
    let kinds: Vec<(&str, &str, &str, &str)> = vec![
        // (kind, type, constructor, consumer)
        ("dict-in-plain-struct", "ND", "mk_nd(a)", "eat_nd($x)"),
        ("struct-without-drop", "P", "P { x: a }", "eat_p($x)"),
    ];
    for (kn, ty, ctor, eat) in &kinds {
        let eat = |v: &str| eat.replace("$x", v);
        let scenarios: Vec<(&str, String, bool)> = vec![
            ("never-consumed", format!("let x: {ty} = {ctor}; a"), false),
            ("consumed", format!("let x: {ty} = {ctor}; let r = {}; r", eat("x")), true),
            ("consumed-in-one-branch", format!("let x: {ty} = {ctor}; if a == 1 {{ {} }} else {{ a }}", eat("x")), false),
            // (a non-droppable value may not be live across a call that can panic, so conditions are computed first)
            ("consumed-in-both-branches", format!("let c = a == 1; let x: {ty} = {ctor}; if c {{ {} }} else {{ {} + 1 }}", eat("x"), eat("x")), true),
            ("overwritten", format!("let mut x: {ty} = {ctor}; x = {ctor}; {}", eat("x")), false),
            ("early-return-leaks", format!("let x: {ty} = {ctor}; if a == 2 {{ return a; }} {}", eat("x")), false),
            ("early-return-consumes", format!("let c = a == 2; let x: {ty} = {ctor}; if c {{ return {}; }} {}", eat("x"), eat("x")), true),
            ("unused-param", "a".to_string(), false),
            ("shadowed", format!("let x: {ty} = {ctor}; let x: u8 = a; x"), false),
            ("panic-path-leaks", format!("let x: {ty} = {ctor}; assert(a != 9, 'nine'); {}", eat("x")), false),
            ("call-panic-path-leaks", format!("let x: {ty} = {ctor}; chk(a); {}", eat("x")), false),
            ("call-before-value", format!("chk(a); let x: {ty} = {ctor}; {}", eat("x")), true),
            ("two-calls-panic-path-leaks", format!("let x: {ty} = {ctor}; chk(a); chk(a); {}", eat("x")), false),
            ("in-tuple-dropped", format!("let x: {ty} = {ctor}; let t = (x, a); let (_y, z) = t; z"), false),
            ("match-arm-leaks", format!("let x: {ty} = {ctor}; match a % 2 {{ 0 => {}, _ => a }}", eat("x")), false),
        ];
        for (sn, body, legal) in scenarios {
            // each scenario with an ordinary tail and with a tail that always diverges (the demand "after" the
            // scenario is then only the panic path)
            for (tn, tail_body) in [("", body.clone()), (":panic-tail", format!("let _r: u8 = {{ {body} }}; core::panic_with_felt252('tail')")), (":never-tail", format!("let _r: u8 = {{ {body} }}; nvr()"))] {
                let src = if sn == "unused-param" { format!("{OWN_PRELUDE}{OWN_PRELUDE2}fn f(a: u8, x: {ty}) -> u8 {{ {tail_body} }}\n") } else { format!("{OWN_PRELUDE}{OWN_PRELUDE2}fn f(a: u8) -> u8 {{ {tail_body} }}\n") };
                out.push((format!("{}:{kn}:{sn}{tn}", if legal { "control-drop" } else { "missing-drop" }), src, legal));
            }
        }
    }
    // generic value without Drop bound
    out.push(("missing-drop:generic:unbounded".into(), format!("{OWN_PRELUDE}fn g<T>(x: T) -> u8 {{ 1 }}\nfn f(a: u8) -> u8 {{ g(a) }}\n"), false));
    out.push(("control-drop:generic:bounded".into(), format!("{OWN_PRELUDE}fn g<T, +Drop<T>>(x: T) -> u8 {{ 1 }}\nfn f(a: u8) -> u8 {{ g(a) }}\n"), true));
    out
}

fn run_all(ctx: &mut Ctx) {
    let tier = ctx.tier;
    let mut dbs = Dbs::default();
    let cfgs: Vec<Cfg> = match tier {
        Tier::Quick => Cfg::corners().into_iter().filter(|c| c.linear).collect(),
        Tier::Thorough => Cfg::full().into_iter().filter(|c| c.linear).collect(),
    };
    // Configurations are visited in chunks (chunk-major order) and the databases of a finished chunk are
    // dropped: 44 live databases cost ~3.7 GB per worker.
    let chunk_len = tier.pick(cfgs.len(), 11);
    let mut live_chunk = usize::MAX;
    // (i) MiniCairo programs (well-typed by construction) under every configuration
    let cases = crate::c01::all_cases(tier);
    let stride = tier.pick(5, 3);
    let nsnip_cfgs = tier.pick(2, cfgs.len());
    let mut snips = snippets(tier);
    // the bounded-integer lattice (downcast between ranges in every relative position, constrain, trim, add /
    // sub / mul): error-free sources that reach instantiations no corpus program uses
    snips.extend(crate::bounded::sources(tier).into_iter().map(|(name, code)| crate::exec::Snip { name, code, plain: None, sierra: None }));
    for (ci, chunk) in cfgs.chunks(chunk_len).enumerate() {
        for (k, case) in cases.iter().enumerate() {
            // quick: every fifth program of the (already exhaustive) C01 space under all corner configs; thorough: every third
            if k % stride != 0 {
                continue;
            }
            ctx.case(
                || json!({"space":"well-typed-programs","program":case.name,"cfg_chunk":ci}),
                |ctx| {
                    if live_chunk != ci {
                        dbs = Dbs::default();
                        live_chunk = ci;
                    }
                    let src = case.source();
                    ctx.distinct(&src);
                    for cfg in chunk {
                        check_compiles(ctx, &mut dbs, &case.name, &src, cfg, true);
                    }
                },
            );
        }
        // (iii) corpus snippets: error-free => compiles
        let first = ci * chunk_len;
        if first >= nsnip_cfgs {
            continue;
        }
        let snip_cfgs = &chunk[..chunk.len().min(nsnip_cfgs - first)];
        for snip in &snips {
            ctx.case(
                || json!({"space":"corpus-snippets","snippet":snip.name,"cfg_chunk":ci}),
                |ctx| {
                    if live_chunk != ci {
                        dbs = Dbs::default();
                        live_chunk = ci;
                    }
                    ctx.distinct(&snip.code);
                    for cfg in snip_cfgs {
                        check_compiles(ctx, &mut dbs, &snip.name, &snip.code, cfg, false);
                    }
                },
            );
        }
    }
    dbs = Dbs::default();
    // (ii) ownership violations and their legal controls
    let mut own = use_after_move_programs();
    own.extend(missing_drop_programs());
    own.extend(move_construct_programs());
    for chunk in own.chunks(6) {
        ctx.case(
            || json!({"space":"ownership","first":chunk[0].0}),
            |ctx| {
                for (name, src, legal) in chunk {
                    ctx.sample(|| json!({"program": name, "source": src}));
                    check_rejected(ctx, &mut dbs, name, src, *legal);
                }
            },
        );
    }
}

pub static C08: CheckDef = CheckDef {
    id: "C08",
    level: "exploration",
    rule: "(i) the C01 MiniCairo space (well-typed by construction; quick: every 5th program, thorough: every 3rd) and every corpus snippet whose diagnostics are error-free (incl. one program per instantiation of the bounded-integer lattice: downcast between 26 ranges, constrain, trim, bounded add / sub / mul), under every front-end configuration (quick: 5 corner configurations; thorough: the full 44-point product of Optimizations/inlining/const-folding/match-threshold): diagnostics error-free => get_sierra_program ok, ProgramRegistry (Sierra validation) ok, calc_metadata ok, sierra-to-casm ok, no panic anywhere. (ii) ownership injection, every combination: 4 non-copy value kinds (Array, struct with array, Destruct-only struct, struct without Drop) x 4 first moves (call, let, through a tuple, in both branches) x 3 second uses (call again, let again, snapshot) x 4 positions (straight, in if, in else, in match arm), plus moves inside while/loop/for bodies; plus 16 move constructs with their controls (closure capture, match-arm binding, `for` header, member then whole, first / second operand of `&&`, let-else, the same variable as two `ref` arguments or as value and `ref`, a `continue` path, tuple and struct patterns, array literal, inner block, generic without Copy, `#[derive(Copy)]` over a non-Copy member, handwritten generic Copy / Drop impls whose members are not Copy / Drop for some instantiation (struct, enum, tuple member, parameter member) with bounded controls; a snapshot taken before the move stays usable); missing drop: 2 non-droppable kinds x 15 scenarios (never consumed, one branch only, overwritten, leaked by early return, unused parameter, shadowed, leaked on the panic path of an inline assert / of one / of two panicable calls, dropped in tuple, match arm) x 3 tails (ordinary value, always panics, never-typed call) plus an unbounded generic; each ill-formed program must get >=1 error diagnostic under the default configuration and with optimisations disabled; the legal control variants (single move, consumed on all paths, bounded generic) must compile - so rejection is caused by the injected violation. distinct_nontrivial = distinct programs.",
    assumptions: &["linear metadata solvers (the legacy solvers' panics are C14 findings)", "any error diagnostic counts: the property does not fix the wording"],
    run: run_all,
    stack_mb: 32,
    item_timeout_s: 300,
    wall_cap_s: (55, 3600),
    shards: 0,
};
