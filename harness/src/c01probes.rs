//! C01 family G7 — language features outside the MiniCairo AST, each with a hand-derived closed form: derived
//! PartialEq / Serde / Default / Clone, closures, `if let` / `while let` / `let else`, `ref` parameters and
//! member assignment, Option / Result combinators and `?`, evaluation order of arguments / tuple / struct
//! members, loops with break values and continue, nested matches, shadowing and snapshots, trait dispatch with
//! default methods, assertion panic data, ByteArray, early returns, generics, dictionaries, spans, nested
//! destructuring.  Every program takes (a: u8, b: u8) and is run on the full 7x7 boundary product; the expected
//! result is a Rust closure written from the language documentation, not from compiler output.

use cairo_lang_runner::{Arg, RunResultValue};
use num_bigint::BigInt;
use serde_json::json;

use crate::core::{Ctx, guarded};
use crate::exec::{Dbs, value_json};
use crate::pipe::*;
use crate::c06::to_felt;

type Exp = fn(i128, i128) -> Result<Vec<i128>, Vec<i128>>;
pub struct Probe {
    pub name: &'static str,
    pub code: &'static str,
    pub expect: Exp,
}

fn short(s: &str) -> i128 {
    s.bytes().fold(0i128, |acc, b| acc * 256 + b as i128)
}
fn bi(b: bool) -> i128 {
    b as i128
}

pub fn probes() -> Vec<Probe> {
    vec![
        Probe {
            name: "derive-partialeq-struct",
            code: "#[derive(Drop, Copy, PartialEq)]\nstruct S { x: u8, y: u16, z: felt252 }\nfn f(a: u8, b: u8) -> (bool, bool, bool, bool) {\n    let s = S { x: a, y: b.into(), z: 7 };\n    (s == S { x: a, y: b.into(), z: 7 }, s == S { x: b, y: b.into(), z: 7 }, s == S { x: a, y: a.into(), z: 7 }, s != S { x: a, y: b.into(), z: 8 })\n}\n",
            expect: |a, b| Ok(vec![1, bi(a == b), bi(a == b), 1]),
        },
        Probe {
            name: "derive-partialeq-enum",
            code: "#[derive(Drop, Copy, PartialEq)]\nenum E { A, B: u8, C: (u8, u16), D }\nfn mk(k: u8, v: u8) -> E { if k % 4 == 0 { E::A } else if k % 4 == 1 { E::B(v) } else if k % 4 == 2 { E::C((v, 5)) } else { E::D } }\nfn f(a: u8, b: u8) -> (bool, bool, bool) { (mk(a, b) == mk(b, a), mk(a, 1) == mk(a, 1), mk(a, b) != mk(a, b)) }\n",
            expect: |a, b| Ok(vec![bi(a % 4 == b % 4 && (a % 4 == 0 || a % 4 == 3 || a == b)), 1, 0]),
        },
        Probe {
            name: "derive-serde-struct",
            code: "#[derive(Drop, Copy, Serde, PartialEq)]\nstruct In { p: u8, q: bool }\n#[derive(Drop, Copy, Serde, PartialEq)]\nstruct S { x: u8, inner: In, y: u256, t: (u16, felt252) }\nfn f(a: u8, b: u8) -> (felt252, felt252, felt252, felt252, felt252, felt252, felt252, felt252, bool) {\n    let s = S { x: a, inner: In { p: b, q: a < b }, y: u256 { low: a.into(), high: b.into() }, t: (300, -1) };\n    let mut out = array![];\n    s.serialize(ref out);\n    let mut sp = out.span();\n    let back = Serde::<S>::deserialize(ref sp);\n    (out.len().into(), *out.at(0), *out.at(1), *out.at(2), *out.at(3), *out.at(4), *out.at(5), *out.at(6), back == Some(s) && sp.len() == 0)\n}\n",
            expect: |a, b| Ok(vec![7, a, b, bi(a < b), a, b, 300, -1, 1]),
        },
        Probe {
            name: "derive-serde-enum-option-array",
            code: "#[derive(Drop, Serde, PartialEq)]\nenum E { A, B: u8, C: (u8, u16) }\nfn f(a: u8, b: u8) -> (felt252, felt252) {\n    let mut out = array![];\n    E::C((a, 9)).serialize(ref out);\n    E::A.serialize(ref out);\n    E::B(b).serialize(ref out);\n    let o: Option<u8> = if a < b { Some(b) } else { None };\n    o.serialize(ref out);\n    array![a, b].serialize(ref out);\n    let mut w: felt252 = 0;\n    let mut i: felt252 = 1;\n    for v in out.span() { w += *v * i; i += 1; }\n    (out.len().into(), w)\n}\n",
            expect: |a, b| {
                let mut out: Vec<i128> = vec![2, a, 9, 0, 1, b];
                if a < b {
                    out.extend([0, b]);
                } else {
                    out.push(1);
                }
                out.extend([2, a, b]);
                let w: i128 = out.iter().enumerate().map(|(i, v)| v * (i as i128 + 1)).sum();
                Ok(vec![out.len() as i128, w])
            },
        },
        Probe {
            name: "serde-deserialize-out-of-range",
            code: "fn f(a: u8, b: u8) -> (bool, u8, u32) {\n    let data: Array<felt252> = array![a.into() + 200, b.into()];\n    let mut sp = data.span();\n    let x: Option<u8> = Serde::deserialize(ref sp);\n    (x.is_some(), x.unwrap_or(0), sp.len())\n}\n",
            expect: |a, _b| Ok(vec![bi(a <= 55), if a <= 55 { a + 200 } else { 0 }, 1]),
        },
        Probe {
            name: "derive-default",
            code: "#[derive(Drop, Default)]\nstruct D { a: u8, b: bool, c: felt252, d: u256, e: Option<u8> }\n#[derive(Drop, Default, PartialEq)]\nenum K { X, #[default] Y, Z: u8 }\nfn f(a: u8, b: u8) -> (u8, bool, felt252, u128, bool, bool) { let d: D = Default::default(); let k: K = Default::default(); (d.a + a / 2, d.b, d.c, d.d.low + b.into(), d.e.is_none(), k == K::Y) }\n",
            expect: |a, b| Ok(vec![a / 2, 0, 0, b, 1, 1]),
        },
        Probe {
            name: "derive-clone",
            code: "#[derive(Drop, Clone)]\nstruct C { v: Array<u8>, k: u8 }\nfn f(a: u8, b: u8) -> (u32, u32, u8, u8) { let mut c = C { v: array![a, b], k: a }; let d = c.clone(); c.v.append(3); c.k = b; (c.v.len(), d.v.len(), d.k, *d.v.at(1)) }\n",
            expect: |a, b| Ok(vec![3, 2, a, b]),
        },
        Probe {
            name: "closures",
            code: "fn f(a: u8, b: u8) -> (u8, u8, u8) { let k = a / 2; let c = |x: u8| x / 2 + k; let d = |x: u8, y: u8| if x < y { y - x } else { x - y }; (c(b), c(a), d(a, b)) }\n",
            expect: |a, b| Ok(vec![b / 2 + a / 2, a / 2 + a / 2, (a - b).abs()]),
        },
        Probe {
            name: "if-let-while-let-let-else",
            code: "fn opt(a: u8) -> Option<u8> { if a % 2 == 0 { Some(a / 2) } else { None } }\nfn g(a: u8) -> u8 { let Some(x) = opt(a) else { return 9; }; x + 1 }\nfn f(a: u8, b: u8) -> (u8, u8, u16) {\n    let r1 = if let Some(x) = opt(a) { x } else { 7 };\n    let r2 = g(b);\n    let mut arr = array![a, b, 4];\n    let mut t: u16 = 0;\n    while let Some(v) = arr.pop_front() { t += v.into(); if v == 4 { break; } }\n    (r1, r2, t)\n}\n",
            expect: |a, b| {
                let mut t = 0;
                for v in [a, b, 4] {
                    t += v;
                    if v == 4 {
                        break;
                    }
                }
                Ok(vec![if a % 2 == 0 { a / 2 } else { 7 }, if b % 2 == 0 { b / 2 + 1 } else { 9 }, t])
            },
        },
        Probe {
            name: "ref-params-member-assignment",
            code: "#[derive(Drop, Copy)]\nstruct In { k: u8, m: u8 }\n#[derive(Drop, Copy)]\nstruct S { x: u8, inner: In, y: u16 }\nfn bump(ref s: S, d: u8) { s.inner.m = s.inner.m / 2 + d / 2; s.y += 1; }\nfn swap(ref p: u8, ref q: u8) { let t = p; p = q; q = t; }\nfn f(a: u8, b: u8) -> (u8, u8, u8, u16, u8, u8) {\n    let mut s = S { x: a, inner: In { k: b, m: a }, y: 10 };\n    s.x = b;\n    s.inner.k = a;\n    bump(ref s, b);\n    bump(ref s, 4);\n    let mut p = a;\n    let mut q = b;\n    swap(ref p, ref q);\n    (s.x, s.inner.k, s.inner.m, s.y, p, q)\n}\n",
            expect: |a, b| Ok(vec![b, a, (a / 2 + b / 2) / 2 + 2, 12, b, a]),
        },
        Probe {
            name: "option-result-combinators",
            code: "fn opt(a: u8) -> Option<u8> { if a > 100 { None } else { Some(a) } }\nfn res(a: u8) -> Result<u8, felt252> { if a > 100 { Err('big') } else { Ok(a) } }\nfn chain(a: u8, b: u8) -> Result<u8, felt252> { let x = res(a)?; let y = res(b)?; Ok(x / 2 + y / 2) }\nfn f(a: u8, b: u8) -> (u8, u8, u8, bool, bool, u8, u8, felt252, bool, u8, bool) {\n    let h = b / 2;\n    (opt(a).unwrap_or(1), opt(a).unwrap_or_default(), opt(a).map(|x| x / 2).unwrap_or(2), opt(a).is_some(), opt(b).is_none(),\n     opt(a).and_then(|x| opt(x + h)).unwrap_or(3), res(a).unwrap_or(4), match chain(a, b) { Ok(v) => v.into(), Err(e) => e }, res(a).is_ok(), res(b).ok().unwrap_or(5), opt(a).ok_or('none').is_err())\n}\n",
            expect: |a, b| {
                let (oa, ob) = (a <= 100, b <= 100);
                Ok(vec![
                    if oa { a } else { 1 },
                    if oa { a } else { 0 },
                    if oa { a / 2 } else { 2 },
                    bi(oa),
                    bi(!ob),
                    if oa && a + b / 2 <= 100 { a + b / 2 } else { 3 },
                    if oa { a } else { 4 },
                    if oa && ob { a / 2 + b / 2 } else { short("big") },
                    bi(oa),
                    if ob { b } else { 5 },
                    bi(!oa),
                ])
            },
        },
        Probe {
            name: "evaluation-order",
            code: "fn push(ref arr: Array<u8>, v: u8) -> u8 { arr.append(v); v }\nfn g3(x: u8, y: u8, z: u8) -> u8 { x / 4 + y / 4 + z / 4 }\n#[derive(Drop)]\nstruct T3 { p: u8, q: u8 }\nfn f(a: u8, b: u8) -> (u8, u8, u8, u8, u8, u8, u8, u8, u8, u32) {\n    let mut arr = array![];\n    let _r = g3(push(ref arr, 1), push(ref arr, 2), push(ref arr, 3));\n    let _t = (push(ref arr, 4), push(ref arr, 5));\n    let _s = T3 { q: push(ref arr, 6), p: push(ref arr, 7) };\n    let _b = push(ref arr, a) / 2 + push(ref arr, b) / 2;\n    (*arr.at(0), *arr.at(1), *arr.at(2), *arr.at(3), *arr.at(4), *arr.at(5), *arr.at(6), *arr.at(7), *arr.at(8), arr.len())\n}\n",
            expect: |a, b| Ok(vec![1, 2, 3, 4, 5, 6, 7, a, b, 9]),
        },
        Probe {
            name: "loops-break-continue",
            code: "fn f(a: u8, b: u8) -> (u32, u32, u32, u8) {\n    let n: u32 = (a % 7).into();\n    let mut t1 = 0_u32;\n    for i in 0..n { if i == 3 { continue; } t1 += i; }\n    let mut t2 = 0_u32;\n    let mut i = 0_u32;\n    let r = loop { if i == n { break i * 10; } if i == 5 { break 77; } t2 += 2; i += 1; };\n    let mut k = b % 5;\n    let mut t3 = 0_u8;\n    while k != 0 { k -= 1; if k == 2 { continue; } t3 += k; }\n    (t1, t2, r, t3)\n}\n",
            expect: |a, b| {
                let n = a % 7;
                let t1: i128 = (0..n).filter(|i| *i != 3).sum();
                let (mut t2, mut i) = (0, 0);
                let r = loop {
                    if i == n {
                        break i * 10;
                    }
                    if i == 5 {
                        break 77;
                    }
                    t2 += 2;
                    i += 1;
                };
                let mut k = b % 5;
                let mut t3 = 0;
                while k != 0 {
                    k -= 1;
                    if k == 2 {
                        continue;
                    }
                    t3 += k;
                }
                Ok(vec![t1, t2, r, t3])
            },
        },
        Probe {
            name: "match-shapes",
            code: "fn f(a: u8, b: u8) -> (u8, u8, u8, u8) {\n    let o: Option<Option<u8>> = if a % 3 == 0 { None } else if a % 3 == 1 { Some(None) } else { Some(Some(b)) };\n    let r1 = match o { None => 1, Some(None) => 2, Some(Some(v)) => v / 2 + 3 };\n    let r2 = match (a % 2 == 0, b % 2 == 0) { (true, true) => 10, (true, false) => 20, (false, true) => 30, (false, false) => 40 };\n    let r3 = match a % 4 { 0 => 5, 1 | 2 => 6, _ => 7 };\n    let fe: felt252 = (b % 3).into();\n    let r4 = match fe { 0 => 8, _ => 11 };\n    (r1, r2, r3, r4)\n}\n",
            expect: |a, b| {
                let r1 = match a % 3 {
                    0 => 1,
                    1 => 2,
                    _ => b / 2 + 3,
                };
                let r2 = match (a % 2 == 0, b % 2 == 0) {
                    (true, true) => 10,
                    (true, false) => 20,
                    (false, true) => 30,
                    (false, false) => 40,
                };
                let r3 = match a % 4 {
                    0 => 5,
                    1 | 2 => 6,
                    _ => 7,
                };
                Ok(vec![r1, r2, r3, if b % 3 == 0 { 8 } else { 11 }])
            },
        },
        Probe {
            name: "shadowing-scopes-snapshots",
            code: "#[derive(Drop)]\nstruct S { x: u8, v: Array<u8> }\nfn f(a: u8, b: u8) -> (u8, u8, u32, u8) {\n    let x = a;\n    let y = { let x = b; x / 2 };\n    let s = S { x: a, v: array![b, 1] };\n    let r = @s;\n    let rx = *r.x;\n    let l = r.v.len();\n    let first = *r.v.at(0);\n    (x, y, l, rx / 2 + first / 2)\n}\n",
            expect: |a, b| Ok(vec![a, b / 2, 2, a / 2 + b / 2]),
        },
        Probe {
            name: "trait-dispatch-default-methods",
            code: "trait Sz<T> { fn sz(self: @T) -> u32; fn twice(self: @T) -> u32 { Self::sz(self) * 2 } }\nimpl SzU8 of Sz<u8> { fn sz(self: @u8) -> u32 { 1 } }\nimpl SzU16 of Sz<u16> { fn sz(self: @u16) -> u32 { 2 } fn twice(self: @u16) -> u32 { 5 } }\nimpl SzArr<T, +Sz<T>, +Drop<T>> of Sz<Array<T>> { fn sz(self: @Array<T>) -> u32 { let mut t = 0; for e in self.span() { t += e.sz(); } t } }\nfn f(a: u8, b: u8) -> (u32, u32, u32, u32) { let w: u16 = a.into(); (a.twice(), w.twice(), array![a, b, a].sz(), array![w].twice()) }\n",
            expect: |_a, _b| Ok(vec![2, 5, 3, 4]),
        },
        Probe {
            name: "assert-panic-data",
            code: "fn f(a: u8, b: u8) -> u8 { assert(a != b, 'same'); assert(a < 200, 'big a'); if b == 0 { core::panic_with_felt252('zero b'); } a / b }\n",
            expect: |a, b| {
                if a == b {
                    Err(vec![short("same")])
                } else if a >= 200 {
                    Err(vec![short("big a")])
                } else if b == 0 {
                    Err(vec![short("zero b")])
                } else {
                    Ok(vec![a / b])
                }
            },
        },
        Probe {
            name: "bytearray",
            code: "fn f(a: u8, b: u8) -> (u32, u8, u8, bool) { let mut s: ByteArray = \"ab\"; s.append_byte(a); let t: ByteArray = \"cd\"; let u = s + t; let mut w: ByteArray = \"ab\"; w.append_byte(b); w.append_word('cd', 2); (u.len(), u.at(2).unwrap(), u.at(4).unwrap(), u == w) }\n",
            expect: |a, b| Ok(vec![5, a, 100, bi(a == b)]),
        },
        Probe {
            name: "early-return-nested",
            code: "fn f(a: u8, b: u8) -> u8 { let mut i = 0_u8; loop { if i == 4 { break; } match i { 2 => { if a % 2 == 0 { return 50 + i; } }, _ => {} } if i == b % 5 { return i; } i += 1; }; 99 }\n",
            expect: |a, b| {
                let mut i = 0;
                loop {
                    if i == 4 {
                        break;
                    }
                    if i == 2 && a % 2 == 0 {
                        return Ok(vec![52]);
                    }
                    if i == b % 5 {
                        return Ok(vec![i]);
                    }
                    i += 1;
                }
                Ok(vec![99])
            },
        },
        Probe {
            name: "generic-functions",
            code: "fn pick<T, +Drop<T>, +Copy<T>>(c: bool, x: T, y: T) -> T { if c { x } else { y } }\nfn f(a: u8, b: u8) -> (u8, u16, bool) { (pick(a < b, a, b), pick(a == b, 1_u16, 2_u16), pick(true, a > b, false)) }\n",
            expect: |a, b| Ok(vec![if a < b { a } else { b }, if a == b { 1 } else { 2 }, bi(a > b)]),
        },
        Probe {
            name: "dict-last-write-wins",
            code: "fn f(a: u8, b: u8) -> (u8, u8, u8) { let mut d: Felt252Dict<u8> = Default::default(); d.insert(a.into(), 5); d.insert(b.into(), 6); let x = d.get(a.into()); let y = d.get(b.into()); let z = d.get(1000); (x, y, z) }\n",
            expect: |a, b| Ok(vec![if a == b { 6 } else { 5 }, 6, 0]),
        },
        Probe {
            name: "span-for-slice",
            code: "fn f(a: u8, b: u8) -> (u16, u32, u8) { let arr = array![a, b, 3, 4]; let mut t: u16 = 0; for x in arr.span() { t += (*x).into(); } let sl = arr.span().slice(1, 2); (t, sl.len(), *sl.at(1)) }\n",
            expect: |a, b| Ok(vec![a + b + 7, 2, 3]),
        },
        Probe {
            name: "nested-destructuring",
            code: "fn f(a: u8, b: u8) -> (u8, u8, u8, u8) { let t = ((a, b), [b, a, 7_u8]); let ((p, q), [r, _s, u]) = t; (p, q, r, u) }\n",
            expect: |a, b| Ok(vec![a, b, b, 7]),
        },
        Probe {
            name: "compound-assignment",
            code: "#[derive(Drop, Copy)]\nstruct P { x: u32, y: u32 }\nfn f(a: u8, b: u8) -> (u32, u32, u32, u32) { let mut p = P { x: a.into(), y: b.into() }; p.x += 3; p.y *= 2; p.x -= 1; let mut t = 100_u32; t /= (b % 4 + 1).into(); t %= 7; let mut m = p.x; m += p.y; (p.x, p.y, t, m) }\n",
            expect: |a, b| Ok(vec![a + 2, b * 2, (100 / (b % 4 + 1)) % 7, a + 2 + b * 2]),
        },
    ]
}

pub fn run_probes(ctx: &mut Ctx) {
    let dom: Vec<i128> = vec![0, 1, 2, 127, 128, 254, 255];
    let cfgs = [Cfg::DEFAULT, Cfg::BASELINE];
    let mut dbs = Dbs::default();
    for p in probes() {
        ctx.case(
            || json!({"space": "g7-feature-probes", "program": p.name}),
            |ctx| {
                ctx.count("programs", 1);
                ctx.distinct(p.code);
                for cfg in &cfgs {
                    let prog = match guarded(|| dbs.compile(cfg, p.code)) {
                        Ok(Ok(q)) => q,
                        Ok(Err(e)) => {
                            ctx.violation("well-typed-program-rejected", format!("feature probe {} does not compile under {}: {}", p.name, cfg.name(), e.chars().take(400).collect::<String>()), json!({"program": p.name, "cfg": cfg.name(), "source": p.code}));
                            return;
                        }
                        Err((loc, msg)) => {
                            dbs.forget(cfg);
                            ctx.violation(crate::core::panic_sig(&loc, &msg), format!("compiler panicked at {loc}: {msg}"), json!({"program": p.name, "cfg": cfg.name(), "source": p.code}));
                            return;
                        }
                    };
                    let Ok(c) = make_runner(prog, cfg) else {
                        ctx.violation("sierra-to-casm-rejected", "the generated Sierra does not compile to CASM", json!({"program": p.name, "cfg": cfg.name()}));
                        return;
                    };
                    let Some(f) = c.program.funcs.iter().find(|f| fname(f) == "test::f") else { return };
                    for a in &dom {
                        for b in &dom {
                            let desc = || json!({"program": p.name, "cfg": cfg.name(), "args": [a.to_string(), b.to_string()], "source": p.code});
                            if !ctx.sub(desc) {
                                continue;
                            }
                            ctx.count("evaluations", 1);
                            let args = vec![Arg::Value(to_felt(&BigInt::from(*a))), Arg::Value(to_felt(&BigInt::from(*b)))];
                            let got = match guarded(|| run(&c, f, &args, Some(100_000_000))) {
                                Ok((Outcome::Value(v, _), _)) => v,
                                _ => {
                                    ctx.count("vm_errors_left_to_C02", 1);
                                    continue;
                                }
                            };
                            let exp = (p.expect)(*a, *b);
                            let same = |g: &[starknet_types_core::felt::Felt], e: &[i128]| g.len() == e.len() && g.iter().zip(e).all(|(x, y)| *x == to_felt(&BigInt::from(*y)));
                            let ok = match (&got, &exp) {
                                (RunResultValue::Success(g), Ok(e)) => same(g, e),
                                (RunResultValue::Panic(g), Err(e)) => same(g, e),
                                _ => false,
                            };
                            ctx.outcome(match &got {
                                RunResultValue::Success(_) => "success",
                                RunResultValue::Panic(_) => "panic",
                            });
                            if !ok {
                                ctx.violation(format!("wrong-result:g7:{}", p.name), format!("compiled program yields {} but the source means {:?}", value_json(&got), exp), desc());
                            }
                        }
                    }
                }
            },
        );
    }
}
