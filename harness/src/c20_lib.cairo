pub mod shapes {
    #[derive(Copy, Drop, PartialEq, Serde)]
    pub struct Pt { pub x: u8, pub y: u8 }
    #[derive(Copy, Drop)]
    pub enum Shape { Dot: Pt, Seg: (Pt, Pt), Nil }
    pub trait Area<T> { fn area(self: @T) -> u32; }
    pub impl ShapeArea of Area<Shape> {
        fn area(self: @Shape) -> u32 {
            match *self { Shape::Dot(_) => 1, Shape::Seg((a, b)) => super::util::dist(a.x, b.x) + super::util::dist(a.y, b.y), Shape::Nil => 0 }
        }
    }
}
pub mod util {
    pub const LIMIT: u32 = 300;
    pub fn dist(a: u8, b: u8) -> u32 { if a < b { (b - a).into() } else { (a - b).into() } }
    pub fn twice<T, +Add<T>, +Copy<T>, +Drop<T>>(x: T) -> T { x + x }
    pub fn sum(mut s: Span<u32>) -> u32 { let mut t = 0; while let Some(v) = s.pop_front() { t += *v; } t }
    #[inline(always)]
    pub fn clamp(v: u32) -> u32 { if v > LIMIT { LIMIT } else { v } }
    pub fn fact(n: u32) -> u32 { if n == 0 { 1 } else { n * fact(n - 1) } }
}
pub mod feats {
    use core::dict::Felt252Dict;
    #[derive(Copy, Drop, PartialEq, Serde, Debug)]
    pub struct Pt { pub x: u8, pub y: u8 }
    #[generate_trait]
    pub impl PtImpl of PtTrait {
        fn sum(self: @Pt) -> u16 { (*self.x).into() + (*self.y).into() }
    }
    #[inline(never)]
    pub fn f_implicits(x: felt252) -> felt252 implicits(core::RangeCheck) nopanic { x }
    #[inline(never)]
    pub fn f_nopanic(x: u8) -> u8 nopanic { x }
    #[inline(never)]
    pub fn f_panics(x: u8) -> u8 { x + 1 }
    #[inline(always)]
    pub fn f_always(x: u8) -> u8 { x / 2 }
    #[inline(never)]
    pub fn f_ref(ref x: u8, y: u8) { x = x / 2 + y / 2; }
    pub fn f_neg(x: i8) -> i8 { if x < -5 { -128 } else { x / 2 } }
    pub const C_I8: i8 = -128;
    pub const C_U256: u256 = 0x100000000000000000000000000000001;
    pub const C_TUP: (u8, felt252) = (1, -1);
    pub const C_PT: Pt = Pt { x: 3, y: 4 };
    pub const C_ARR: [u8; 3] = [1, 2, 3];
    pub const C_STR: felt252 = 'abc';
    pub const C_OPT: Option<u8> = Option::Some(7);
    #[inline(never)]
    pub fn f_closure(a: u8) -> u8 { let g = |x: u8| x / 2 + a / 2; g(a) }
    pub fn f_loop(a: u8) -> u32 { let mut i = 0_u32; let mut t = 0_u32; loop { if i == a.into() % 4 { break t; } t += i; i += 1; } }
    pub fn f_match(a: u8) -> u8 { match a { 0 => 7, 1 | 2 => 9, _ => a / 3 } }
    pub fn f_snap(a: @Array<u8>) -> u32 { a.len() }
    #[derive(Destruct)]
    pub struct D { pub d: Felt252Dict<u8>, pub k: u8 }
    pub fn f_mk_d(a: u8) -> D { let mut d: Felt252Dict<u8> = Default::default(); d.insert(1, a); D { d, k: a } }
    pub fn f_dict(a: u8) -> u8 { let mut d: Felt252Dict<u8> = Default::default(); d.insert(1, a); d.get(1) + d.get(2) }
    pub trait Tr<T> { fn base(self: T) -> u32; fn twice(self: T) -> u32 { Self::base(self) * 2 } }
    pub impl TrU8 of Tr<u8> { fn base(self: u8) -> u32 { self.into() + 1 } }
    pub type Byte = u8;
    pub impl AliasTr = TrU8;
    pub fn f_opt(a: u8) -> Option<u8> { if a > 3 { Some(a) } else { None } }
    pub fn f_res(a: u8) -> Result<u8, felt252> { if a > 3 { Ok(a) } else { Err('small') } }
    #[derive(Drop, Copy)]
    pub struct W<T> { pub v: T }
    pub fn f_unwrap<T, +Drop<T>>(w: W<T>) -> T { let W { v } = w; v }
    pub fn f_arr(a: u8) -> Array<u8> { array![a, 1] }
    pub fn f_fixed(a: u8) -> [u8; 2] { [a, 2] }
    #[inline(never)]
    pub fn f_rec(a: u32) -> u32 { if a == 0 { 0 } else { f_rec(a - 1) + 1 } }
    pub fn f_u256(a: u128) -> u256 { u256 { low: a, high: 1 } * 3 }
    pub fn f_bytes() -> ByteArray { "hello" }
    pub fn f_assert(a: u8) -> u8 { assert!(a != 9, "nine {}", a); a }
    #[derive(Copy, Drop)]
    pub enum E5 { A, B: u8, C: (u8, u8), D: Pt, E }
    pub fn f_e5(a: u8) -> E5 { if a == 0 { E5::A } else if a == 1 { E5::B(a) } else if a == 2 { E5::C((a, a)) } else if a == 3 { E5::D(Pt { x: a, y: a }) } else { E5::E } }
    pub fn f_e5_val(e: E5) -> u8 { match e { E5::A => 0, E5::B(x) => x, E5::C((x, _)) => x, E5::D(p) => p.x, E5::E => 9 } }
    pub fn f_while(a: u8) -> u8 { let mut x = a; while x > 10 { x -= 3; } x }
    pub fn f_for(a: u8) -> u32 { let n: u32 = (a % 5).into(); let mut t = 0_u32; for i in 0..n { t += i; } t }
    pub fn f_desnap(p: @Pt) -> u8 { *p.x / 2 + 1 }
    #[must_use]
    pub fn f_must(a: u8) -> u8 { a }
    #[deprecated(feature: "old-f", note: "use f_must")]
    pub fn f_dep(a: u8) -> u8 { a }
    #[unstable(feature: "new-f")]
    pub fn f_unstable(a: u8) -> u8 { a }
    pub(crate) fn f_hidden(a: u8) -> u8 { a }
    fn f_private(a: u8) -> u8 { a }
    pub mod nested { pub mod deeper { pub fn g(a: u8) -> u8 { a / 2 } } }
    pub use nested::deeper::g as g2;
    pub trait HasK { const K: u8; type Out; fn get(self: u8) -> Self::Out; }
    pub impl HasKImpl of HasK { const K: u8 = 5; type Out = u16; fn get(self: u8) -> u16 { self.into() + Self::K.into() } }
    pub fn f_uses_hidden(a: u8) -> u8 { f_hidden(a) / 2 + f_private(a) / 2 }
}
pub mod feats2 {
    use core::dict::Felt252Dict;
    use core::hash::{HashStateExTrait, HashStateTrait};
    use core::poseidon::PoseidonTrait;
    // const fn, usable from the dependent's consts
    pub const fn cf(x: u8) -> u8 { x / 2 + 1 }
    pub const LIMIT2: u32 = 40;
    pub const C_REF: u32 = LIMIT2 * 2 + 1;
    pub const C_BOOL: bool = true;
    pub const C_I128: i128 = -170141183460469231731687303715884105728;
    pub const C_U64: u64 = 0xffffffffffffffff;
    pub const C_NZ: NonZero<u8> = 5;
    pub const C_E5: super::feats::E5 = super::feats::E5::B(3);
    pub const C_NESTED: (super::feats::Pt, [u8; 2], Option<(u8, u8)>) = (super::feats::Pt { x: 1, y: 2 }, [3, 4], Option::Some((5, 6)));
    pub const C_FROM_FN: u8 = cf(200);
    // glob re-export
    pub mod inner {
        pub fn gi(a: u8) -> u8 { a / 3 }
        #[derive(Copy, Drop)]
        pub struct GS { pub v: u8 }
        pub fn not_reexported_privately(a: u8) -> u8 { a }
    }
    pub use core::num::traits::Zero as Z;
    // two impls of one trait, a generic function over it
    pub trait Nm<T> { fn nm(self: @T) -> felt252; }
    pub impl NmU8 of Nm<u8> { fn nm(self: @u8) -> felt252 { 'u8' } }
    pub impl NmU16 of Nm<u16> { fn nm(self: @u16) -> felt252 { 'u16' } }
    pub fn name_of<T, +Nm<T>>(x: @T) -> felt252 { Nm::nm(x) }
    // same-named items in two modules
    pub mod ma { pub fn same(a: u8) -> u8 { a / 2 + 1 } }
    pub mod mb { pub fn same(a: u8) -> u8 { a / 2 + 2 } }
    // used before declared
    pub fn early(a: u8) -> u8 { late(a) / 2 }
    fn late(a: u8) -> u8 { a / 2 + 4 }
    // generic enum
    #[derive(Copy, Drop)]
    pub enum Ei<T> { L: T, R: (T, T) }
    pub fn ei_first<T, +Drop<T>, +Copy<T>>(e: Ei<T>) -> T { match e { Ei::L(x) => x, Ei::R((x, _)) => x } }
    // never type, tuples of size 0 and 1
    pub fn boom(a: u8) -> core::never { core::panic_with_felt252('boom') }
    pub fn t0() -> () {}
    pub fn t1(a: u8) -> (u8,) { (a,) }
    // literals
    pub fn big() -> felt252 { 0x7ffffffffffffffffffffffffffffffffffffffffffffffffffffffffffff }
    pub fn negbig() -> felt252 { -0x7ffffffffffffffffffffffffffffffffffffffffffffffffffffffffffff }
    pub fn shortstr() -> felt252 { 'a long short string of 31 chars' }
    pub fn bigu256() -> u256 { 0xffffffffffffffffffffffffffffffffffffffffffffffffffffffffffffffff }
    pub fn longbytes() -> ByteArray { "a byte array longer than thirty-one bytes, so that it has a full word" }
    pub fn escapes() -> ByteArray { "tab\there \"quoted\" \\ and \x41" }
    // derives
    #[derive(Drop, Clone, Default, PartialEq, Debug, Serde, Hash)]
    pub struct Rec { pub a: u8, pub b: u16 }
    #[derive(Drop, Clone, PartialEq, Debug, Serde, Default)]
    pub enum Col { #[default] Red, Green: u8, Blue: Rec }
    pub fn rec_hash(r: Rec) -> felt252 { PoseidonTrait::new().update_with(r).finalize() }
    // private member
    pub struct Priv { pub a: u8, b: u8 }
    pub fn mk_priv(a: u8) -> Priv { Priv { a, b: a / 2 } }
    pub impl PrivDrop of Drop<Priv>;
    // const generic
    pub fn cg<const N: u8>() -> u8 { N / 2 }
    pub fn fixed_sum<const N: usize>(a: [u8; N]) -> usize { N }
    // generic impl with bound, snapshot generic
    pub struct W2<T> { pub v: T }
    pub impl W2Drop<T, +Drop<T>> of Drop<W2<T>>;
    pub fn snap_len<T>(a: @Array<T>) -> u32 { a.len() }
    pub fn fspan(a: u8) -> Span<u8> { [a, 1, 2].span() }
    // handwritten Destruct with an effect-free body, PanicDestruct via derive
    pub struct HD { pub d: Felt252Dict<u8> }
    pub impl HDDestruct of Destruct<HD> { fn destruct(self: HD) nopanic { let HD { d } = self; d.squash(); } }
    pub fn mk_hd(a: u8) -> HD { let mut d: Felt252Dict<u8> = Default::default(); d.insert(2, a); HD { d } }
    // two traits with a same-named method (ambiguity at the dependent)
    pub trait AmbA<T> { fn amb(self: T) -> u8; }
    pub trait AmbB<T> { fn amb(self: T) -> u8; }
    pub impl AmbAU8 of AmbA<u8> { fn amb(self: u8) -> u8 { 1 } }
    pub impl AmbBU8 of AmbB<u8> { fn amb(self: u8) -> u8 { 2 } }
    // plain #[inline], a function using a deprecated item under its feature
    #[inline]
    pub fn f_inline(a: u8) -> u8 { a / 2 + 3 }
    #[feature("old-f")]
    pub fn uses_dep(a: u8) -> u8 { super::feats::f_dep(a) }
    #[cfg(test)]
    pub fn only_in_tests(a: u8) -> u8 { a }
    // early returns, `?`, nested loops with breaks, match on tuple
    pub fn q(a: u8) -> Option<u8> { let x = super::feats::f_opt(a)?; if x > 100 { return None; } Some(x / 2) }
    pub fn nested_loops(a: u8) -> u32 {
        let mut t = 0_u32;
        let mut i = 0_u8;
        while i < a % 4 {
            let mut j = 0_u8;
            loop { if j > i { break; } t += 1; j += 1; }
            i += 1;
        }
        t
    }
    pub fn tup_match(a: u8, b: bool) -> u8 { match (a % 3, b) { (0, true) => 1, (0, false) => 2, (1, _) => 3, _ => 4 } }
}
