//! C05 (thorough): every test of the core library has the same outcome (value or panic data, hence the same
//! verdict) under every configuration corner.

use std::collections::BTreeMap;
use std::path::{Path, PathBuf};

use cairo_lang_compiler::db::RootDatabase;
use cairo_lang_compiler::diagnostics::DiagnosticsReporter;
use cairo_lang_compiler::project::setup_project;
use cairo_lang_filesystem::cfg::{Cfg as CfgItem, CfgSet};
use cairo_lang_filesystem::db::init_dev_corelib;
use cairo_lang_runner::{RunResultValue, SierraCasmRunner, StarknetState};
use cairo_lang_sierra_to_casm::metadata::MetadataComputationConfig;
use cairo_lang_test_plugin::{TestsCompilationConfig, compile_test_prepared_db, test_plugin_suite};
use serde_json::json;

use crate::core::{Ctx, guarded};
use crate::exec::value_json;
use crate::pipe::{CORELIB, Cfg};

/// name -> outcome ("ok"/"panic" + felts, or an error string) of every corelib test under `cfg`.
fn corelib_test_outcomes(cfg: &Cfg) -> Result<BTreeMap<String, String>, String> {
    let mut b = RootDatabase::builder();
    b.with_optimizations(cfg.optimizations());
    b.with_cfg(CfgSet::from_iter([CfgItem::name("test"), CfgItem::kv("target", "test")]));
    // `cairo-test corelib/` runs without the Starknet plugin
    b.with_default_plugin_suite(test_plugin_suite());
    let mut db = b.build().map_err(|e| format!("{e}"))?;
    init_dev_corelib(&mut db, PathBuf::from(CORELIB));
    if let Some(t) = cfg.match_threshold {
        use cairo_lang_filesystem::flag::{Flag, FlagsGroup};
        use cairo_lang_filesystem::ids::FlagLongId;
        db.set_flag(FlagLongId(Flag::NUMERIC_MATCH_OPTIMIZATION_MIN_ARMS_THRESHOLD.into()), Some(Flag::NumericMatchOptimizationMinArmsThreshold(t)));
    }
    let inputs = setup_project(&mut db, Path::new("/repo/corelib")).map_err(|e| format!("{e}"))?;
    let mut diag_text = String::new();
    let reporter = DiagnosticsReporter::write_to_string(&mut diag_text).with_crates(&inputs).allow_warnings();
    let compiled = compile_test_prepared_db(
        &db,
        TestsCompilationConfig {
            starknet: false,
            add_statements_functions: false,
            add_statements_code_locations: false,
            contract_declarations: None,
            contract_crate_ids: None,
            executable_crate_ids: None,
            add_functions_debug_info: false,
            add_type_names: false,
            replace_ids: true,
        },
        inputs,
        reporter,
    )
    .map_err(|e| format!("{e}"));
    let compiled = match compiled {
        Ok(c) => c,
        Err(e) => return Err(format!("{e}: {}", diag_text.chars().take(500).collect::<String>())),
    };
    let md = MetadataComputationConfig { function_set_costs: compiled.metadata.function_set_costs.clone(), linear_gas_solver: cfg.linear, linear_ap_change_solver: cfg.linear, skip_non_linear_solver_comparisons: false, compute_runtime_costs: false };
    let runner = SierraCasmRunner::new(compiled.sierra_program.program.clone(), Some(md), compiled.metadata.contracts_info.clone(), None).map_err(|e| format!("{e}"))?;
    let mut out = BTreeMap::new();
    for (name, test) in &compiled.metadata.named_tests {
        if test.ignored {
            continue;
        }
        let r = guarded(|| {
            let func = runner.find_function(name).map_err(|e| format!("{e}"))?;
            runner.run_function_with_starknet_context(func, vec![], test.available_gas, StarknetState::default()).map(|r| r.value).map_err(|e| format!("{e}"))
        });
        let s = match r {
            // (a test may return a value, e.g. a dictionary: such results hold addresses and are not compared)
            Ok(Ok(RunResultValue::Success(_))) => "ok".to_string(),
            Ok(Ok(v @ RunResultValue::Panic(_))) => format!("panic {}", value_json(&v)),
            Ok(Err(e)) => format!("error {}", e.chars().take(120).collect::<String>()),
            Err((loc, msg)) => format!("runner-panic {loc}: {}", msg.chars().take(80).collect::<String>()),
        };
        out.insert(name.clone(), s);
    }
    Ok(out)
}

/// Names (last path segment) of the corelib tests whose body reads the gas counter: what they observe is gas,
/// which the property allows to differ between configurations (the same exclusion as in the execution space).
fn gas_observing_tests() -> std::collections::BTreeSet<String> {
    let mut out = std::collections::BTreeSet::new();
    let mut files = vec![];
    crate::text::walk_cairo_files(std::path::Path::new("/repo/corelib/src/test"), &mut files);
    for f in files {
        let Ok(src) = std::fs::read_to_string(&f) else { continue };
        for chunk in src.split("#[test]").skip(1) {
            // the function the attribute belongs to ends where the next item starts (a crude but sufficient cut)
            let body_end = chunk.find("\n}\n").map(|i| i + 3).unwrap_or(chunk.len());
            let item = &chunk[..body_end];
            if item.contains("get_available_gas") || item.contains("get_unspent_gas") {
                if let Some(name) = item.split("fn ").nth(1).and_then(|r| r.split(['(', '<']).next()) {
                    out.insert(name.trim().to_string());
                }
            }
        }
    }
    out
}

/// `corelib_test_outcomes` in a forked child: the two whole-suite compilations of an item then never share one
/// address space (the worker's cap counts virtual memory, which allocator arenas do not give back).
fn outcomes_in_child(cfg: &Cfg) -> Result<BTreeMap<String, String>, String> {
    use std::io::Write;
    let r = crate::hist::in_child(1400, |w| {
        // inline-everything configurations need more than the worker's 8 GiB for the whole test suite
        unsafe {
            let lim = libc::rlimit { rlim_cur: 24 << 30, rlim_max: 24 << 30 };
            libc::setrlimit(libc::RLIMIT_AS, &lim);
        }
        let out = match guarded(|| corelib_test_outcomes(cfg)) {
            Ok(Ok(m)) => json!({"t": "ok", "outcomes": m}),
            Ok(Err(e)) => json!({"t": "err", "error": e}),
            Err((loc, msg)) => json!({"t": "panic", "error": format!("panic at {loc}: {msg}")}),
        };
        let _ = writeln!(w, "{out}");
    });
    if let Some(a) = r.abnormal {
        return Err(format!("child died: {a}"));
    }
    let Some(rec) = r.records.first() else { return Err("child returned nothing".into()) };
    match rec["t"].as_str() {
        Some("ok") => Ok(rec["outcomes"].as_object().map(|o| o.iter().map(|(k, v)| (k.clone(), v.as_str().unwrap_or("").to_string())).collect()).unwrap_or_default()),
        _ => Err(rec["error"].as_str().unwrap_or("?").to_string()),
    }
}

pub fn run(ctx: &mut Ctx) {
    let gas_tests = gas_observing_tests();
    // (inline-everything - InlineSmallFunctions(1000) - is left to the snippet space: compiling and running the
    // whole corelib suite under it takes 21 minutes and 23 GB, measured; Small(4) stands in for it here)
    let corners: Vec<Cfg> = Cfg::corners()
        .into_iter()
        .filter(|c| c.linear)
        .map(|c| if matches!(c.opt, crate::pipe::Opt::Small(n) if n >= 1000) { Cfg { opt: crate::pipe::Opt::Small(4), ..c } } else { c })
        .collect();
    let base = corners[0];
    for cfg in corners.iter().skip(1) {
        ctx.case(
            || json!({"space":"corelib-tests","cfg":cfg.name(),"baseline":base.name()}),
            |ctx| {
                let a = match guarded(|| outcomes_in_child(&base)) {
                    Ok(Ok(a)) => a,
                    other => {
                        ctx.note(format!("corelib tests do not build under {}: {:?}", base.name(), other.map(|r| r.err())));
                        ctx.count("corelib_builds_failed", 1);
                        return;
                    }
                };
                let b = match guarded(|| outcomes_in_child(cfg)) {
                    Ok(Ok(b)) => b,
                    Ok(Err(e)) if e.starts_with("child died") || e.starts_with("child returned nothing") => {
                        // the forked compilation was killed (memory cap, watchdog): not a verdict about the compiler
                        ctx.mark_capped(&format!("corelib tests under {}: {e}", cfg.name()));
                        return;
                    }
                    Ok(Err(e)) => {
                        ctx.violation("corelib-tests-do-not-build", format!("the core library tests compile under {} but not under {}: {e}", base.name(), cfg.name()), json!({"cfg": cfg.name()}));
                        return;
                    }
                    Err((loc, msg)) => {
                        ctx.violation(crate::core::panic_sig(&loc, &msg), format!("compiler panicked building corelib tests under {}: {msg}", cfg.name()), json!({"cfg": cfg.name()}));
                        return;
                    }
                };
                ctx.count("corelib_tests_per_config", a.len() as i64);
                for (name, va) in &a {
                    if gas_tests.contains(name.rsplit("::").next().unwrap_or(name)) {
                        ctx.count("gas_observing_tests_not_compared", 1);
                        continue;
                    }
                    ctx.count("evaluations", 1);
                    ctx.count("corelib_test_comparisons", 1);
                    ctx.distinct(&(cfg.name(), name));
                    match b.get(name) {
                        None => ctx.violation("corelib-test-missing", format!("test {name} exists under {} but not under {}", base.name(), cfg.name()), json!({"test": name, "cfg": cfg.name()})),
                        Some(vb) if vb != va && !va.contains("Out of gas") && !vb.contains("4f7574206f6620676173") => {
                            // panics with 'Out of gas' data are gas-dependent by the property's own wording
                            let oog = |s: &String| s.contains("375233589013918064796019");
                            if oog(va) || oog(vb) {
                                ctx.count("inconclusive_out_of_gas", 1);
                            } else {
                                ctx.violation("corelib-test-outcome-depends-on-configuration", format!("{name}: {} gives {va}; {} gives {vb}", base.name(), cfg.name()), json!({"test": name, "baseline_cfg": base.name(), "cfg": cfg.name(), "baseline": va, "value": vb}));
                            }
                        }
                        _ => {}
                    }
                }
                ctx.sample(|| json!({"cfg": cfg.name(), "tests": a.len(), "example": a.iter().next()}));
            },
        );
    }
}

/// Debug: runs the corelib tests under the named configuration in this process (no memory cap) and prints a summary.
pub fn debug(cfg_name: &str) {
    let cfg = Cfg::full().into_iter().chain(Cfg::corners()).find(|c| c.name() == cfg_name).expect("config name");
    let t = std::time::Instant::now();
    match corelib_test_outcomes(&cfg) {
        Ok(m) => println!("{} tests, {} ok, in {:?}", m.len(), m.values().filter(|v| v.as_str() == "ok").count(), t.elapsed()),
        Err(e) => println!("error: {e}"),
    }
}
