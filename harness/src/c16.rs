//! C16 — assembled bytecode means what the CASM instruction says: every instruction shape x boundary
//! offsets x boundary immediates x machine states, one real VM step against a reference step.

use std::collections::BTreeMap;

use cairo_lang_casm::instructions::*;
use cairo_lang_casm::operand::*;
use cairo_vm::types::relocatable::{MaybeRelocatable, Relocatable};
use cairo_vm::vm::decoding::decoder::decode_instruction;
use cairo_vm::vm::vm_core::VirtualMachine;
use num_bigint::BigInt;
use num_traits::ToPrimitive;
use serde_json::json;
use starknet_types_core::felt::Felt;

use crate::core::{CheckDef, Ctx, Tier, guarded, panic_sig};

#[derive(Clone, Debug, PartialEq)]
enum Val {
    Int(Felt),
    Ptr(isize, usize),
}

type Mem = BTreeMap<(isize, usize), Val>;

const FP0: usize = 40000;
const PC0: usize = 100;
const DATA_SEG: isize = 2;
const DATA_OFF: usize = 40000;

fn felt_of(b: &BigInt) -> Felt {
    Felt::from(b)
}

fn addr(ap: usize, fp: usize, c: &CellRef) -> (isize, usize) {
    let base = match c.register {
        Register::AP => ap,
        Register::FP => fp,
    };
    (1, (base as i64 + c.offset as i64) as usize)
}

struct State {
    pc: usize,
    ap: usize,
    fp: usize,
    mem: Mem,
}

#[derive(Debug, PartialEq)]
struct Effect {
    pc: (isize, usize),
    ap: usize,
    fp: usize,
    writes: Vec<((isize, usize), Val)>,
}

fn add(a: &Val, b: &Val) -> Option<Val> {
    match (a, b) {
        (Val::Int(x), Val::Int(y)) => Some(Val::Int(x + y)),
        (Val::Ptr(s, o), Val::Int(y)) | (Val::Int(y), Val::Ptr(s, o)) => {
            let y = y.to_bigint();
            let y: i128 = if y.bits() > 64 { (y - Felt::prime().to_string().parse::<BigInt>().unwrap()).to_i128()? } else { y.to_i128()? };
            let n = *o as i128 + y;
            (n >= 0).then_some(Val::Ptr(*s, n as usize))
        }
        _ => None,
    }
}
fn mul(a: &Val, b: &Val) -> Option<Val> {
    match (a, b) {
        (Val::Int(x), Val::Int(y)) => Some(Val::Int(x * y)),
        _ => None,
    }
}

/// Value of a ResOperand in the reference model, with the cells it depends on. None = some cell unknown
/// or the operation is undefined on these values.
fn eval(st: &State, op: &ResOperand) -> Option<Val> {
    match op {
        ResOperand::Deref(c) => st.mem.get(&addr(st.ap, st.fp, c)).cloned(),
        ResOperand::DoubleDeref(c, off) => match st.mem.get(&addr(st.ap, st.fp, c))? {
            Val::Ptr(s, o) => {
                let t = *o as i64 + *off as i64;
                if t < 0 {
                    return None;
                }
                st.mem.get(&(*s, t as usize)).cloned()
            }
            _ => None,
        },
        ResOperand::Immediate(i) => Some(Val::Int(felt_of(&i.value))),
        ResOperand::BinOp(b) => {
            let x = st.mem.get(&addr(st.ap, st.fp, &b.a))?;
            let y = match &b.b {
                DerefOrImmediate::Deref(c) => st.mem.get(&addr(st.ap, st.fp, c))?.clone(),
                DerefOrImmediate::Immediate(i) => Val::Int(felt_of(&i.value)),
            };
            match b.op {
                Operation::Add => add(x, &y),
                Operation::Mul => mul(x, &y),
            }
        }
    }
}

/// The reference single-step semantics. Err(()) = the step must fail.
fn reference_step(st: &State, ins: &Instruction) -> Result<Effect, ()> {
    let size = ins.body.op_size();
    let inc = if ins.inc_ap { 1 } else { 0 };
    let next = (0isize, st.pc + size);
    match &ins.body {
        InstructionBody::AssertEq(a) => {
            let dst_addr = addr(st.ap, st.fp, &a.a);
            let dst = st.mem.get(&dst_addr).cloned();
            let res = eval(st, &a.b);
            match (dst, res) {
                (Some(d), Some(r)) => {
                    if d == r {
                        Ok(Effect { pc: next, ap: st.ap + inc, fp: st.fp, writes: vec![] })
                    } else {
                        Err(())
                    }
                }
                (None, Some(r)) => Ok(Effect { pc: next, ap: st.ap + inc, fp: st.fp, writes: vec![(dst_addr, r)] }),
                _ => Err(()), // operand deduction is exercised separately (deduce-state)
            }
        }
        InstructionBody::AddAp(a) => match eval(st, &a.operand) {
            // ap is an address: adding a field element that is "negative" moves it back (address arithmetic)
            Some(v @ Val::Int(_)) => match add(&Val::Ptr(1, st.ap), &v) {
                Some(Val::Ptr(1, n)) => Ok(Effect { pc: next, ap: n, fp: st.fp, writes: vec![] }),
                _ => Err(()),
            },
            _ => Err(()),
        },
        InstructionBody::Jump(j) => {
            let t = eval(st, &ResOperand::from(j.target.clone())).ok_or(())?;
            let pc = if j.relative {
                match add(&Val::Ptr(0, st.pc), &t) {
                    Some(Val::Ptr(s, o)) if matches!(t, Val::Int(_)) => (s, o),
                    _ => return Err(()),
                }
            } else {
                match t {
                    Val::Ptr(s, o) => (s, o),
                    _ => return Err(()),
                }
            };
            Ok(Effect { pc, ap: st.ap + inc, fp: st.fp, writes: vec![] })
        }
        InstructionBody::Jnz(j) => {
            let cond = st.mem.get(&addr(st.ap, st.fp, &j.condition)).ok_or(())?;
            let zero = matches!(cond, Val::Int(v) if *v == Felt::ZERO);
            if zero {
                Ok(Effect { pc: next, ap: st.ap + inc, fp: st.fp, writes: vec![] })
            } else {
                let t = eval(st, &ResOperand::from(j.jump_offset.clone())).ok_or(())?;
                match (add(&Val::Ptr(0, st.pc), &t), &t) {
                    (Some(Val::Ptr(s, o)), Val::Int(_)) => Ok(Effect { pc: (s, o), ap: st.ap + inc, fp: st.fp, writes: vec![] }),
                    _ => Err(()),
                }
            }
        }
        InstructionBody::Call(c) => {
            let t = eval(st, &ResOperand::from(c.target.clone())).ok_or(())?;
            let pc = if c.relative {
                match (add(&Val::Ptr(0, st.pc), &t), &t) {
                    (Some(Val::Ptr(s, o)), Val::Int(_)) => (s, o),
                    _ => return Err(()),
                }
            } else {
                match t {
                    Val::Ptr(s, o) => (s, o),
                    _ => return Err(()),
                }
            };
            let mut writes = vec![];
            for (a, v) in [((1isize, st.ap), Val::Ptr(1, st.fp)), ((1, st.ap + 1), Val::Ptr(0, st.pc + size))] {
                match st.mem.get(&a) {
                    None => writes.push((a, v)),
                    Some(old) if *old == v => {}
                    Some(_) => return Err(()),
                }
            }
            Ok(Effect { pc, ap: st.ap + 2, fp: st.ap + 2, writes })
        }
        InstructionBody::Ret(_) => {
            let pc = match st.mem.get(&(1, st.fp - 1)) {
                Some(Val::Ptr(s, o)) => (*s, *o),
                _ => return Err(()),
            };
            let fp = match st.mem.get(&(1, st.fp - 2)) {
                Some(Val::Ptr(1, o)) => *o,
                _ => return Err(()),
            };
            Ok(Effect { pc, ap: st.ap, fp, writes: vec![] })
        }
        InstructionBody::QM31AssertEq(_) | InstructionBody::Blake2sCompress(_) => Err(()),
    }
}

fn to_mr(v: &Val) -> MaybeRelocatable {
    match v {
        Val::Int(f) => MaybeRelocatable::Int(*f),
        Val::Ptr(s, o) => MaybeRelocatable::RelocatableValue(Relocatable { segment_index: *s, offset: *o }),
    }
}
fn from_mr(v: &MaybeRelocatable) -> Val {
    match v {
        MaybeRelocatable::Int(f) => Val::Int(*f),
        MaybeRelocatable::RelocatableValue(r) => Val::Ptr(r.segment_index, r.offset),
    }
}

/// Runs one real VM step from `st` over the encoded instruction.
fn vm_step(st: &State, words: &[BigInt]) -> Result<Effect, String> {
    let mut vm = VirtualMachine::new(false, false);
    for _ in 0..3 {
        vm.add_memory_segment();
    }
    // program segment: the instruction at PC0 (cells before it are irrelevant)
    for (i, w) in words.iter().enumerate() {
        vm.insert_value(Relocatable { segment_index: 0, offset: st.pc + i }, MaybeRelocatable::Int(felt_of(w))).map_err(|e| format!("load: {e}"))?;
    }
    for (a, v) in &st.mem {
        vm.insert_value(Relocatable { segment_index: a.0, offset: a.1 }, to_mr(v)).map_err(|e| format!("prefill {a:?}: {e}"))?;
    }
    vm.set_pc(Relocatable { segment_index: 0, offset: st.pc });
    vm.set_ap(st.ap);
    vm.set_fp(st.fp);
    vm.step_instruction().map_err(|e| format!("{e}"))?;
    // memory writes: every cell the model could have written or the VM did write near the registers
    let mut writes = vec![];
    let mut probe: Vec<(isize, usize)> = vec![(1, st.ap), (1, st.ap + 1)];
    for off in -3i64..=3 {
        probe.push((1, (st.ap as i64 + off) as usize));
        probe.push((1, (st.fp as i64 + off) as usize));
    }
    // plus all addresses within the instruction's reach that were unknown before
    for a in st.mem.keys() {
        probe.push(*a);
    }
    probe.extend(EXTRA_PROBES.with(|p| p.borrow().clone()));
    probe.sort();
    probe.dedup();
    for a in probe {
        if st.mem.contains_key(&a) {
            continue;
        }
        if let Some(v) = vm.get_maybe(&Relocatable { segment_index: a.0, offset: a.1 }) {
            writes.push((a, from_mr(&v)));
        }
    }
    let pc = vm.get_pc();
    Ok(Effect { pc: (pc.segment_index, pc.offset), ap: vm.get_ap().offset, fp: vm.get_fp().offset, writes })
}

thread_local! {
    static EXTRA_PROBES: std::cell::RefCell<Vec<(isize, usize)>> = const { std::cell::RefCell::new(vec![]) };
}

fn offsets(tier: Tier) -> Vec<i16> {
    match tier {
        Tier::Quick => vec![-32768, -2, -1, 0, 1, 32767],
        Tier::Thorough => vec![-32768, -32767, -2, -1, 0, 1, 2, 32766, 32767],
    }
}
fn immediates(tier: Tier) -> Vec<BigInt> {
    let two = BigInt::from(2);
    let p: BigInt = Felt::prime().to_string().parse().unwrap();
    let mut v = vec![BigInt::from(0), BigInt::from(1), BigInt::from(-1), BigInt::from(2), two.pow(15), two.pow(64), two.pow(128), &p - 1];
    if tier == Tier::Thorough {
        v.extend([two.pow(16), two.pow(63), (&p - 1) / 2, -two.pow(127), BigInt::from(7), two.pow(250)]);
    }
    v
}

fn cells(tier: Tier) -> Vec<CellRef> {
    let mut v = vec![];
    for register in [Register::AP, Register::FP] {
        for offset in offsets(tier) {
            v.push(CellRef { register, offset });
        }
    }
    v
}

fn res_operands(tier: Tier) -> Vec<ResOperand> {
    let mut v = vec![];
    let cs = cells(tier);
    for c in &cs {
        v.push(ResOperand::Deref(*c));
    }
    for c in &cs {
        for o in offsets(tier) {
            v.push(ResOperand::DoubleDeref(*c, o));
        }
    }
    for i in immediates(tier) {
        v.push(ResOperand::Immediate(i.into()));
    }
    // BinOp: a over all cells; b over a reduced set of cells and all immediates
    let bcells: Vec<CellRef> = cs.iter().filter(|c| [-32768i16, -1, 0, 32767].contains(&c.offset)).cloned().collect();
    for op in [Operation::Add, Operation::Mul] {
        for a in &cs {
            for b in &bcells {
                v.push(ResOperand::BinOp(BinOpOperand { op: op.clone(), a: *a, b: DerefOrImmediate::Deref(*b) }));
            }
            for i in immediates(tier) {
                v.push(ResOperand::BinOp(BinOpOperand { op: op.clone(), a: *a, b: DerefOrImmediate::Immediate(i.into()) }));
            }
        }
    }
    v
}

fn doi(tier: Tier) -> Vec<DerefOrImmediate> {
    let mut v: Vec<DerefOrImmediate> = cells(tier).into_iter().map(DerefOrImmediate::Deref).collect();
    v.extend(immediates(tier).into_iter().map(|i| DerefOrImmediate::Immediate(i.into())));
    v
}

/// All instruction shapes, grouped in chunks by a generator index so shards can split them.
fn instruction_groups(tier: Tier) -> Vec<(String, Vec<Instruction>)> {
    let mut g = vec![];
    let ros = res_operands(tier);
    let cs = cells(tier);
    // assert_eq: a over cells, b over res operands, inc_ap both
    for (ai, a) in cs.iter().enumerate() {
        let mut v = vec![];
        for b in &ros {
            for inc in [false, true] {
                v.push(Instruction::new(InstructionBody::AssertEq(AssertEqInstruction { a: *a, b: b.clone() }), inc));
            }
        }
        g.push((format!("assert_eq/dst#{ai}"), v));
    }
    let mut v = vec![];
    for b in &ros {
        v.push(Instruction::new(InstructionBody::AddAp(AddApInstruction { operand: b.clone() }), false));
    }
    g.push(("add_ap".into(), v));
    let mut v = vec![];
    for t in doi(tier) {
        for relative in [true, false] {
            for inc in [false, true] {
                v.push(Instruction::new(InstructionBody::Jump(JumpInstruction { target: t.clone(), relative }), inc));
            }
            v.push(Instruction::new(InstructionBody::Call(CallInstruction { target: t.clone(), relative }), false));
        }
    }
    v.push(Instruction::new(InstructionBody::Ret(RetInstruction {}), false));
    g.push(("jump_call_ret".into(), v));
    for (ci, c) in cs.iter().enumerate() {
        let mut v = vec![];
        for t in doi(tier) {
            for inc in [false, true] {
                v.push(Instruction::new(InstructionBody::Jnz(JnzInstruction { jump_offset: t.clone(), condition: *c }), inc));
            }
        }
        g.push((format!("jnz/cond#{ci}"), v));
    }
    // QM31 and blake: encoding/decoding/size only
    let mut v = vec![];
    for a in cs.iter().step_by(3) {
        // the toolchain only emits QM31 assertions over binary operations (qm31 add/sub/mul/div libfuncs)
        for b in ros.iter().filter(|b| matches!(b, ResOperand::BinOp(_))).step_by(7) {
            v.push(Instruction::new(InstructionBody::QM31AssertEq(AssertEqInstruction { a: *a, b: b.clone() }), false));
        }
        for m in cs.iter().step_by(4) {
            for finalize in [false, true] {
                v.push(Instruction::new(InstructionBody::Blake2sCompress(Blake2sCompressInstruction { state: *a, byte_count: *m, message: *a, finalize }), true));
            }
        }
    }
    // blake2s: every assignment of registers to (state, byte_count, message) x boundary offsets x finalize
    for (rs, rb, rm) in itertools::iproduct!([Register::AP, Register::FP], [Register::AP, Register::FP], [Register::AP, Register::FP]) {
        for (os, ob, om) in [(-5i16, -2i16, -1i16), (0, 1, 2), (-32768, 32767, -1), (32767, -32768, 0), (-1, -1, -1)] {
            for finalize in [false, true] {
                v.push(Instruction::new(
                    InstructionBody::Blake2sCompress(Blake2sCompressInstruction { state: CellRef { register: rs, offset: os }, byte_count: CellRef { register: rb, offset: ob }, message: CellRef { register: rm, offset: om }, finalize }),
                    true,
                ));
            }
        }
    }
    {
    }
    g.push(("qm31_blake(decode only)".into(), v));
    if tier == Tier::Thorough {
        // the full 16-bit range of every offset field, one field at a time (the others fixed)
        use cairo_lang_casm::operand::{BinOpOperand, Operation};
        let fixed = CellRef { register: Register::FP, offset: 1 };
        let fixed0 = CellRef { register: Register::AP, offset: 0 };
        for register in [Register::AP, Register::FP] {
            let rn = if register == Register::AP { "ap" } else { "fp" };
            let mut fam: Vec<(String, Vec<Instruction>)> = vec![
                (format!("sweep/assert_eq.dst[{rn}]"), vec![]),
                (format!("sweep/assert_eq.deref[{rn}]"), vec![]),
                (format!("sweep/assert_eq.doublederef.base[{rn}]"), vec![]),
                (format!("sweep/assert_eq.doublederef.inner[{rn}]"), vec![]),
                (format!("sweep/assert_eq.add.a[{rn}]"), vec![]),
                (format!("sweep/assert_eq.mul.b[{rn}]"), vec![]),
                (format!("sweep/jnz.cond[{rn}]"), vec![]),
                (format!("sweep/jump_rel.deref[{rn}]"), vec![]),
                (format!("sweep/call_abs.deref[{rn}]"), vec![]),
                (format!("sweep/add_ap.deref[{rn}]"), vec![]),
            ];
            for x in i16::MIN..=i16::MAX {
                let c = CellRef { register, offset: x };
                let inc = x & 1 == 0;
                fam[0].1.push(Instruction::new(InstructionBody::AssertEq(AssertEqInstruction { a: c, b: ResOperand::Deref(fixed) }), inc));
                fam[1].1.push(Instruction::new(InstructionBody::AssertEq(AssertEqInstruction { a: fixed0, b: ResOperand::Deref(c) }), inc));
                fam[2].1.push(Instruction::new(InstructionBody::AssertEq(AssertEqInstruction { a: fixed0, b: ResOperand::DoubleDeref(c, 1) }), inc));
                fam[3].1.push(Instruction::new(InstructionBody::AssertEq(AssertEqInstruction { a: fixed0, b: ResOperand::DoubleDeref(fixed, x) }), inc));
                fam[4].1.push(Instruction::new(InstructionBody::AssertEq(AssertEqInstruction { a: fixed0, b: ResOperand::BinOp(BinOpOperand { op: Operation::Add, a: c, b: DerefOrImmediate::Deref(fixed) }) }), inc));
                fam[5].1.push(Instruction::new(InstructionBody::AssertEq(AssertEqInstruction { a: fixed0, b: ResOperand::BinOp(BinOpOperand { op: Operation::Mul, a: fixed, b: DerefOrImmediate::Deref(c) }) }), inc));
                fam[6].1.push(Instruction::new(InstructionBody::Jnz(JnzInstruction { jump_offset: DerefOrImmediate::Immediate(BigInt::from(5).into()), condition: c }), inc));
                fam[7].1.push(Instruction::new(InstructionBody::Jump(JumpInstruction { target: DerefOrImmediate::Deref(c), relative: true }), inc));
                fam[8].1.push(Instruction::new(InstructionBody::Call(CallInstruction { target: DerefOrImmediate::Deref(c), relative: false }), false));
                fam[9].1.push(Instruction::new(InstructionBody::AddAp(AddApInstruction { operand: ResOperand::Deref(c) }), false));
            }
            g.extend(fam);
        }
    }
    g
}

/// Cells the instruction reads, with the kind of value it needs there.
#[derive(Clone, Copy, PartialEq)]
enum Need {
    Felt,
    DataPtr,
    CodePtr,
    FramePtr,
}

fn needs(ins: &Instruction, ap: usize, fp: usize) -> Vec<((isize, usize), Need)> {
    let mut v = vec![];
    let cell = |c: &CellRef| addr(ap, fp, c);
    let mut res = |op: &ResOperand, v: &mut Vec<((isize, usize), Need)>, value_kind: Need| match op {
        ResOperand::Deref(c) => v.push((cell(c), value_kind)),
        ResOperand::DoubleDeref(c, off) => {
            v.push((cell(c), Need::DataPtr));
            v.push(((DATA_SEG, (DATA_OFF as i64 + *off as i64) as usize), value_kind));
        }
        ResOperand::Immediate(_) => {}
        ResOperand::BinOp(b) => {
            v.push((cell(&b.a), Need::Felt));
            if let DerefOrImmediate::Deref(c) = &b.b {
                v.push((cell(c), Need::Felt));
            }
        }
    };
    match &ins.body {
        InstructionBody::AssertEq(a) | InstructionBody::QM31AssertEq(a) => res(&a.b, &mut v, Need::Felt),
        InstructionBody::AddAp(a) => res(&a.operand, &mut v, Need::Felt),
        InstructionBody::Jump(j) => res(&ResOperand::from(j.target.clone()), &mut v, if j.relative { Need::Felt } else { Need::CodePtr }),
        InstructionBody::Call(c) => res(&ResOperand::from(c.target.clone()), &mut v, if c.relative { Need::Felt } else { Need::CodePtr }),
        InstructionBody::Jnz(j) => {
            v.push((cell(&j.condition), Need::Felt));
            res(&ResOperand::from(j.jump_offset.clone()), &mut v, Need::Felt);
        }
        InstructionBody::Ret(_) => {
            v.push(((1, fp - 1), Need::CodePtr));
            v.push(((1, fp - 2), Need::FramePtr));
        }
        InstructionBody::Blake2sCompress(_) => {}
    }
    v
}

fn run(ctx: &mut Ctx) {
    let tier = ctx.tier;
    for (gname, instrs) in instruction_groups(tier) {
        for (ci, chunk) in instrs.chunks(2000).enumerate() {
            ctx.case(
                || json!({"group": gname, "chunk": ci}),
                |ctx| {
                    for (k, ins) in chunk.iter().enumerate() {
                        let text = ins.to_string();
                        if !ctx.sub(|| json!({"instruction": text})) {
                            continue;
                        }
                        ctx.count("shapes", 1);
                        ctx.distinct(&text);
                        if k == 11 {
                            ctx.sample(|| json!({"instruction": text}));
                        }
                        // (iii) size, (i) decoding
                        let enc = match guarded(|| ins.assemble().encode()) {
                            Ok(e) => e,
                            Err((loc, msg)) => {
                                ctx.violation(panic_sig(&loc, &msg), format!("assemble/encode panicked on a constructible instruction: {msg}"), json!({"instruction": text}));
                                continue;
                            }
                        };
                        if enc.len() != ins.body.op_size() {
                            ctx.violation("size-mismatch", format!("encode() yields {} words, op_size() says {}", enc.len(), ins.body.op_size()), json!({"instruction": text}));
                        }
                        let Some(w0) = enc[0].to_u128() else {
                            ctx.violation("first-word-not-u128", "the instruction word does not fit 128 bits", json!({"instruction": text}));
                            continue;
                        };
                        let dec = match decode_instruction(w0) {
                            Ok(d) => d,
                            Err(e) => {
                                ctx.violation("vm-cannot-decode", format!("cairo-vm refuses to decode the assembled word: {e}"), json!({"instruction": text}));
                                continue;
                            }
                        };
                        if dec.size() != enc.len() {
                            ctx.violation("decoded-size-mismatch", format!("VM sees a {}-word instruction, toolchain emitted {}", dec.size(), enc.len()), json!({"instruction": text}));
                        }
                        if matches!(ins.body, InstructionBody::QM31AssertEq(_) | InstructionBody::Blake2sCompress(_)) {
                            // no reference step for these: the decoded fields are compared with what the
                            // instruction denotes (which operand is dst / op0 / op1, registers, offsets, extension)
                            use cairo_vm::types::instruction::{ApUpdate, Op1Addr, OpcodeExtension, Register as VmReg, Res};
                            ctx.count("evaluations", 1);
                            let vreg = |r: Register| if r == Register::AP { VmReg::AP } else { VmReg::FP };
                            let op1reg = |r: Register| if r == Register::AP { Op1Addr::AP } else { Op1Addr::FP };
                            let mut wrong: Vec<String> = vec![];
                            let mut expect = |what: &str, ok: bool, got: String| {
                                if !ok {
                                    wrong.push(format!("{what} (decoded {got})"));
                                }
                            };
                            match &ins.body {
                                InstructionBody::Blake2sCompress(b) => {
                                    expect("dst is byte_count: register", dec.dst_register == vreg(b.byte_count.register), format!("{:?}", dec.dst_register));
                                    expect("dst is byte_count: offset", dec.off0 == b.byte_count.offset as isize, dec.off0.to_string());
                                    expect("op0 is state: register", dec.op0_register == vreg(b.state.register), format!("{:?}", dec.op0_register));
                                    expect("op0 is state: offset", dec.off1 == b.state.offset as isize, dec.off1.to_string());
                                    expect("op1 is message: register", dec.op1_addr == op1reg(b.message.register), format!("{:?}", dec.op1_addr));
                                    expect("op1 is message: offset", dec.off2 == b.message.offset as isize, dec.off2.to_string());
                                    expect("extension", dec.opcode_extension == if b.finalize { OpcodeExtension::BlakeFinalize } else { OpcodeExtension::Blake }, format!("{:?}", dec.opcode_extension));
                                    expect("ap++", (dec.ap_update == ApUpdate::Add1) == ins.inc_ap, format!("{:?}", dec.ap_update));
                                }
                                InstructionBody::QM31AssertEq(q) => {
                                    expect("dst register", dec.dst_register == vreg(q.a.register), format!("{:?}", dec.dst_register));
                                    expect("dst offset", dec.off0 == q.a.offset as isize, dec.off0.to_string());
                                    expect("extension", dec.opcode_extension == OpcodeExtension::QM31Operation, format!("{:?}", dec.opcode_extension));
                                    if let ResOperand::BinOp(bo) = &q.b {
                                        expect("op0 register", dec.op0_register == vreg(bo.a.register), format!("{:?}", dec.op0_register));
                                        expect("op0 offset", dec.off1 == bo.a.offset as isize, dec.off1.to_string());
                                        expect("res", dec.res == if bo.op == Operation::Add { Res::Add } else { Res::Mul }, format!("{:?}", dec.res));
                                        match &bo.b {
                                            DerefOrImmediate::Deref(c) => {
                                                expect("op1 register", dec.op1_addr == op1reg(c.register), format!("{:?}", dec.op1_addr));
                                                expect("op1 offset", dec.off2 == c.offset as isize, dec.off2.to_string());
                                            }
                                            DerefOrImmediate::Immediate(_) => expect("op1 immediate", dec.op1_addr == Op1Addr::Imm && dec.off2 == 1, format!("{:?}/{}", dec.op1_addr, dec.off2)),
                                        }
                                    }
                                }
                                _ => {}
                            }
                            if wrong.is_empty() {
                                ctx.outcome("decoded-fields-match");
                            } else {
                                let kind = if matches!(ins.body, InstructionBody::Blake2sCompress(_)) { "blake2s" } else { "qm31" };
                                ctx.violation(format!("decoded-fields-differ:{kind}"), format!("the VM decodes `{text}` with {}", wrong.join("; ")), json!({"instruction": text}));
                            }
                            continue;
                        }
                        // (ii) one VM step from each prepared machine state
                        for (sname, ap_delta, dst_mode) in [("ap=fp", 0usize, 0u8), ("ap=fp+5", 5, 0), ("dst-unknown", 3, 1), ("dst-different", 3, 2)] {
                            if dst_mode != 0 && !matches!(ins.body, InstructionBody::AssertEq(_)) {
                                continue;
                            }
                            let (ap, fp) = (FP0 + ap_delta, FP0);
                            let mut mem: Mem = BTreeMap::new();
                            let mut conflict = false;
                            for (i, (a, need)) in needs(ins, ap, fp).into_iter().enumerate() {
                                let v = match need {
                                    Need::Felt => Val::Int(Felt::from(1000 + 7 * i as u64)),
                                    Need::DataPtr => Val::Ptr(DATA_SEG, DATA_OFF),
                                    Need::CodePtr => Val::Ptr(0, 777),
                                    Need::FramePtr => Val::Ptr(1, 12345),
                                };
                                match mem.get(&a) {
                                    Some(old) if std::mem::discriminant(old) != std::mem::discriminant(&v) || matches!((old, &v), (Val::Ptr(s1, _), Val::Ptr(s2, _)) if s1 != s2) => conflict = true,
                                    Some(_) => {}
                                    None => {
                                        mem.insert(a, v);
                                    }
                                }
                            }
                            if conflict {
                                ctx.count("states_skipped_aliasing_conflict", 1);
                                continue;
                            }
                            // every real frame holds the caller's fp and the return pc below fp
                            mem.entry((1, fp - 1)).or_insert(Val::Ptr(0, 777));
                            mem.entry((1, fp - 2)).or_insert(Val::Ptr(1, 12345));
                            let mut st = State { pc: PC0, ap, fp, mem };
                            if let InstructionBody::AssertEq(a) = &ins.body {
                                let da = addr(ap, fp, &a.a);
                                EXTRA_PROBES.with(|p| *p.borrow_mut() = vec![da]);
                                match dst_mode {
                                    0 => {
                                        // dst known and consistent, unless it aliases an operand cell
                                        if !st.mem.contains_key(&da) {
                                            if let Some(r) = eval(&st, &a.b) {
                                                st.mem.insert(da, r);
                                            }
                                        }
                                    }
                                    1 => {
                                        if st.mem.contains_key(&da) {
                                            continue;
                                        }
                                    }
                                    _ => {
                                        if st.mem.contains_key(&da) {
                                            continue;
                                        }
                                        st.mem.insert(da, Val::Int(Felt::from(999_999u64)));
                                    }
                                }
                            } else {
                                EXTRA_PROBES.with(|p| p.borrow_mut().clear());
                            }
                            ctx.count("evaluations", 1);
                            let expected = reference_step(&st, ins);
                            let actual = match guarded(|| vm_step(&st, &enc)) {
                                Ok(a) => a,
                                Err((loc, msg)) => {
                                    ctx.violation(panic_sig(&loc, &msg), format!("VM step panicked: {msg}"), json!({"instruction": text, "state": sname}));
                                    continue;
                                }
                            };
                            match (&expected, &actual) {
                                (Ok(e), Ok(a)) => {
                                    let mut ew = e.writes.clone();
                                    ew.sort_by_key(|w| w.0);
                                    let mut aw = a.writes.clone();
                                    aw.sort_by_key(|w| w.0);
                                    if e.pc != a.pc || e.ap != a.ap || e.fp != a.fp || ew != aw {
                                        let what = if e.pc != a.pc { "pc" } else if e.ap != a.ap { "ap" } else if e.fp != a.fp { "fp" } else { "memory" };
                                        ctx.violation(
                                            format!("step-differs:{}:{what}", gname.split('/').next().unwrap_or("")),
                                            format!("VM step differs from the instruction's meaning ({what}): expected {e:?}, VM did {a:?}"),
                                            json!({"instruction": text, "state": sname, "words": enc.iter().map(|w| w.to_string()).collect::<Vec<_>>()}),
                                        );
                                    }
                                    ctx.outcome("both-ok");
                                }
                                (Err(()), Err(_)) => ctx.outcome("both-fail"),
                                (Ok(e), Err(err)) => {
                                    ctx.outcome("vm-fails-but-must-succeed");
                                    ctx.violation(
                                        format!("step-fails-but-must-succeed:{}", gname.split('/').next().unwrap_or("")),
                                        format!("the instruction is satisfiable in this state (expected {e:?}) but the VM fails: {}", err.chars().take(200).collect::<String>()),
                                        json!({"instruction": text, "state": sname, "words": enc.iter().map(|w| w.to_string()).collect::<Vec<_>>()}),
                                    );
                                }
                                (Err(()), Ok(a)) => {
                                    ctx.violation(
                                        format!("step-succeeds-but-must-fail:{}", gname.split('/').next().unwrap_or("")),
                                        format!("the instruction cannot hold in this state but the VM stepped to {a:?}"),
                                        json!({"instruction": text, "state": sname}),
                                    );
                                }
                            }
                        }
                    }
                },
            );
        }
    }
}

pub static C16: CheckDef = CheckDef {
    id: "C16",
    level: "exploration",
    rule: "Complete enumeration of instruction shapes accepted by Instruction::assemble: AssertEq x dst cell x ResOperand {Deref, DoubleDeref, Immediate, BinOp{Add,Mul} x {Deref,Immediate}} x inc_ap; AddAp x ResOperand; Jump/Call x {rel,abs} x {Deref,Immediate} (x inc_ap for jumps); Jnz x condition cell x {Deref,Immediate} x inc_ap; Ret; QM31AssertEq and Blake2sCompress (size, and every decoded field - which operand is dst / op0 / op1, registers, offsets, result logic, opcode extension, ap++ - against what the instruction denotes; blake2s over every assignment of registers to (state, byte_count, message) x 5 offset triples x finalize). Registers {ap,fp} x offsets {-32768,-2,-1,0,1,32767} (thorough adds -32767,2,32766) in every offset field; thorough additionally sweeps the FULL 16-bit range (all 65 536 values) of each offset field in turn - destination, dereferenced operand, double-deref base and inner offset, either BinOp operand, jnz condition, jump/call target, add_ap operand - for both registers (1.3 M further instructions); immediates {0,1,-1,2,2^15,2^64,2^128,P-1} (thorough adds 2^16,2^63,(P-1)/2,-2^127,7,2^250). For each shape x machine state {ap=fp, ap=fp+5, dst unknown (deduction), dst known-different (must fail)}: cairo-vm decodes the assembled word, decoded size == encode().len() == op_size(), and ONE real VirtualMachine::step_instruction from the prepared state yields exactly the pc/ap/fp and memory writes (or the failure) of a reference step written from the instruction's meaning. distinct_nontrivial = distinct instruction texts.",
    assumptions: &["cairo-vm 3.2.0 is the execution semantics of bytecode (the assembler is checked against it)", "operand cells hold felts except where the form needs a pointer (DoubleDeref base, abs jump/call target, ret frame); aliasing states with conflicting needs are skipped and counted"],
    run,
    stack_mb: 8,
    item_timeout_s: 300,
    wall_cap_s: (50, 900),
    shards: 0,
};
