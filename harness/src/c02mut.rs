//! C02 (b): accepted mutants of corpus Sierra — valid programs the Cairo front end never produces.

use std::collections::HashSet;

use cairo_lang_sierra::ids::GenericLibfuncId;
use cairo_lang_starknet_classes::allowed_libfuncs::{BUILTIN_AUDITED_LIBFUNCS_LIST, ListSelector, lookup_allowed_libfuncs_list};
use serde_json::json;

use crate::c14::{Stage, mut_cfg, pipeline};
use crate::core::{Ctx, Tier, guarded};
use crate::exec::*;
use crate::pipe::*;
use crate::sierra::{Mutation, apply, corpus, mutations};

pub fn run(ctx: &mut Ctx) {
    let tier = ctx.tier;
    let audited: HashSet<GenericLibfuncId> = lookup_allowed_libfuncs_list(ListSelector::ListName(BUILTIN_AUDITED_LIBFUNCS_LIST.into()))
        .expect("audited list")
        .allowed_libfuncs
        .into_keys()
        .collect();
    let progs = corpus(false);
    let (max_stmts, max_progs) = tier.pick((25usize, 150usize), (60, usize::MAX));
    let mon = Monitors { vm: true, gas: false, ap: false };
    let mut n = 0;
    for (name, p) in &progs {
        if p.statements.len() > max_stmts || p.funcs.is_empty() {
            continue;
        }
        if !p.libfunc_declarations.iter().all(|l| audited.contains(&l.long_id.generic_id)) {
            continue;
        }
        // only programs with at least one function whose user params are scalars
        if !p.funcs.iter().any(|f| input_vectors(p, f, true, 3, 16).is_some()) {
            continue;
        }
        n += 1;
        if n > max_progs {
            break;
        }
        let muts = mutations(p, &mut_cfg(tier, p.statements.len()));
        for (ci, chunk) in muts.chunks(300).enumerate() {
            ctx.case(
                || json!({"space":"accepted-mutants","program":name,"chunk":ci}),
                |ctx| {
                    for (k, m) in chunk.iter().enumerate() {
                        // declaration-level mutations may bring in unaudited libfuncs; statements/vars/branches cannot
                        if matches!(m, Mutation::GenericArgEdit(true, ..)) {
                            continue;
                        }
                        let q = apply(p, m);
                        let Ok(stage) = guarded(|| pipeline(&q, true)) else { continue };
                        ctx.count("mutants_tried", 1);
                        if stage != Stage::Ok {
                            continue;
                        }
                        ctx.count("mutants_accepted", 1);
                        let Ok(compiled) = make_runner(q.clone(), &Cfg::DEFAULT) else { continue };
                        for func in &q.funcs {
                            let Some(inputs) = input_vectors(&q, func, true, 3, 16) else { continue };
                            let required = compiled.runner.initial_required_gas(func).unwrap_or(0);
                            for args in &inputs {
                                for gas in [100_000_000usize, required + 100] {
                                    let case = || json!({"program":name,"mutation":m.describe(),"function":fname(func),"args":args_str(args),"gas":gas,"sierra":q.to_string()});
                                    if !ctx.sub(case) {
                                        continue;
                                    }
                                    ctx.distinct(&(name.as_str(), ci, k, fname(func), args_str(args), gas));
                                    if let Err((loc, msg)) = guarded(|| run_monitored(ctx, mon, &compiled, None, func, args, gas, &case)) {
                                        ctx.violation(crate::core::panic_sig(&loc, &msg), format!("runner panicked at {loc}: {msg}"), case());
                                    }
                                }
                            }
                        }
                    }
                },
            );
        }
    }
}
