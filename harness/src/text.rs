//! Text spaces shared by C09 / C10 / C11: token alphabet, bounded string enumerator, corpus loader,
//! single-point text mutation space, nesting families.

use std::path::{Path, PathBuf};

use cairo_lang_parser::utils::SimpleParserDatabase;
use cairo_lang_syntax::node::SyntaxNode;
use cairo_lang_syntax::node::kind::SyntaxKind;
use salsa::Database;

/// One representative per lexer class (DESIGN §2.8).
pub const SIGMA: &[&str] = &[
    "fn", "let", "match", "if", "else", "loop", "use", "mod", "struct", "enum", "impl", "trait", "of", "ref",
    "mut", "return", "pub", "const", "type", "extern", "as", "while", "for", "in", "break", "true", "f", "x", "_", "1", "0x", "1_u8", "'c'", "\"s", "\"s\"", "(", ")", "{", "}", "[", "]",
    "::", ":", ";", ",", ".", "..", "=>", "->", "=", "==", "+", "-", "*", "!", "@", "&", "&&", "|", "?", "#",
    "<", ">", "//c\n", "\n", "\u{c}", "é", "'", "$",
];
/// Syntactic contexts a token string is placed in (`$` is replaced by the string): most recovery paths of the
/// parser are only reachable inside a particular construct.
pub const CONTEXTS: &[(&str, &str)] = &[
    ("module", "$"),
    ("fn-body", "fn f() { $ }"),
    ("struct-body", "struct A { $ }"),
    ("enum-body", "enum A { $ }"),
    ("trait-body", "trait T { $ }"),
    ("impl-body", "impl I of T { $ }"),
    ("fn-params", "fn f($) {}"),
    ("generic-params", "fn f<$>() {}"),
    ("closure-params", "fn f() { let c = |$| 1; }"),
    ("match-arms", "fn f() { match x { $ } }"),
    ("call-args", "fn f() { g($); }"),
    ("struct-ctor", "fn f() { A { $ }; }"),
    ("use-tree", "use a::{$};"),
    ("attribute", "#[a($)]\nfn f() {}"),
    ("let-pattern", "fn f() { let $ = x; }"),
    ("type-position", "fn f(a: $) {}"),
    ("macro-rule", "macro m { ($) => { $ }; }"),
];

/// Reduced alphabet for the deeper bound.
pub const SIGMA2: &[&str] =
    &["fn", "f", "(", ")", "{", "}", "<", ">", "::", ";", ",", "let", "=", "1", "#", "[", "]", "\"s", "//c\n", "impl"];
/// Replacement alphabet for single-token mutation of corpus files.
pub const SIGMA_MUT: &[&str] = &["(", ")", "{", "}", "[", "]", ";", ",", "::", "fn", "\"", "<"];

pub fn walk_cairo_files(dir: &Path, out: &mut Vec<PathBuf>) {
    let Ok(rd) = std::fs::read_dir(dir) else { return };
    let mut entries: Vec<PathBuf> = rd.filter_map(|e| e.ok().map(|e| e.path())).collect();
    entries.sort();
    for p in entries {
        if p.is_dir() {
            let n = p.file_name().unwrap().to_string_lossy().to_string();
            if n != "target" && n != ".git" {
                walk_cairo_files(&p, out);
            }
        } else if p.extension().map(|x| x == "cairo").unwrap_or(false) {
            out.push(p);
        }
    }
}

/// CAIRO-FILES corpus: (path relative to /repo, content), sorted by (size, path).
pub fn cairo_corpus() -> Vec<(String, String)> {
    let mut files = vec![];
    for d in ["corelib", "examples", "tests", "crates"] {
        walk_cairo_files(&Path::new("/repo").join(d), &mut files);
    }
    let mut out: Vec<(String, String)> = files
        .into_iter()
        .filter_map(|p| {
            let s = std::fs::read_to_string(&p).ok()?;
            Some((p.strip_prefix("/repo").unwrap().to_string_lossy().trim_start_matches('/').to_string(), s))
        })
        .collect();
    out.sort_by(|a, b| (a.1.len(), &a.0).cmp(&(b.1.len(), &b.0)));
    out
}

/// Byte ranges of the tokens (terminals' token text, no trivia) of a parsed text, plus comment trivia.
pub fn token_ranges(db: &dyn Database, root: SyntaxNode<'_>) -> Vec<(usize, usize, SyntaxKind)> {
    let mut out = vec![];
    let mut stack = vec![root];
    while let Some(n) = stack.pop() {
        let ch = n.get_children(db);
        if ch.is_empty() {
            let sp = n.span(db);
            let (s, e) = (sp.start.as_u32() as usize, sp.end.as_u32() as usize);
            let k = n.kind(db);
            if e > s && !matches!(k, SyntaxKind::TokenWhitespace | SyntaxKind::TokenNewline) {
                out.push((s, e, k));
            }
        } else {
            for c in ch.iter().rev() {
                stack.push(*c);
            }
        }
    }
    out
}

/// The single-point text mutation space TXT(f) (DESIGN §2.8). Calls `f(kind, mutant)` for each.
pub fn text_mutants(src: &str, toks: &[(usize, usize, SyntaxKind)], truncate_all_chars: bool, mut f: impl FnMut(&str, String)) {
    // truncations
    if truncate_all_chars {
        for (i, _) in src.char_indices() {
            f("trunc", src[..i].to_string());
        }
    } else {
        for (s, e, _) in toks {
            f("trunc", src[..*s].to_string());
            f("trunc", src[..*e].to_string());
            if e - s > 1 && src.is_char_boundary(s + 1) {
                f("trunc", src[..s + 1].to_string());
            }
        }
    }
    for (i, (s, e, _)) in toks.iter().enumerate() {
        // delete
        f("del", format!("{}{}", &src[..*s], &src[*e..]));
        // duplicate
        f("dup", format!("{}{} {}", &src[..*e], "", &src[*s..]));
        // swap with next
        if let Some((s2, e2, _)) = toks.get(i + 1) {
            f("swap", format!("{}{}{}{}{}", &src[..*s], &src[*s2..*e2], &src[*e..*s2], &src[*s..*e], &src[*e2..]));
        }
        // replace
        for r in SIGMA_MUT {
            if &src[*s..*e] != *r {
                f("repl", format!("{}{}{}", &src[..*s], r, &src[*e..]));
            }
        }
    }
    // bracket-matched subtree delete / duplicate
    let mut stack: Vec<usize> = vec![];
    for (i, (_, _, k)) in toks.iter().enumerate() {
        match k {
            SyntaxKind::TokenLParen | SyntaxKind::TokenLBrace | SyntaxKind::TokenLBrack => stack.push(i),
            SyntaxKind::TokenRParen | SyntaxKind::TokenRBrace | SyntaxKind::TokenRBrack => {
                if let Some(o) = stack.pop() {
                    let (s, e) = (toks[o].0, toks[i].1);
                    f("subdel", format!("{}{}", &src[..s], &src[e..]));
                    f("subdup", format!("{}{}{}", &src[..e], &src[s..e], &src[e..]));
                }
            }
            _ => {}
        }
    }
}

/// Nesting families (C09c / C10c): (name, source at depth d).
pub fn nesting_families() -> Vec<(&'static str, fn(usize) -> String)> {
    fn wrap(open: &str, close: &str, core: &str, d: usize) -> String {
        format!("{}{}{}", open.repeat(d), core, close.repeat(d))
    }
    vec![
        ("paren", |d| format!("fn f() {{ let _x = {}; }}", wrap("(", ")", "1", d))),
        ("block", |d| format!("fn f() {{ let _x = {}; }}", wrap("{", "}", "1", d))),
        ("neg", |d| format!("fn f() {{ let _x = {}; }}", wrap("-", "", "1", d))),
        ("not", |d| format!("fn f() {{ let _x = {}; }}", wrap("!", "", "x", d))),
        ("snap", |d| format!("fn f() {{ let _x = {}; }}", wrap("@", "", "x", d))),
        ("bitnot", |d| format!("fn f() {{ let _x = {}; }}", wrap("~", "", "x", d))),
        ("array", |d| format!("fn f() {{ let _x = {}; }}", wrap("[", "]", "1", d))),
        ("tuple", |d| format!("fn f() {{ let _x = {}; }}", wrap("(", ",)", "1", d))),
        ("generic", |d| format!("fn f() -> {} {{ }}", wrap("A<", ">", "u8", d))),
        ("tupletype", |d| format!("fn f(a: {}) {{ }}", wrap("(", ",)", "u8", d))),
        ("ifelse", |d| format!("fn f() {{ let _x = {}; }}", wrap("if a { 1 } else ", "", "{ 2 }", d))),
        ("match", |d| format!("fn f() {{ {} }}", wrap("match a { _ => ", " }", "1", d))),
        ("closure", |d| format!("fn f() {{ let _x = {}; }}", wrap("|a| ", "", "1", d))),
        ("path", |d| format!("fn f() {{ let _x = {}; }}", wrap("a::", "", "b", d))),
        ("mod", |d| wrap("mod m { ", " }", "fn f() {}", d)),
        ("attrarg", |d| format!("#[a{}]\nfn f() {{}}", wrap("(b", ")", "", d))),
        ("macro", |d| format!("fn f() {{ m!{}; }}", wrap("(", ")", "1", d))),
        ("binop", |d| format!("fn f() {{ let _x = {}; }}", wrap("1 + ", "", "1", d))),
        ("field", |d| format!("fn f() {{ let _x = a{}; }}", ".b".repeat(d))),
        ("call", |d| format!("fn f() {{ let _x = {}; }}", wrap("g(", ")", "1", d))),
        ("index", |d| format!("fn f() {{ let _x = a{}; }}", "[0]".repeat(d))),
        ("question", |d| format!("fn f() {{ let _x = a{}; }}", "?".repeat(d))),
        ("pattern", |d| format!("fn f() {{ let {} = a; }}", wrap("(", ",)", "b", d))),
        ("loop", |d| format!("fn f() {{ {} }}", wrap("loop { ", " }", "break;", d))),
        ("usetree", |d| format!("use {};", wrap("a::{", "}", "b", d))),
    ]
}

pub fn new_db() -> SimpleParserDatabase {
    SimpleParserDatabase::default()
}

pub fn kind_name(k: SyntaxKind) -> String {
    format!("{k:?}")
}

/// Literal lexemes whose interpretation happens after lexing (semantic literal evaluation, plugins, formatter):
/// numerics with odd prefixes / suffixes / sizes, short strings and strings with every escape shape, terminated or
/// running to the end of the file.
pub const LITERALS: &[&str] = &[
    "0x", "0b2", "0o8", "1_", "1_u", "1_u7", "0xg", "1e5", "0_u8", "256_u8", "-1_u8", "0x1_felt252", "1_u256", "1__u8",
    "99999999999999999999999999999999999999999999999999999999999999999999999999999999", "3618502788666131213697322783095070105623107215331596699973092056135872020481",
    "''", "'", "'a", "'\\''", "'\\'", "'\\x4'", "'\\xzz'", "'\\x41'", "'abcdefghijklmnopqrstuvwxyzabcdefgh'", "'é'", "'\\u{1F600}'", "'a'_u8", "'a'_felt252", "'ab'_u8", "'\\n'", "'\\q'",
    "\"\"", "\"", "\"a", "\"\\\"", "\"\\\"x", "\"a\\\"b\"", "\"say \\\"hi", "\"\\x4\"", "\"\\xzz\"", "\"\\x41\"", "\"\\u{110000}\"", "\"\\u{}\"", "\"\\u{41}\"", "\"é\"", "\"\\", "\"\\\\", "\"\\\\\"",
    "\"a\"_suffix", "\"a\"b", "\"\\0\"", "\"a\nb\"", "\"\\q\"", "\"abcdefghijklmnopqrstuvwxyzabcdefghijklmnopqrstuvwxyz\"",
];
/// Positions in which a literal is evaluated; `$` is the literal.  Each is used both as written and cut right
/// after the literal (an unterminated literal swallows the rest of the file anyway).
pub const LITERAL_CONTEXTS: &[(&str, &str)] = &[
    ("const", "const C: felt252 = $;\n"),
    ("const-bytearray", "const S: ByteArray = $;\n"),
    ("let", "fn f() { let _x = $; }\n"),
    ("let-typed", "fn f() { let _x: u8 = $; }\n"),
    ("call-arg", "fn g(x: felt252) {}\nfn f() { g($); }\n"),
    ("macro-arg", "fn f(x: felt252) { assert!(x == 0, $); }\n"),
    ("format", "fn f(x: felt252) -> ByteArray { format!($, x) }\n"),
    ("pattern", "fn f(x: felt252) -> u8 { match x { $ => 1, _ => 2 } }\n"),
    ("attribute", "#[derive(Drop)]\n#[doc($)]\nstruct S {}\n"),
    ("feature-attr", "#[feature($)]\nfn f() {}\n"),
    ("array-len", "fn f() { let _a: [u8; $] = [1]; }\n"),
    ("binary", "fn f(a: u8) -> u8 { a + $ }\n"),
    ("panic-with", "#[panic_with($, bar)]\nfn foo(a: felt252) -> Option<felt252> { Option::Some(a) }\n"),
];
pub fn literal_texts() -> Vec<(String, String)> {
    let mut out = vec![];
    for l in LITERALS {
        for (cn, c) in LITERAL_CONTEXTS {
            let full = c.replace('$', l);
            out.push((format!("{cn}:{l}"), full));
            let cut = &c[..c.find('$').unwrap()];
            out.push((format!("{cn}:{l}:eof"), format!("{cut}{l}")));
        }
    }
    out
}
