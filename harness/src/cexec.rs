//! C02, C04, C05, C17 — all driven over the shared execution space (exec.rs).

use std::collections::BTreeMap;

use cairo_lang_runner::RunResultValue;
use cairo_lang_sierra::program::Program;
use serde_json::json;

use crate::core::{CheckDef, Ctx, Tier};
use crate::exec::*;
use crate::pipe::*;

/// The type whose cells `RunResultValue::Success` holds: the function's value type, or the success variant of
/// its PanicResult wrapper.
pub fn success_type(prog: &Program, func: &cairo_lang_sierra::program::Function) -> Option<cairo_lang_sierra::ids::ConcreteTypeId> {
    func.signature.ret_types.iter().rev().find(|t| !IMPLICITS.contains(&t.debug_name.as_ref().map(|s| s.as_str()).unwrap_or(""))).map(|t| {
        let d = prog.type_declarations.iter().find(|d| d.id == *t);
        match d.map(|d| &d.long_id.generic_args[..]) {
            Some([cairo_lang_sierra::program::GenericArg::UserType(ut), cairo_lang_sierra::program::GenericArg::Type(ok), _]) if ut.debug_name.as_ref().map(|n| n.starts_with("core::panics::PanicResult::")).unwrap_or(false) => ok.clone(),
            _ => t.clone(),
        }
    })
}

/// Address-free observable of a run result (None: not canonicalisable).
pub fn observable(prog: &Program, sizes: &cairo_lang_sierra_type_size::TypeSizeMap, func: &cairo_lang_sierra::program::Function, value: &RunResultValue, memory: &[Option<starknet_types_core::felt::Felt>]) -> Option<String> {
    match value {
        RunResultValue::Panic(d) => Some(format!("panic {:?}", felts_str(d))),
        RunResultValue::Success(vals) => {
            let rt = success_type(prog, func);
            match rt {
                None => Some(format!("ok {:?}", felts_str(vals))),
                Some(rt) => crate::canon::canon(prog, sizes, &rt, vals, memory, 0).map(|s| format!("ok {s}")),
            }
        }
    }
}

/// True when values of the type are plain data: no addresses (arrays, boxes, nullables, dicts), no builtin
/// pointers, no randomised state (EcState). Decided structurally from the type declarations, by allowlist.
pub fn pointer_free(p: &Program, t: &cairo_lang_sierra::ids::ConcreteTypeId, depth: usize) -> bool {
    if depth > 30 {
        return false;
    }
    let Some(d) = p.type_declarations.iter().find(|d| d.id == *t) else { return false };
    // a panicable function returns PanicResult<(T,)>: the runner dereferences the panic data itself, so only
    // the success variant's type decides whether the observable value is pointer-free
    if depth == 0 && d.long_id.generic_id.0 == "Enum" {
        if let [cairo_lang_sierra::program::GenericArg::UserType(ut), cairo_lang_sierra::program::GenericArg::Type(ok), _] = &d.long_id.generic_args[..] {
            if ut.debug_name.as_ref().map(|n| n.starts_with("core::panics::PanicResult::")).unwrap_or(false) {
                return pointer_free(p, ok, depth + 1);
            }
        }
    }
    const PLAIN: &[&str] = &[
        "felt252", "u8", "u16", "u32", "u64", "u128", "i8", "i16", "i32", "i64", "i128", "bytes31", "Struct", "Enum", "Snapshot", "NonZero", "BoundedInt", "EcPoint", "ContractAddress",
        "ClassHash", "StorageAddress", "StorageBaseAddress", "IntRange", "U128MulGuarantee",
    ];
    if !PLAIN.contains(&d.long_id.generic_id.0.as_str()) {
        return false;
    }
    d.long_id.generic_args.iter().all(|a| match a {
        cairo_lang_sierra::program::GenericArg::Type(x) => pointer_free(p, x, depth + 1),
        _ => true,
    })
}

#[derive(Clone, Copy, PartialEq)]
enum Mode {
    Vm,
    Gas,
    Ap,
    Diff,
}

const AMPLE: usize = 5_000_000;

fn cfgs_for(mode: Mode, tier: Tier) -> Vec<Cfg> {
    match (mode, tier) {
        (Mode::Diff, Tier::Quick) => Cfg::corners(),
        (Mode::Diff, Tier::Thorough) => Cfg::full(),
        (_, Tier::Quick) => vec![Cfg::DEFAULT, Cfg { linear: false, ..Cfg::DEFAULT }, Cfg::BASELINE],
        (_, Tier::Thorough) => {
            let mut v = Cfg::corners();
            v.push(Cfg { linear: false, ..Cfg::BASELINE });
            v.push(Cfg { add_withdraw_gas: false, ..Cfg::DEFAULT });
            v
        }
    }
}

fn run_mode(ctx: &mut Ctx, mode: Mode) {
    let tier = ctx.tier;
    let mut snips = snippets(tier);
    if mode == Mode::Diff {
        // the data-movement families of the C01 MiniCairo space (G3 producers x consumers, G5 liveness,
        // G6 member routing), here under the whole configuration lattice instead of C01's two corners
        for case in crate::c01::all_cases(tier) {
            if ["g3", "g5", "g6"].iter().any(|g| case.name.starts_with(g)) {
                snips.push(crate::exec::Snip { name: format!("mini:{}", case.name), code: case.source(), plain: None, sierra: None });
            }
        }
    }
    if mode != Mode::Diff {
        // raw libfunc instantiations over edge types (no front end): C02 only speaks about audited libfuncs
        snips.extend(crate::exec::inst_snippets(tier, mode == Mode::Vm));
    }
    let all_cfgs = cfgs_for(mode, tier);
    // A compiler database per front-end configuration costs ~100 MB; the 88-point lattice does not fit a worker's
    // address-space cap at once. It is explored in chunks of 8 configurations, each together with the baseline
    // configuration (first in the list); the databases of a chunk are dropped when the next chunk starts.
    let cfg_chunks: Vec<Vec<Cfg>> = if all_cfgs.len() > 12 {
        all_cfgs[1..].chunks(8).map(|c| std::iter::once(all_cfgs[0]).chain(c.iter().copied()).collect()).collect()
    } else {
        vec![all_cfgs.clone()]
    };
    let small = tier == Tier::Quick;
    let (max_params, max_vectors) = tier.pick((3usize, 64usize), (3, 400));
    for (chunk_i, cfgs) in cfg_chunks.iter().enumerate() {
    let mut dbs = Dbs::default();
    for snip in &snips {
        ctx.case(
            || json!({"space":"snippets","snippet":snip.name,"config_chunk":chunk_i}),
            |ctx| {
                ctx.count("snippets", 1);
                // results[function][input index] = value under the baseline configuration
                let mut baseline: BTreeMap<String, Vec<Option<String>>> = BTreeMap::new();
                let mut sierra_cache: Vec<(Cfg, Result<Program, String>)> = vec![];
                for (cfg_i, cfg) in cfgs.iter().enumerate() {
                    let prog = match sierra_cache.iter().find(|(c, _)| c.same_frontend(cfg)) {
                        Some((_, p)) => p.clone(),
                        None => {
                            let r = match crate::core::guarded(|| dbs.compile_snip(cfg, snip)) {
                                Ok(r) => r,
                                Err((loc, msg)) => {
                                    dbs.forget(cfg);
                                    Err(format!("panic at {loc}: {msg}"))
                                }
                            };
                            sierra_cache.push((*cfg, r.clone()));
                            r
                        }
                    };
                    let Ok(prog) = prog else {
                        ctx.count("snippet_cfg_not_compiled", 1);
                        continue;
                    };
                    // metadata/compile panics under the legacy solvers are C14's findings, not this check's
                    let compiled = match crate::core::guarded(|| make_runner(prog.clone(), cfg)) {
                        Ok(Ok(c)) => c,
                        Ok(Err(_)) => {
                            ctx.count("runner_build_failed", 1);
                            continue;
                        }
                        Err(_) => {
                            ctx.count("runner_build_panics_left_to_C14", 1);
                            continue;
                        }
                    };
                    let builder = if mode == Mode::Gas || mode == Mode::Ap { crate::core::guarded(|| make_builder(&prog, cfg).ok()).ok().flatten() } else { None };
                    if mode == Mode::Ap {
                        if let Some(b) = &builder {
                            check_statement_tiling(ctx, b, &|| json!({"snippet":snip.name,"cfg":cfg.name()}));
                        }
                    }
                    let mon = Monitors { vm: mode == Mode::Vm, gas: mode == Mode::Gas, ap: mode == Mode::Ap };
                    let sizes = if mode == Mode::Diff { cairo_lang_sierra_type_size::ProgramRegistryInfo::new(&prog).ok().map(|i| i.type_sizes().clone()) } else { None };
                    for func in &prog.funcs {
                        let name = fname(func);
                        if !name.starts_with("test::") {
                            continue;
                        }
                        // compiler-generated functions (loop bodies, closures: `test::f[38-114]`) take the captured
                        // variables as parameters in an order the configuration may change: the same argument
                        // vector is not the same input, so they are not compared across configurations
                        if mode == Mode::Diff && name.contains('[') {
                            continue;
                        }
                        let small_here = small && !snip.name.starts_with("hintx:");
                        let Some(inputs) = input_vectors(&prog, func, small_here, max_params, max_vectors) else {
                            if cfg_i == 0 && chunk_i == 0 {
                                ctx.count("functions_skipped_non_scalar_params", 1);
                                if std::env::var("VERIF_LIST_SKIPPED").is_ok() {
                                    eprintln!("SKIPPED {} {} {:?}", snip.name, name, user_params(func));
                                }
                            }
                            continue;
                        };
                        if cfg_i == 0 && chunk_i == 0 {
                            ctx.count("functions", 1);
                        }
                        let required = compiled.runner.initial_required_gas(func).unwrap_or(0);
                        let gases: Vec<usize> = match mode {
                            Mode::Vm | Mode::Gas => vec![AMPLE, required, required + 100, required + 1070, required + 5000],
                            _ => vec![AMPLE],
                        };
                        // results that hold pointers (boxes, arrays, dicts, nullables) are addresses, which
                        // legitimately differ between configurations: only pointer-free results are compared
                        let comparable = func.signature.ret_types.iter().all(|t| {
                            let n = t.debug_name.as_ref().map(|s| s.to_string()).unwrap_or_default();
                            IMPLICITS.contains(&n.as_str()) || pointer_free(&prog, t, 0)
                        });
                        // a program that reads the gas counter observes gas, which may legitimately differ
                        let gas_observing = prog.libfunc_declarations.iter().any(|l| ["get_unspent_gas", "get_available_gas"].contains(&l.long_id.generic_id.0.as_str()));
                        // the type whose cells RunResultValue::Success holds: the function's value type, or the
                        // success variant of its PanicResult wrapper
                        let ret_inner: Option<cairo_lang_sierra::ids::ConcreteTypeId> = func.signature.ret_types.iter().rev().find(|t| !IMPLICITS.contains(&t.debug_name.as_ref().map(|s| s.as_str()).unwrap_or(""))).map(|t| {
                            let d = prog.type_declarations.iter().find(|d| d.id == *t);
                            match d.map(|d| &d.long_id.generic_args[..]) {
                                Some([cairo_lang_sierra::program::GenericArg::UserType(ut), cairo_lang_sierra::program::GenericArg::Type(ok), _]) if ut.debug_name.as_ref().map(|n| n.starts_with("core::panics::PanicResult::")).unwrap_or(false) => ok.clone(),
                                _ => t.clone(),
                            }
                        });
                        if mode == Mode::Diff && cfg_i == 0 {
                            ctx.count(if comparable { "functions_with_pointer_free_result" } else { "functions_with_pointer_result_compared_after_deref" }, 1);
                        }
                        let base = baseline.entry(name.clone()).or_default();
                        for (ii, args) in inputs.iter().enumerate() {
                            for (gi, gas) in gases.iter().enumerate() {
                                let case = || json!({"snippet":snip.name,"cfg":cfg.name(),"function":name,"args":args_str(args),"gas":gas});
                                if !ctx.sub(case) {
                                    continue;
                                }
                                ctx.distinct(&(snip.name.as_str(), cfg.name(), name.as_str(), args_str(args), *gas));
                                if ii == 1 && gi == 0 && cfg_i == 0 {
                                    ctx.sample(case);
                                }
                                let v = match crate::core::guarded(|| run_monitored(ctx, mon, &compiled, builder.as_ref(), func, args, *gas, &case)) {
                                    Ok(v) => v,
                                    Err((loc, msg)) => {
                                        if mode == Mode::Vm {
                                            ctx.violation(crate::core::panic_sig(&loc, &msg), format!("runner panicked at {loc}: {msg}"), case());
                                        } else {
                                            ctx.count("runner_panics_left_to_C02", 1);
                                        }
                                        None
                                    }
                                };
                                if mode == Mode::Diff && gas_observing {
                                    continue;
                                }
                                if mode == Mode::Diff {
                                    // the observable: felts for pointer-free results, otherwise the value with every
                                    // array/box/nullable dereferenced through the final memory (addresses removed)
                                    let obs: Option<String> = match &v {
                                        None => None,
                                        Some(RunResultValue::Panic(d)) => Some(format!("panic {:?}", felts_str(d))),
                                        Some(RunResultValue::Success(vals)) => {
                                            if comparable {
                                                Some(format!("ok {:?}", felts_str(vals)))
                                            } else {
                                                let full = run(&compiled, func, args, Some(*gas)).1;
                                                match (&full, &sizes, &ret_inner) {
                                                    (Some(full), Some(sizes), Some(rt)) => crate::canon::canon(&prog, sizes, rt, vals, &full.memory, 0).map(|s| format!("ok {s}")),
                                                    _ => None,
                                                }
                                            }
                                        }
                                    };
                                    if obs.is_none() && v.is_some() {
                                        ctx.count("results_not_canonicalisable", 1);
                                    }
                                    if cfg_i == 0 && chunk_i == 0 {
                                        base.push(obs);
                                    } else if let (Some(Some(b)), Some(o)) = (base.get(ii), &obs) {
                                        ctx.count("differential_comparisons", 1);
                                        if !comparable {
                                            ctx.count("differential_comparisons_dereferenced", 1);
                                        }
                                        let oog = |x: &String| x.starts_with("panic") && x.contains("375233589013918064796019");
                                        if oog(b) || oog(o) {
                                            ctx.count("inconclusive_out_of_gas", 1);
                                        } else if b != o {
                                            ctx.violation(
                                                "result-depends-on-configuration",
                                                format!("{} vs {}: {} != {}", cfgs[0].name(), cfg.name(), b, o),
                                                json!({"snippet":snip.name,"function":name,"args":args_str(args),"baseline_cfg":cfgs[0].name(),"cfg":cfg.name(),"baseline":b,"value":o,"source":snip.code}),
                                            );
                                        }
                                    }
                                }
                            }
                        }
                    }
                }
            },
        );
    }
    }
}

fn run_c02(ctx: &mut Ctx) {
    run_mode(ctx, Mode::Vm);
    crate::c02mut::run(ctx);
    crate::divrem::run_relation(ctx, false);
    crate::bounded::run_lattice(ctx, false);
}
fn run_c04(ctx: &mut Ctx) {
    run_mode(ctx, Mode::Gas)
}
fn run_c17(ctx: &mut Ctx) {
    run_mode(ctx, Mode::Ap)
}
fn run_c05(ctx: &mut Ctx) {
    if std::env::var("VERIF_C05_CORELIB_ONLY").is_ok() {
        crate::c05corelib::run(ctx);
        return;
    }
    run_mode(ctx, Mode::Diff);
    if ctx.tier == Tier::Thorough {
        crate::c05corelib::run(ctx);
    }
}

const SPACE: &str = "Execution space: every `//! > cairo_code` snippet of tests/e2e_test_data (382) plus 24 hand-written programs (loops, recursion, locals across calls and merges, dicts, arrays, enums, early return, panics, closures, u256, signed, hashes), every function `test::*` whose user parameters are scalars (u8..u128, i8..i128, felt252, bool, u256; <=3 params), the full cross product of the boundary domains B(T) (quick: 4 values per parameter, <=64 vectors; thorough: 7-10 values, <=400 vectors); functions of two parameters of one integer type additionally get up to 16 result-directed pairs (a = q*b + r with q, r on boundaries; a +- b, a * b next to MIN / MAX). Parameters of structured types are generated too (arrays incl. two of length 6, structs, snapshots, NonZero, BoundedInt, bytes31, addresses) and functions taking boxes/options/results/nullables/dicts/user enums are reached through generated Cairo wrappers with scalar parameters. C02/C04/C17 additionally execute the C14 instantiation lattice: one Sierra function per accepted (libfunc, generic arguments) instantiation over edge types (~920 in quick) restricted to the allowed-libfuncs lists (C02: audited; C04/C17: all), on the same boundary inputs - no front end involved; instantiations taking boxes, nullables or enums are also executed through variants that build those values inside the function (into_box, nullable_from_box / null, enum_init of each of the first 3 variants) from a value the runner can pass";

pub static C02: CheckDef = CheckDef {
    id: "C02",
    level: "exploration",
    rule: "(a) Execution space x configurations {default, default+legacy metadata solvers, optimizations disabled (+3 corner configs and no-auto-withdraw-gas in thorough)} x gas budgets {ample, exactly the required entry gas, +100, +1070, +5000} so that out-of-gas is hit at several points. (b) accepted mutants: every single-point mutant (C14 operators) of small e2e Sierra programs that registry+metadata+compile accept and that only uses audited libfuncs, run on the boundary inputs. (c) the bounded_int_div_rem lattice (16 dividend ranges incl. perfect squares and their neighbours x 12 divisor ranges around the thresholds of the three verification schemes) on operand pairs derived from the instantiation: divisor and quotient each at the range ends, at floor(sqrt(max dividend)) +-1, at the divisor, at T = (P-1)/2^128 +-1, 2^64, 2^128 +-1, with remainders 0, 1, b-1; (d) the bounded-integer lattice of bounded.rs (downcast between 24 ranges in every relative position, constrain, trim, add / sub / mul). Oracle: the run returns Ok (value or Sierra-level panic); Err(CairoRunError) or a runner panic is the violation. distinct_nontrivial = distinct (program, config, function, args, gas) tuples executed.",
    assumptions: &["honest hints = the runner's CairoHintProcessor", "Starknet syscalls/cheatcodes are out of scope (not pure Sierra)", "argument-shape and not-enough-gas-to-call RunnerErrors are harness input errors, counted not judged"],
    run: run_c02,
    stack_mb: 16,
    item_timeout_s: 120,
    wall_cap_s: (50, 1500),
    shards: 0,
};

pub static C04: CheckDef = CheckDef {
    id: "C04",
    level: "exploration",
    rule: "Execution space x configurations {default(linear solvers), default+legacy solvers, optimizations disabled, ...} x gas {ample, required, +100, +1070, +5000}. Oracle per run (the property's formula): 100*steps + 70*range_checks + 56*range_check96s + sum_b price(b)*uses(b) <= (gas - gas_left) + 100, steps = trace entries between the entry-code header and footer (exactly the runner's n_steps convention, so compiler-appended routines such as circuit evaluation count), builtin uses from ExecutionResources, prices from the runner's token_gas_cost; functions without a gas counter are compared with the statically declared function cost; and steps <= gas/100 + 1. mins.gas_slack_min and counters.gas_tight_runs show the inequality is tight (slack 0 is reached), so one undercharged step on any executed path flips it.",
    assumptions: &["memory holes are not priced (the property's formula does not state them); range_check96 is priced 56 as in ConstCost::cost()", "trace from a second, raw run of the same deterministic program"],
    run: run_c04,
    stack_mb: 16,
    item_timeout_s: 120,
    wall_cap_s: (50, 1500),
    shards: 0,
};

pub static C17: CheckDef = CheckDef {
    id: "C17",
    level: "exploration",
    rule: "Execution space x configurations (both ap-change solvers) with ample gas. Monitor over the relocated trace: shadow call stack driven by the decoded call/ret instructions; for every dynamic call instance of a function with function_ap_change[f]=k: ap at the callee's ret minus ap at its first instruction == k; every trace pc inside the program lies in [start_offset,end_offset) of exactly one Sierra statement and on an instruction boundary; statically: statement ranges tile the code segment, instruction_idx agrees. counters.dynamic_calls_with_known_ap_change / trace_pcs_checked give the number of obligations checked.",
    assumptions: &["convention: ap movement of a call = ap at the callee's `ret` minus ap at the callee's first instruction (fixed on the unmodified tree)"],
    run: run_c17,
    stack_mb: 16,
    item_timeout_s: 120,
    wall_cap_s: (50, 1500),
    shards: 0,
};

pub static C05: CheckDef = CheckDef {
    id: "C05",
    level: "exploration",
    rule: "Execution space (plus the data-movement families G3, G5, G6 of the C01 MiniCairo space: producers x consumers, liveness subsets, every member routing of rebuilt tuples) with ample gas under every configuration of the lattice (quick: 6 corners {disabled, default, avoid-inlining, inline-all+match-threshold 1, inline-none+skip-const-folding+threshold 1000, legacy solvers+threshold 2}; thorough: the full product Optimizations{Disabled, Enabled x Inlining{Default,Avoid,Small(0|4|1000)} x skip_const_folding} x NumericMatchOptimizationMinArmsThreshold{unset,1,2,1000} x {linear,legacy metadata} = 88 configurations), each compared with Optimizations::Disabled. Oracle: identical RunResultValue (success felts or panic felts); an 'Out of gas' panic on either side is counted inconclusive. Programs that do not compile under a configuration are counted, not judged (C08).",
    assumptions: &["ample gas = 5*10^6 (50k steps; unbounded recursions end in Out of gas)", "the corelib-test verdict vectors are covered by the thorough tier only"],
    run: run_c05,
    stack_mb: 16,
    item_timeout_s: 1500,
    wall_cap_s: (55, 3000),
    shards: 0,
};

#[allow(dead_code)]
fn _doc() -> &'static str {
    SPACE
}
