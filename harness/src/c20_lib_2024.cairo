pub mod feats3 {
    // edition 2024_07 and experimental features only
    pub mod inner {
        pub fn gi(a: u8) -> u8 { a / 3 }
        #[derive(Copy, Drop)]
        pub struct GS { pub v: u8 }
        fn private_in_inner(a: u8) -> u8 { a }
        pub(crate) fn crate_in_inner(a: u8) -> u8 { a }
    }
    pub use inner::*;
    // negative impl: only for types that are not Copy
    pub trait Kind<T> { fn kind(self: @T) -> felt252; }
    pub impl KindNonCopy<T, -Copy<T>> of Kind<T> { fn kind(self: @T) -> felt252 { 'moved' } }
    pub impl KindU8 of Kind<u8> { fn kind(self: @u8) -> felt252 { 'copied' } }
    // associated item constraint
    pub fn sum_iter<I, +Iterator<I>[Item: u8], +Drop<I>>(mut it: I) -> u32 { let mut t = 0_u32; while let Some(v) = it.next() { t += v.into(); } t }
}
