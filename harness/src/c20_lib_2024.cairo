pub mod feats3 {
    // edition 2024_07 and experimental features only
    pub mod inner {
        pub fn gi(a: u8) -> u8 { a / 3 }
        #[derive(Copy, Drop)]
        pub struct GS { pub v: u8 }
        fn private_in_inner(a: u8) -> u8 { a }
        pub(crate) fn crate_in_inner(a: u8) -> u8 { a }
    }
    pub use inner::*;
    // negative impl: only for types that are not Copy
    pub trait Kind<T> { fn kind(self: @T) -> felt252; }
    pub impl KindNonCopy<T, -Copy<T>> of Kind<T> { fn kind(self: @T) -> felt252 { 'moved' } }
    pub impl KindU8 of Kind<u8> { fn kind(self: @u8) -> felt252 { 'copied' } }
    // associated item constraint
    pub fn sum_iter<I, +Iterator<I>[Item: u8], +Drop<I>>(mut it: I) -> u32 { let mut t = 0_u32; while let Some(v) = it.next() { t += v.into(); } t }
    // names that resolve only through a private / pub(crate) glob use, in signatures and in bodies
    mod hidden_shapes {
        #[derive(Copy, Drop)]
        pub struct Rect { pub w: u32, pub h: u32 }
        pub const UNIT: u32 = 1;
        pub fn helper(a: u32) -> u32 { a / 2 + 1 }
        pub trait Scale<T> { fn scale(self: T, by: u32) -> T; }
        pub impl ScaleRect of Scale<Rect> { fn scale(self: Rect, by: u32) -> Rect { Rect { w: self.w * by, h: self.h * by } } }
    }
    use hidden_shapes::*;
    pub fn area(r: Rect) -> u32 { r.w * r.h }
    pub fn square(side: u32) -> Rect { Rect { w: side, h: side }.scale(UNIT) }
    pub mod crate_glob {
        pub(crate) use super::hidden_shapes::*;
        pub fn unit_plus(a: u32) -> u32 { helper(a) + UNIT }
        pub struct Holder { pub r: Rect }
    }
}
