//! MiniCairo: a small typed AST with a pretty-printer to Cairo source and a boring big-step reference
//! evaluator (num-bigint, Vec, BTreeMap) — the specification side of C01 / C08.

use std::collections::BTreeMap;

use num_bigint::BigInt;
use num_integer::Integer;
use num_traits::{One, Signed, Zero};

#[derive(Clone, Debug, PartialEq, Eq, Hash)]
pub enum T {
    U8,
    I8,
    U32,
    U128,
    Felt,
    Bool,
    Tup(Vec<T>),
    Opt(Box<T>),
    Arr(Box<T>),
    /// `struct S { a: u8, b: u32 }` (Copy, Drop)
    S,
    /// `enum E { A: u8, B: (u8, u8), C }` (Copy, Drop)
    E,
    /// `struct N { v: Array<u8>, k: u8 }` (Drop only)
    N,
    Dict,
    Unit,
}

impl T {
    pub fn name(&self) -> String {
        match self {
            T::U8 => "u8".into(),
            T::I8 => "i8".into(),
            T::U32 => "u32".into(),
            T::U128 => "u128".into(),
            T::Felt => "felt252".into(),
            T::Bool => "bool".into(),
            T::Tup(v) => {
                if v.len() == 1 {
                    format!("({},)", v[0].name())
                } else {
                    format!("({})", v.iter().map(|t| t.name()).collect::<Vec<_>>().join(", "))
                }
            }
            T::Opt(t) => format!("Option<{}>", t.name()),
            T::Arr(t) => format!("Array<{}>", t.name()),
            T::S => "S".into(),
            T::E => "E".into(),
            T::N => "N".into(),
            T::Dict => "Felt252Dict<u8>".into(),
            T::Unit => "()".into(),
        }
    }
    pub fn is_int(&self) -> bool {
        matches!(self, T::U8 | T::I8 | T::U32 | T::U128 | T::Felt)
    }
    pub fn range(&self) -> Option<(BigInt, BigInt)> {
        Some(match self {
            T::U8 => (BigInt::zero(), BigInt::from(255)),
            T::I8 => (BigInt::from(-128), BigInt::from(127)),
            T::U32 => (BigInt::zero(), BigInt::from(u32::MAX)),
            T::U128 => (BigInt::zero(), BigInt::from(u128::MAX)),
            _ => return None,
        })
    }
    pub fn copyable(&self) -> bool {
        match self {
            T::Arr(_) | T::N | T::Dict => false,
            T::Tup(v) => v.iter().all(|t| t.copyable()),
            T::Opt(t) => t.copyable(),
            _ => true,
        }
    }
}

pub const PRELUDE: &str = "#[derive(Copy, Drop)]\nstruct S { a: u8, b: u32 }\n#[derive(Copy, Drop)]\nenum E { A: u8, B: (u8, u8), C }\n#[derive(Drop)]\nstruct N { v: Array<u8>, k: u8 }\n";

#[derive(Clone, Copy, Debug, PartialEq, Eq, Hash)]
pub enum Op {
    Add,
    Sub,
    Mul,
    Div,
    Rem,
    Lt,
    Le,
    Gt,
    Ge,
    Eq,
    Ne,
    And,
    Or,
    BitAnd,
    BitOr,
    BitXor,
}
impl Op {
    pub fn sym(&self) -> &'static str {
        match self {
            Op::Add => "+",
            Op::Sub => "-",
            Op::Mul => "*",
            Op::Div => "/",
            Op::Rem => "%",
            Op::Lt => "<",
            Op::Le => "<=",
            Op::Gt => ">",
            Op::Ge => ">=",
            Op::Eq => "==",
            Op::Ne => "!=",
            Op::And => "&&",
            Op::Or => "||",
            Op::BitAnd => "&",
            Op::BitOr => "|",
            Op::BitXor => "^",
        }
    }
    pub fn is_cmp(&self) -> bool {
        matches!(self, Op::Lt | Op::Le | Op::Gt | Op::Ge | Op::Eq | Op::Ne)
    }
}

#[derive(Clone, Debug, PartialEq, Eq, Hash)]
pub enum Ex {
    Lit(T, BigInt),
    BoolLit(bool),
    Var(String),
    Bin(Op, Box<Ex>, Box<Ex>),
    Neg(Box<Ex>),
    Not(Box<Ex>),
    If(Box<Ex>, Box<Ex>, Box<Ex>),
    Block(Vec<St>, Option<Box<Ex>>),
    Tuple(Vec<Ex>),
    MkS(Box<Ex>, Box<Ex>),
    Field(Box<Ex>, &'static str),
    MkE(usize, Vec<Ex>),
    /// match e { E::A(x) => arm0, E::B((y, z)) => arm1, E::C => arm2 } with fixed binder names x,y,z
    MatchE(Box<Ex>, Box<Ex>, Box<Ex>, Box<Ex>),
    SomeOf(Box<Ex>),
    NoneOf(T),
    /// match o { Some(v) => a, None => b } with binder name
    MatchOpt(Box<Ex>, String, Box<Ex>, Box<Ex>),
    Unwrap(Box<Ex>),
    /// match e { l0 => a0, l1 => a1, ..., _ => d } on u8 scrutinee with consecutive literals from 0
    MatchInt(Box<Ex>, Vec<Ex>, Box<Ex>),
    Call(String, Vec<Ex>),
    ArrNew(T),
    ArrLit(T, Vec<Ex>),
    /// arr.len() as u32 on a variable
    ArrLen(String),
    /// *arr.at(i) on a variable (panics 'Index out of bounds')
    ArrAt(String, Box<Ex>),
    /// arr.get(i) mapped to Option<T> by copying out: `match arr.get(i) { Some(x) => Some(*x.unbox()), None => None }`
    ArrGet(String, Box<Ex>),
    /// arr.pop_front() on a mutable variable
    PopFront(String),
    /// d.get(k) on a mutable dict variable (k: felt252 expression)
    DictGet(String, Box<Ex>),
    /// e.into() to felt252 / wider int
    Into(Box<Ex>, T),
    /// e.try_into().unwrap()
    TryInto(Box<Ex>, T),
    Loop(Vec<St>),
    /// N { v: <arr expr>, k: <u8 expr> }
    MkN(Box<Ex>, Box<Ex>),
    Snap(Box<Ex>),
    Desnap(Box<Ex>),
}

#[derive(Clone, Debug, PartialEq, Eq, Hash)]
pub enum St {
    Let(String, bool, Option<T>, Ex),
    LetTup(Vec<String>, Ex),
    /// let S { a: x, b: y } = e;
    LetS(String, String, Ex),
    /// let N { v: x, k: y } = e;
    LetN(String, String, Ex),
    Assign(String, Ex),
    AssignOp(String, Op, Ex),
    Expr(Ex),
    While(Ex, Vec<St>),
    /// for i in lo..hi (u32)
    For(String, Ex, Ex, Vec<St>),
    Break(Option<Ex>),
    Continue,
    Return(Ex),
    Append(String, Ex),
    DictInsert(String, Ex, Ex),
    Assert(Ex, &'static str),
    Panic(&'static str),
}

#[derive(Clone, Debug, PartialEq, Eq, Hash)]
pub struct Func {
    pub name: String,
    pub params: Vec<(String, T, bool /* ref */)>,
    pub ret: T,
    pub body: Ex,
}

#[derive(Clone, Debug)]
pub struct Prog {
    pub funcs: Vec<Func>,
}

// ------------------------------------------------------------------------------------------------------
// pretty-printer

fn lit(t: &T, v: &BigInt) -> String {
    match t {
        T::Felt => {
            if v.is_negative() {
                format!("(-{})", -v)
            } else {
                v.to_string()
            }
        }
        _ => {
            if v.is_negative() {
                format!("(-{}_{})", -v, t.name())
            } else {
                format!("{v}_{}", t.name())
            }
        }
    }
}

pub fn pe(e: &Ex) -> String {
    match e {
        Ex::Lit(t, v) => lit(t, v),
        Ex::BoolLit(b) => b.to_string(),
        Ex::Var(n) => n.clone(),
        Ex::Bin(op, a, b) => format!("({} {} {})", pe(a), op.sym(), pe(b)),
        Ex::Neg(a) => format!("(-{})", pe(a)),
        Ex::Not(a) => format!("(!{})", pe(a)),
        Ex::If(c, a, b) => format!("if {} {} else {}", pe(c), pblock(a), pblock(b)),
        Ex::Block(..) => pblock(e),
        Ex::Tuple(v) => {
            if v.len() == 1 {
                format!("({},)", pe(&v[0]))
            } else {
                format!("({})", v.iter().map(pe).collect::<Vec<_>>().join(", "))
            }
        }
        Ex::MkS(a, b) => format!("S {{ a: {}, b: {} }}", pe(a), pe(b)),
        Ex::MkN(a, b) => format!("N {{ v: {}, k: {} }}", pe(a), pe(b)),
        Ex::Field(a, f) => format!("{}.{f}", pe(a)),
        Ex::MkE(0, v) => format!("E::A({})", pe(&v[0])),
        Ex::MkE(1, v) => format!("E::B(({}, {}))", pe(&v[0]), pe(&v[1])),
        Ex::MkE(_, _) => "E::C".into(),
        Ex::MatchE(s, a, b, c) => format!("match {} {{ E::A(x) => {}, E::B((y, z)) => {}, E::C => {} }}", pe(s), pblock(a), pblock(b), pblock(c)),
        Ex::SomeOf(a) => format!("Some({})", pe(a)),
        Ex::NoneOf(t) => format!("Option::<{}>::None", t.name()),
        Ex::MatchOpt(s, v, a, b) => format!("match {} {{ Some({v}) => {}, None => {} }}", pe(s), pblock(a), pblock(b)),
        Ex::Unwrap(a) => format!("{}.unwrap()", pe(a)),
        Ex::MatchInt(s, arms, d) => {
            let mut out = format!("match {} {{ ", pe(s));
            for (i, a) in arms.iter().enumerate() {
                out.push_str(&format!("{i} => {}, ", pblock(a)));
            }
            out.push_str(&format!("_ => {} }}", pblock(d)));
            out
        }
        Ex::Call(f, args) => format!("{f}({})", args.iter().map(pe).collect::<Vec<_>>().join(", ")),
        Ex::ArrNew(t) => format!("ArrayTrait::<{}>::new()", t.name()),
        Ex::ArrLit(_, v) => format!("array![{}]", v.iter().map(pe).collect::<Vec<_>>().join(", ")),
        Ex::ArrLen(a) => format!("{a}.len()"),
        Ex::ArrAt(a, i) => format!("(*{a}.at({}))", pe(i)),
        Ex::ArrGet(a, i) => format!("(match {a}.get({}) {{ Some(bx) => Some(*bx.unbox()), None => None }})", pe(i)),
        Ex::PopFront(a) => format!("{a}.pop_front()"),
        Ex::DictGet(d, k) => format!("{d}.get({})", pe(k)),
        Ex::Into(a, t) => format!("Into::<_, {}>::into({})", t.name(), pe(a)),
        Ex::TryInto(a, t) => format!("TryInto::<_, {}>::try_into({}).unwrap()", t.name(), pe(a)),
        Ex::Loop(body) => format!("loop {{ {} }}", body.iter().map(ps).collect::<Vec<_>>().join(" ")),
        Ex::Snap(a) => format!("(@{})", pe(a)),
        Ex::Desnap(a) => format!("(*{})", pe(a)),
    }
}

fn pblock(e: &Ex) -> String {
    match e {
        Ex::Block(sts, tail) => {
            let mut s = String::from("{ ");
            for st in sts {
                s.push_str(&ps(st));
                s.push(' ');
            }
            if let Some(t) = tail {
                s.push_str(&pe(t));
                s.push(' ');
            }
            s.push('}');
            s
        }
        other => format!("{{ {} }}", pe(other)),
    }
}

pub fn ps(s: &St) -> String {
    match s {
        St::Let(n, m, t, e) => format!("let {}{n}{} = {};", if *m { "mut " } else { "" }, t.as_ref().map(|t| format!(": {}", t.name())).unwrap_or_default(), pe(e)),
        St::LetTup(ns, e) => format!("let ({}) = {};", ns.join(", "), pe(e)),
        St::LetS(a, b, e) => format!("let S {{ a: {a}, b: {b} }} = {};", pe(e)),
        St::LetN(a, b, e) => format!("let N {{ v: {a}, k: {b} }} = {};", pe(e)),
        St::Assign(n, e) => format!("{n} = {};", pe(e)),
        St::AssignOp(n, op, e) => format!("{n} {}= {};", op.sym(), pe(e)),
        St::Expr(e) => format!("{};", pe(e)),
        St::While(c, b) => format!("while {} {{ {} }}", pe(c), b.iter().map(ps).collect::<Vec<_>>().join(" ")),
        St::For(v, lo, hi, b) => format!("for {v} in {}..{} {{ {} }}", pe(lo), pe(hi), b.iter().map(ps).collect::<Vec<_>>().join(" ")),
        St::Break(None) => "break;".into(),
        St::Break(Some(e)) => format!("break {};", pe(e)),
        St::Continue => "continue;".into(),
        St::Return(e) => format!("return {};", pe(e)),
        St::Append(a, e) => format!("{a}.append({});", pe(e)),
        St::DictInsert(d, k, v) => format!("{d}.insert({}, {});", pe(k), pe(v)),
        St::Assert(c, m) => format!("assert({}, '{m}');", pe(c)),
        St::Panic(m) => format!("core::panic_with_felt252('{m}');"),
    }
}

pub fn pfunc(f: &Func) -> String {
    let params = f.params.iter().map(|(n, t, r)| format!("{}{n}: {}", if *r { "ref " } else { "" }, t.name())).collect::<Vec<_>>().join(", ");
    let ret = if f.ret == T::Unit { String::new() } else { format!(" -> {}", f.ret.name()) };
    format!("fn {}({params}){ret} {}\n", f.name, pblock(&f.body))
}

pub fn pprog(p: &Prog) -> String {
    let mut s = String::from(PRELUDE);
    for f in &p.funcs {
        s.push_str(&pfunc(f));
    }
    s
}

// ------------------------------------------------------------------------------------------------------
// reference evaluator

#[derive(Clone, Debug, PartialEq)]
pub enum V {
    Int(T, BigInt),
    Bool(bool),
    Tup(Vec<V>),
    Opt(Option<Box<V>>),
    Arr(Vec<V>),
    S(Box<V>, Box<V>),
    N(Box<V>, Box<V>),
    E(usize, Vec<V>),
    Dict(BTreeMap<BigInt, BigInt>),
    Unit,
}

pub enum Flow {
    Break(V),
    Continue,
    Return(V),
    Panic(Vec<BigInt>),
}

pub fn short_string(s: &str) -> BigInt {
    BigInt::from_bytes_be(num_bigint::Sign::Plus, s.as_bytes())
}
pub fn felt_prime() -> BigInt {
    (BigInt::one() << 251) + BigInt::from(17) * (BigInt::one() << 192) + 1
}

fn panic_str(s: &str) -> Flow {
    Flow::Panic(vec![short_string(s)])
}

fn arith(op: Op, t: &T, a: &BigInt, b: &BigInt) -> Result<BigInt, Flow> {
    if *t == T::Felt {
        let p = felt_prime();
        return Ok(match op {
            Op::Add => (a + b).mod_floor(&p),
            Op::Sub => (a - b).mod_floor(&p),
            Op::Mul => (a * b).mod_floor(&p),
            _ => unreachable!("felt op"),
        });
    }
    let (lo, hi) = t.range().expect("int type");
    let tn = t.name();
    let r = match op {
        Op::Add => a + b,
        Op::Sub => a - b,
        Op::Mul => a * b,
        Op::Div | Op::Rem => {
            if b.is_zero() {
                return Err(panic_str("Division by 0"));
            }
            let q = a.abs() / b.abs();
            let q = if a.is_negative() != b.is_negative() { -q } else { q };
            if q < lo || q > hi {
                // signed MIN / -1 (and MIN % -1): the quotient does not fit
                return Err(panic_str("attempt to divide with overflow"));
            }
            if op == Op::Div { q } else { a - &q * b }
        }
        Op::BitAnd => a & b,
        Op::BitOr => a | b,
        Op::BitXor => a ^ b,
        _ => unreachable!(),
    };
    if r > hi {
        let what = match op {
            Op::Add => "add",
            Op::Sub => "sub",
            _ => "mul",
        };
        return Err(panic_str(&format!("{tn}_{what} Overflow")));
    }
    if r < lo {
        let (what, kind) = match op {
            Op::Add => ("add", "Underflow"),
            Op::Sub => ("sub", if *t == T::I8 { "Underflow" } else { "Overflow" }),
            _ => ("mul", "Overflow"),
        };
        return Err(panic_str(&format!("{tn}_{what} {kind}")));
    }
    Ok(r)
}

pub struct Evaluator<'a> {
    pub prog: &'a Prog,
    pub steps: u64,
    pub max_steps: u64,
}

type Env = Vec<BTreeMap<String, V>>;

fn lookup<'e>(env: &'e mut Env, n: &str) -> &'e mut V {
    for scope in env.iter_mut().rev() {
        if let Some(v) = scope.get_mut(n) {
            return v;
        }
    }
    panic!("harness: unbound variable {n}")
}

impl Evaluator<'_> {
    pub fn call(&mut self, fname: &str, args: Vec<V>) -> Result<V, Flow> {
        let f = self.prog.funcs.iter().find(|f| f.name == fname).unwrap_or_else(|| panic!("harness: unknown fn {fname}"));
        let mut env: Env = vec![BTreeMap::new()];
        for ((n, _, _), v) in f.params.iter().zip(args) {
            env[0].insert(n.clone(), v);
        }
        match self.ev(&f.body, &mut env) {
            Ok(v) => Ok(v),
            Err(Flow::Return(v)) => Ok(v),
            Err(e) => Err(e),
        }
    }

    fn block(&mut self, sts: &[St], tail: Option<&Ex>, env: &mut Env) -> Result<V, Flow> {
        env.push(BTreeMap::new());
        let r = (|| {
            for s in sts {
                self.st(s, env)?;
            }
            match tail {
                Some(t) => self.ev(t, env),
                None => Ok(V::Unit),
            }
        })();
        env.pop();
        r
    }

    fn ev(&mut self, e: &Ex, env: &mut Env) -> Result<V, Flow> {
        self.steps += 1;
        if self.steps > self.max_steps {
            return Err(panic_str("Out of gas"));
        }
        Ok(match e {
            Ex::Lit(t, v) => V::Int(t.clone(), if *t == T::Felt { v.mod_floor(&felt_prime()) } else { v.clone() }),
            Ex::BoolLit(b) => V::Bool(*b),
            Ex::Var(n) => lookup(env, n).clone(),
            Ex::Bin(Op::And, a, b) => {
                let V::Bool(x) = self.ev(a, env)? else { panic!("harness: && on non-bool") };
                if !x { V::Bool(false) } else { self.ev(b, env)? }
            }
            Ex::Bin(Op::Or, a, b) => {
                let V::Bool(x) = self.ev(a, env)? else { panic!("harness: || on non-bool") };
                if x { V::Bool(true) } else { self.ev(b, env)? }
            }
            Ex::Bin(op, a, b) => {
                let x = self.ev(a, env)?;
                let y = self.ev(b, env)?;
                match (x, y) {
                    (V::Int(t, x), V::Int(_, y)) => {
                        if op.is_cmp() {
                            V::Bool(match op {
                                Op::Lt => x < y,
                                Op::Le => x <= y,
                                Op::Gt => x > y,
                                Op::Ge => x >= y,
                                Op::Eq => x == y,
                                _ => x != y,
                            })
                        } else {
                            V::Int(t.clone(), arith(*op, &t, &x, &y)?)
                        }
                    }
                    (V::Bool(x), V::Bool(y)) => V::Bool(match op {
                        Op::Eq => x == y,
                        Op::Ne => x != y,
                        Op::BitAnd => x & y,
                        Op::BitOr => x | y,
                        Op::BitXor => x ^ y,
                        _ => panic!("harness: bool op"),
                    }),
                    (x, y) => match op {
                        Op::Eq => V::Bool(x == y),
                        Op::Ne => V::Bool(x != y),
                        _ => panic!("harness: op on {x:?}"),
                    },
                }
            }
            Ex::Neg(a) => {
                let V::Int(t, x) = self.ev(a, env)? else { panic!("harness: neg") };
                if t == T::Felt {
                    V::Int(t, (-x).mod_floor(&felt_prime()))
                } else {
                    let (_, hi) = t.range().unwrap();
                    if -&x > hi {
                        return Err(panic_str(&format!("{}_neg Underflow", t.name())));
                    }
                    V::Int(t, -x)
                }
            }
            Ex::Not(a) => {
                let V::Bool(x) = self.ev(a, env)? else { panic!("harness: not") };
                V::Bool(!x)
            }
            Ex::If(c, a, b) => {
                let V::Bool(x) = self.ev(c, env)? else { panic!("harness: if") };
                if x { self.ev(a, env)? } else { self.ev(b, env)? }
            }
            Ex::Block(sts, tail) => self.block(sts, tail.as_deref(), env)?,
            Ex::Tuple(v) => V::Tup(v.iter().map(|x| self.ev(x, env)).collect::<Result<_, _>>()?),
            Ex::MkS(a, b) => {
                let x = self.ev(a, env)?;
                let y = self.ev(b, env)?;
                V::S(Box::new(x), Box::new(y))
            }
            Ex::MkN(a, b) => {
                let x = self.ev(a, env)?;
                let y = self.ev(b, env)?;
                V::N(Box::new(x), Box::new(y))
            }
            Ex::Field(a, f) => match self.ev(a, env)? {
                V::S(x, y) => {
                    if *f == "a" { *x } else { *y }
                }
                V::N(x, y) => {
                    if *f == "v" { *x } else { *y }
                }
                other => panic!("harness: field of {other:?}"),
            },
            Ex::MkE(i, v) => V::E(*i, v.iter().map(|x| self.ev(x, env)).collect::<Result<_, _>>()?),
            Ex::MatchE(s, a, b, c) => {
                let V::E(i, pl) = self.ev(s, env)? else { panic!("harness: matchE") };
                env.push(BTreeMap::new());
                let r = match i {
                    0 => {
                        env.last_mut().unwrap().insert("x".into(), pl[0].clone());
                        self.ev(a, env)
                    }
                    1 => {
                        env.last_mut().unwrap().insert("y".into(), pl[0].clone());
                        env.last_mut().unwrap().insert("z".into(), pl[1].clone());
                        self.ev(b, env)
                    }
                    _ => self.ev(c, env),
                };
                env.pop();
                r?
            }
            Ex::SomeOf(a) => V::Opt(Some(Box::new(self.ev(a, env)?))),
            Ex::NoneOf(_) => V::Opt(None),
            Ex::MatchOpt(s, v, a, b) => {
                let V::Opt(o) = self.ev(s, env)? else { panic!("harness: matchOpt") };
                match o {
                    Some(x) => {
                        env.push(BTreeMap::new());
                        env.last_mut().unwrap().insert(v.clone(), *x);
                        let r = self.ev(a, env);
                        env.pop();
                        r?
                    }
                    None => self.ev(b, env)?,
                }
            }
            Ex::Unwrap(a) => {
                let V::Opt(o) = self.ev(a, env)? else { panic!("harness: unwrap") };
                match o {
                    Some(x) => *x,
                    None => return Err(panic_str("Option::unwrap failed.")),
                }
            }
            Ex::MatchInt(s, arms, d) => {
                let V::Int(_, x) = self.ev(s, env)? else { panic!("harness: matchInt") };
                let i = x.to_string().parse::<usize>().unwrap_or(usize::MAX);
                if i < arms.len() { self.ev(&arms[i], env)? } else { self.ev(d, env)? }
            }
            Ex::Call(f, _) if f == "Default::default" => V::Dict(BTreeMap::new()),
            Ex::Call(f, args) => {
                let mut vals = vec![];
                for a in args {
                    vals.push(self.ev(a, env)?);
                }
                let func = self.prog.funcs.iter().find(|g| g.name == *f).unwrap_or_else(|| panic!("harness: unknown fn {f}"));
                let refs: Vec<(usize, String)> = func.params.iter().enumerate().filter(|(_, p)| p.2).map(|(i, _)| (i, match &args[i] { Ex::Var(n) => n.clone(), _ => panic!("harness: ref arg must be a variable") })).collect();
                // callee with by-ref params: run, then write back
                let mut cenv: Env = vec![BTreeMap::new()];
                for ((n, _, _), v) in func.params.iter().zip(vals) {
                    cenv[0].insert(n.clone(), v);
                }
                let r = match self.ev(&func.body, &mut cenv) {
                    Ok(v) => v,
                    Err(Flow::Return(v)) => v,
                    Err(e) => return Err(e),
                };
                for (i, caller_name) in refs {
                    let v = cenv[0].get(&func.params[i].0).cloned().unwrap();
                    *lookup(env, &caller_name) = v;
                }
                r
            }
            Ex::ArrNew(_) => V::Arr(vec![]),
            Ex::ArrLit(_, v) => V::Arr(v.iter().map(|x| self.ev(x, env)).collect::<Result<_, _>>()?),
            Ex::ArrLen(a) => match lookup(env, a) {
                V::Arr(v) => V::Int(T::U32, BigInt::from(v.len())),
                other => panic!("harness: len of {other:?}"),
            },
            Ex::ArrAt(a, i) => {
                let V::Int(_, i) = self.ev(i, env)? else { panic!("harness: at idx") };
                match lookup(env, a) {
                    V::Arr(v) => match i.to_string().parse::<usize>().ok().and_then(|i| v.get(i)) {
                        Some(x) => x.clone(),
                        None => return Err(panic_str("Index out of bounds")),
                    },
                    other => panic!("harness: at of {other:?}"),
                }
            }
            Ex::ArrGet(a, i) => {
                let V::Int(_, i) = self.ev(i, env)? else { panic!("harness: get idx") };
                match lookup(env, a) {
                    V::Arr(v) => V::Opt(i.to_string().parse::<usize>().ok().and_then(|i| v.get(i)).map(|x| Box::new(x.clone()))),
                    other => panic!("harness: get of {other:?}"),
                }
            }
            Ex::PopFront(a) => match lookup(env, a) {
                V::Arr(v) => {
                    if v.is_empty() {
                        V::Opt(None)
                    } else {
                        V::Opt(Some(Box::new(v.remove(0))))
                    }
                }
                other => panic!("harness: pop_front of {other:?}"),
            },
            Ex::DictGet(d, k) => {
                let V::Int(_, k) = self.ev(k, env)? else { panic!("harness: dict key") };
                match lookup(env, d) {
                    V::Dict(m) => V::Int(T::U8, m.get(&k).cloned().unwrap_or_default()),
                    other => panic!("harness: dict get of {other:?}"),
                }
            }
            Ex::Into(a, t) => {
                let x = self.ev(a, env)?;
                match x {
                    V::Int(_, v) => V::Int(t.clone(), if *t == T::Felt { v.mod_floor(&felt_prime()) } else { v }),
                    V::Bool(b) => V::Int(t.clone(), BigInt::from(b as u8)),
                    other => panic!("harness: into of {other:?}"),
                }
            }
            Ex::TryInto(a, t) => {
                let V::Int(st, v) = self.ev(a, env)? else { panic!("harness: try_into") };
                let (lo, hi) = t.range().unwrap();
                // a felt252 source above P/2 is read as negative only by signed targets
                let v = if st == T::Felt && *t == T::I8 && v > (felt_prime() - 1) / 2 { v - felt_prime() } else { v };
                if v < lo || v > hi {
                    return Err(panic_str("Option::unwrap failed."));
                }
                V::Int(t.clone(), v)
            }
            Ex::Loop(body) => loop {
                self.steps += 1;
                if self.steps > self.max_steps {
                    return Err(panic_str("Out of gas"));
                }
                env.push(BTreeMap::new());
                let mut out = None;
                for s in body {
                    match self.st(s, env) {
                        Ok(()) => {}
                        Err(Flow::Break(v)) => {
                            out = Some(Ok(v));
                            break;
                        }
                        Err(Flow::Continue) => break,
                        Err(e) => {
                            out = Some(Err(e));
                            break;
                        }
                    }
                }
                env.pop();
                match out {
                    Some(Ok(v)) => break v,
                    Some(Err(e)) => return Err(e),
                    None => {}
                }
            },
            Ex::Snap(a) | Ex::Desnap(a) => self.ev(a, env)?,
        })
    }

    fn st(&mut self, s: &St, env: &mut Env) -> Result<(), Flow> {
        match s {
            St::Let(n, _, _, e) => {
                let v = self.ev(e, env)?;
                env.last_mut().unwrap().insert(n.clone(), v);
            }
            St::LetTup(ns, e) => {
                let V::Tup(vs) = self.ev(e, env)? else { panic!("harness: let tuple") };
                for (n, v) in ns.iter().zip(vs) {
                    env.last_mut().unwrap().insert(n.clone(), v);
                }
            }
            St::LetS(a, b, e) => {
                let V::S(x, y) = self.ev(e, env)? else { panic!("harness: let S") };
                env.last_mut().unwrap().insert(a.clone(), *x);
                env.last_mut().unwrap().insert(b.clone(), *y);
            }
            St::LetN(a, b, e) => {
                let V::N(x, y) = self.ev(e, env)? else { panic!("harness: let N") };
                env.last_mut().unwrap().insert(a.clone(), *x);
                env.last_mut().unwrap().insert(b.clone(), *y);
            }
            St::Assign(n, e) => {
                let v = self.ev(e, env)?;
                *lookup(env, n) = v;
            }
            St::AssignOp(n, op, e) => {
                // `x op= e` is `x = x op e` with x read first
                let cur = lookup(env, n).clone();
                let rhs = self.ev(e, env)?;
                let (V::Int(t, a), V::Int(_, b)) = (cur, rhs) else { panic!("harness: op-assign") };
                let r = arith(*op, &t, &a, &b)?;
                *lookup(env, n) = V::Int(t, r);
            }
            St::Expr(e) => {
                self.ev(e, env)?;
            }
            St::While(c, body) => loop {
                self.steps += 1;
                if self.steps > self.max_steps {
                    return Err(panic_str("Out of gas"));
                }
                let V::Bool(x) = self.ev(c, env)? else { panic!("harness: while") };
                if !x {
                    break;
                }
                env.push(BTreeMap::new());
                let mut brk = false;
                let mut err = None;
                for s in body {
                    match self.st(s, env) {
                        Ok(()) => {}
                        Err(Flow::Break(_)) => {
                            brk = true;
                            break;
                        }
                        Err(Flow::Continue) => break,
                        Err(e) => {
                            err = Some(e);
                            break;
                        }
                    }
                }
                env.pop();
                if let Some(e) = err {
                    return Err(e);
                }
                if brk {
                    break;
                }
            },
            St::For(v, lo, hi, body) => {
                let V::Int(_, lo) = self.ev(lo, env)? else { panic!("harness: for lo") };
                let V::Int(_, hi) = self.ev(hi, env)? else { panic!("harness: for hi") };
                let mut i = lo;
                while i < hi {
                    self.steps += 1;
                    if self.steps > self.max_steps {
                        return Err(panic_str("Out of gas"));
                    }
                    env.push(BTreeMap::new());
                    env.last_mut().unwrap().insert(v.clone(), V::Int(T::U32, i.clone()));
                    let mut brk = false;
                    let mut err = None;
                    for s in body {
                        match self.st(s, env) {
                            Ok(()) => {}
                            Err(Flow::Break(_)) => {
                                brk = true;
                                break;
                            }
                            Err(Flow::Continue) => break,
                            Err(e) => {
                                err = Some(e);
                                break;
                            }
                        }
                    }
                    env.pop();
                    if let Some(e) = err {
                        return Err(e);
                    }
                    if brk {
                        break;
                    }
                    i += 1;
                }
            }
            St::Break(None) => return Err(Flow::Break(V::Unit)),
            St::Break(Some(e)) => {
                let v = self.ev(e, env)?;
                return Err(Flow::Break(v));
            }
            St::Continue => return Err(Flow::Continue),
            St::Return(e) => {
                let v = self.ev(e, env)?;
                return Err(Flow::Return(v));
            }
            St::Append(a, e) => {
                let v = self.ev(e, env)?;
                match lookup(env, a) {
                    V::Arr(arr) => arr.push(v),
                    other => panic!("harness: append to {other:?}"),
                }
            }
            St::DictInsert(d, k, v) => {
                let V::Int(_, k) = self.ev(k, env)? else { panic!("harness: dict key") };
                let V::Int(_, v) = self.ev(v, env)? else { panic!("harness: dict val") };
                match lookup(env, d) {
                    V::Dict(m) => {
                        m.insert(k, v);
                    }
                    other => panic!("harness: insert into {other:?}"),
                }
            }
            St::Assert(c, m) => {
                let V::Bool(x) = self.ev(c, env)? else { panic!("harness: assert") };
                if !x {
                    return Err(panic_str(m));
                }
            }
            St::Panic(m) => return Err(panic_str(m)),
        }
        Ok(())
    }
}

/// Flattens a result value into felts (ints, bools, tuples of them).
pub fn flatten(v: &V, out: &mut Vec<BigInt>) {
    match v {
        V::Int(_, x) => out.push(x.mod_floor(&felt_prime())),
        V::Bool(b) => out.push(BigInt::from(*b as u8)),
        V::Tup(vs) => vs.iter().for_each(|x| flatten(x, out)),
        V::S(a, b) => {
            flatten(a, out);
            flatten(b, out);
        }
        V::Unit => {}
        other => panic!("harness: result value {other:?} is not flattenable; generated programs return scalars/tuples"),
    }
}
