//! C10 — the syntax tree is lossless. C09 (a,b,c) — parser/formatter totality. They share the enumerated
//! text spaces; each has its own oracle and its own command.

use cairo_lang_formatter::{CairoFormatter, FormatterConfig};
use cairo_lang_syntax::node::SyntaxNode;
use salsa::Database;
use serde_json::json;

use crate::core::{CheckDef, Ctx, panic_sig};
use crate::text::*;

/// Oracle of C10 on one parsed tree. Returns (signature, explanation) of the first problem.
pub fn lossless_violation(db: &dyn Database, root: SyntaxNode<'_>, src: &str) -> Option<(String, String)> {
    let rs = root.span(db);
    if rs.start.as_u32() != 0 || rs.end.as_u32() as usize != src.len() {
        return Some((
            "lossless:root-span".into(),
            format!("root spans {}..{} but the file has {} bytes", rs.start.as_u32(), rs.end.as_u32(), src.len()),
        ));
    }
    let mut leaves = String::with_capacity(src.len());
    let mut stack = vec![root];
    while let Some(n) = stack.pop() {
        let sp = n.span(db);
        let (s, e) = (sp.start.as_u32() as usize, sp.end.as_u32() as usize);
        let kind = n.kind(db);
        if n.width(db).as_u32() as usize != e - s {
            return Some((format!("lossless:width:{kind:?}"), format!("width {} != span {s}..{e}", n.width(db).as_u32())));
        }
        let ch = n.get_children(db);
        if ch.is_empty() {
            match n.text(db) {
                Some(t) => {
                    let t = t.long(db).as_str();
                    if e > src.len() || !src.is_char_boundary(s) || !src.is_char_boundary(e) || &src[s..e] != t {
                        let parent = n.parent(db).map(|p| format!("{:?}", p.kind(db))).unwrap_or_default();
                        return Some((
                            format!("lossless:leaf-text:{kind:?}:{parent}"),
                            format!(
                                "leaf {kind:?} has text {t:?} but claims span {s}..{e} = {:?}",
                                src.get(s..e.min(src.len())).unwrap_or("<not on char boundary>")
                            ),
                        ));
                    }
                    leaves.push_str(t);
                }
                None => {
                    if e != s {
                        return Some((format!("lossless:empty-leaf-width:{kind:?}"), format!("textless leaf {kind:?} spans {s}..{e}")));
                    }
                }
            }
            continue;
        }
        // children tile the node's span
        let mut pos = s;
        let mut sum = 0usize;
        for c in ch.iter() {
            let cs = c.span(db);
            if cs.start.as_u32() as usize != pos {
                return Some((
                    format!("lossless:child-gap:{kind:?}"),
                    format!("child {:?} of {kind:?} starts at {} but previous sibling ended at {pos}", c.kind(db), cs.start.as_u32()),
                ));
            }
            pos = cs.end.as_u32() as usize;
            sum += c.width(db).as_u32() as usize;
        }
        if pos != e || sum != e - s {
            return Some((format!("lossless:children-span:{kind:?}"), format!("children of {kind:?} end at {pos}, node ends at {e}; widths sum {sum}")));
        }
        if e <= src.len() && src.is_char_boundary(s) && src.is_char_boundary(e) {
            if n.get_text(db) != &src[s..e] {
                return Some((format!("lossless:get-text:{kind:?}"), "get_text(n) differs from source[span(n)]".into()));
            }
        }
        for c in ch.iter().rev() {
            stack.push(*c);
        }
    }
    if leaves != src {
        let i = leaves.bytes().zip(src.bytes()).position(|(a, b)| a != b).unwrap_or(leaves.len().min(src.len()));
        return Some(("lossless:leaf-concat".into(), format!("concatenated leaves differ from the source at byte {i}")));
    }
    None
}

#[derive(Clone, Copy, PartialEq)]
pub enum Mode {
    Lossless,
    Total,
}

/// Checks one text under the given oracle. Returns true if the text parsed without diagnostics.
fn check_text(ctx: &mut Ctx, mode: Mode, db: &cairo_lang_parser::utils::SimpleParserDatabase, src: &str, origin: &dyn Fn() -> serde_json::Value) {
    if !ctx.sub(|| json!({"text": src, "origin": origin()})) {
        return;
    }
    ctx.count("evaluations", 1);
    let r = ctx.guarded(|| {
        let (root, diags) = db.parse_virtual_with_diagnostics(src);
        let mut bad_span = None;
        let all = diags.get_all();
        for d in &all {
            let (s, e) = (d.span.start.as_u32() as usize, d.span.end.as_u32() as usize);
            if !(s <= e && e <= src.len() && src.is_char_boundary(s) && src.is_char_boundary(e)) {
                bad_span = Some((format!("{:?}", d.kind), s, e));
            }
        }
        let lv = if mode == Mode::Lossless { lossless_violation(db, root, src) } else { None };
        (all.is_empty(), diags.check_error_free().is_ok(), bad_span, lv)
    });
    match r {
        Err((loc, msg)) => {
            if mode == Mode::Total {
                ctx.violation(panic_sig(&loc, &msg), format!("parser panicked at {loc}: {msg}"), json!({"text": src, "origin": origin()}));
            } else {
                ctx.count("parser_panics_left_to_C09", 1);
            }
        }
        Ok((clean, error_free, bad_span, lv)) => {
            if clean {
                ctx.count("texts_without_diagnostics", 1);
            } else {
                ctx.count("texts_with_diagnostics", 1);
            }
            if mode == Mode::Lossless {
                if let Some((sig, what)) = lv {
                    ctx.violation(sig, what, json!({"text": src, "origin": origin()}));
                }
            } else {
                if let Some((k, s, e)) = bad_span {
                    let kind = k.split(['(', '{', ' ']).next().unwrap_or("").to_string();
                    ctx.violation(
                        format!("diag-span-outside-file:{kind}"),
                        format!("diagnostic {k} has span {s}..{e} outside the {}-byte text or off a char boundary", src.len()),
                        json!({"text": src, "origin": origin()}),
                    );
                }
                if error_free {
                    // the user-facing formatting path (refuses texts with parse errors itself)
                    let r = ctx.guarded(|| CairoFormatter::new(FormatterConfig::default()).format_to_string(&src.to_string()).is_ok());
                    ctx.count("formatted", 1);
                    if let Err((loc, msg)) = r {
                        ctx.violation(panic_sig(&loc, &msg), format!("formatter panicked at {loc}: {msg}"), json!({"text": src, "origin": origin()}));
                    }
                }
            }
        }
    }
}

fn enumerate(ctx: &mut Ctx, mode: Mode) {
    let tier = ctx.tier;
    // (a) all strings over SIGMA up to length n, two separators.
    let plans: Vec<(&'static str, &'static [&'static str], usize)> = match tier {
        crate::core::Tier::Quick => vec![("sigma", SIGMA, 3)],
        crate::core::Tier::Thorough => vec![("sigma", SIGMA, 4), ("sigma2", SIGMA2, 5)],
    };
    for (aname, alpha, maxlen) in plans {
        for len in 1..=maxlen {
            // one work item = all strings sharing the first len-1 tokens (|alpha| * 2 strings)
            let prefixes = alpha.len().pow((len - 1) as u32);
            for p in 0..prefixes {
                ctx.case(
                    || json!({"space":"strings","alphabet":aname,"len":len,"prefix_index":p}),
                    |ctx| {
                        let db = new_db();
                        let mut idx = vec![0usize; len];
                        let mut q = p;
                        for k in (0..len - 1).rev() {
                            idx[k] = q % alpha.len();
                            q /= alpha.len();
                        }
                        for last in 0..alpha.len() {
                            idx[len - 1] = last;
                            for sep in [" ", ""] {
                                if len == 1 && sep.is_empty() {
                                    continue;
                                }
                                let s: String = idx.iter().map(|&i| alpha[i]).collect::<Vec<_>>().join(sep);
                                ctx.distinct(&s);
                                if p == 7 % prefixes && last == 3 {
                                    ctx.sample(|| json!({"text": s}));
                                }
                                check_text(ctx, mode, &db, &s, &|| json!({"alphabet":aname,"tokens":idx.iter().map(|&i| alpha[i]).collect::<Vec<_>>(),"sep":sep}));
                            }
                        }
                    },
                );
            }
        }
    }
    // (a') every string of length <= 2 (thorough <= 3) placed in each syntactic context
    let ctx_len = tier.pick(2usize, 3usize);
    for (cname, tpl) in CONTEXTS.iter().skip(1) {
        for len in 1..=ctx_len {
            let prefixes = SIGMA.len().pow((len - 1) as u32);
            for p in 0..prefixes {
                ctx.case(
                    || json!({"space":"strings-in-context","context":cname,"len":len,"prefix_index":p}),
                    |ctx| {
                        let db = new_db();
                        let mut idx = vec![0usize; len];
                        let mut q = p;
                        for k in (0..len - 1).rev() {
                            idx[k] = q % SIGMA.len();
                            q /= SIGMA.len();
                        }
                        for last in 0..SIGMA.len() {
                            idx[len - 1] = last;
                            let inner: String = idx.iter().map(|&i| SIGMA[i]).collect::<Vec<_>>().join(" ");
                            let s = tpl.replace('$', &inner);
                            ctx.distinct(&s);
                            ctx.count("context_texts", 1);
                            check_text(ctx, mode, &db, &s, &|| json!({"context":cname,"tokens":idx.iter().map(|&i| SIGMA[i]).collect::<Vec<_>>()}));
                        }
                    },
                );
            }
        }
    }
    // (a'') the literal lattice: tricky literal lexemes in every position where a literal is evaluated
    let lits = crate::text::literal_texts();
    for (ci, chunk) in lits.chunks(100).enumerate() {
        ctx.case(
            || json!({"space":"literals-in-context","chunk":ci,"first":chunk[0].0}),
            |ctx| {
                let db = new_db();
                for (name, text) in chunk {
                    ctx.distinct(text);
                    ctx.count("literal_texts", 1);
                    check_text(ctx, mode, &db, text, &|| json!({"literal-in-context":name}));
                }
            },
        );
    }
    // (c) nesting families × every depth 1..200
    for (name, f) in nesting_families() {
        for depth in 1..=200usize {
            ctx.case(
                || json!({"space":"nesting","family":name,"depth":depth}),
                |ctx| {
                    let db = new_db();
                    let s = f(depth);
                    ctx.distinct(&s);
                    ctx.count("nesting_texts", 1);
                    check_text(ctx, mode, &db, &s, &|| json!({"family":name,"depth":depth}));
                },
            );
        }
    }
    // (b) TXT(f) for corpus files
    let corpus = cairo_corpus();
    let (max_files, max_bytes) = tier.pick((60usize, 1500usize), (usize::MAX, 8192usize));
    let mut n = 0;
    for (path, src) in &corpus {
        if src.len() > max_bytes {
            // larger files: the unmutated text and token-boundary truncations only (thorough)
            if tier == crate::core::Tier::Thorough {
                ctx.case(
                    || json!({"space":"corpus-large","file":path}),
                    |ctx| {
                        let db = new_db();
                        check_text(ctx, mode, &db, src, &|| json!({"file":path,"mutation":"none"}));
                        let (root, _) = db.parse_virtual_with_diagnostics(src);
                        let toks = token_ranges(&db, root);
                        let step = (toks.len() / 200).max(1);
                        for (s, _, _) in toks.iter().step_by(step) {
                            let db = new_db();
                            check_text(ctx, mode, &db, &src[..*s], &|| json!({"file":path,"mutation":"trunc","at":s}));
                        }
                    },
                );
            }
            continue;
        }
        n += 1;
        if n > max_files {
            continue;
        }
        // work items: the file is cut into chunks of mutants
        let db0 = new_db();
        let (root, _) = db0.parse_virtual_with_diagnostics(src);
        let toks = token_ranges(&db0, root);
        let mut mutants: Vec<(String, String)> = vec![("none".into(), src.clone())];
        text_mutants(src, &toks, src.len() <= 600, |k, m| mutants.push((k.to_string(), m)));
        for (ci, chunk) in mutants.chunks(400).enumerate() {
            ctx.case(
                || json!({"space":"corpus","file":path,"chunk":ci}),
                |ctx| {
                    let db = new_db();
                    for (mi, (kind, m)) in chunk.iter().enumerate() {
                        ctx.distinct(m);
                        ctx.count(&format!("mutants_{kind}"), 1);
                        if ci == 0 && mi == 5 {
                            ctx.sample(|| json!({"file":path,"mutation":kind,"text_prefix":m.chars().take(120).collect::<String>()}));
                        }
                        check_text(ctx, mode, &db, m, &|| json!({"file":path,"mutation":kind,"mutant_index":ci*400+mi}));
                    }
                },
            );
        }
    }
}

fn run_c10(ctx: &mut Ctx) {
    enumerate(ctx, Mode::Lossless)
}

pub static C10: CheckDef = CheckDef {
    id: "C10",
    level: "exploration",
    rule: "Complete enumeration, on the real parser, of: (a) every string over the 69-lexeme alphabet SIGMA of length <=3 (quick) / <=4 plus length <=5 over the 20-lexeme SIGMA2 (thorough), joined with \" \" and with \"\"; (a') every SIGMA string of length <=2 (thorough <=3) placed inside each of 16 syntactic contexts (fn body, struct/enum/trait/impl body, fn/generic/closure parameters, match arms, call arguments, struct constructor, use tree, attribute arguments, let pattern, type position, macro rule); (b) for each corpus .cairo file (quick: 60 smallest <=1.5KB; thorough: all <=8KB) the unmutated text and every single-point mutant: truncation at every char (files<=600B) or token boundary, every token deleted/duplicated/swapped with next/replaced by each of 12 structural lexemes, every bracket-matched subtree deleted/duplicated; (c) 25 nesting constructs x every depth 1..200. Oracle per text: leaves concatenated == text; children spans tile the parent; width == span; leaf text == text[span]; get_text(n)==text[span(n)]; root spans the file. distinct_nontrivial = distinct texts (hash).",
    assumptions: &["SimpleParserDatabase::parse_virtual_with_diagnostics is the parser entry point used by every tool", "texts outside the enumerated spaces are not covered"],
    run: run_c10,
    stack_mb: 8,
    item_timeout_s: 20,
    wall_cap_s: (50, 1500),
    shards: 0,
};

fn run_c09(ctx: &mut Ctx) {
    // the semantic spaces first: they are small, and a capped run still covers them
    crate::c09sem::run(ctx);
    if std::env::var("VERIF_C09_SEM_ONLY").is_ok() {
        return;
    }
    enumerate(ctx, Mode::Total);
}

pub static C09: CheckDef = CheckDef {
    id: "C09",
    level: "exploration",
    rule: "Same enumerated text spaces as C10 (all SIGMA strings up to the length bound, every single-point mutant of corpus files, 25 nesting constructs x every depth 1..200 on an 8 MiB stack) through parse -> diagnostics -> CairoFormatter::format_to_string (when the text has no parse error); plus semantic+lowering diagnostics (whole compiler front end incl. plugins and inline macros) for the format-string lattice (format! / write! / writeln! / print! / println! / panic! / assert! / assert_eq! x 50 placeholder shapes - positional indices at and beyond u32 / u64 / u128, names, specs, unbalanced / escaped braces, spaces, signs, non-ASCII, empty - x 7 argument lists) and for all SIGMA strings of length <=2, all nesting texts at depths {1..40 step, 100, 200} and every single-token SIGMA_MUT mutant of small seed programs. Oracle: returns within the watchdog, no panic/abort/stack overflow, every parser diagnostic span within the text on char boundaries. distinct_nontrivial = distinct texts.",
    assumptions: &["8 MiB stack = default main-thread stack of the CLI tools", "per-item watchdog 20 s stands for 'loops forever'"],
    run: run_c09,
    stack_mb: 8,
    item_timeout_s: 30,
    wall_cap_s: (50, 1500),
    shards: 0,
};
