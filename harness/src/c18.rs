//! C18 — Sierra programs survive every serialization unchanged.

use cairo_lang_sierra::ProgramParser;
use cairo_lang_sierra::ids::{ConcreteLibfuncId, ConcreteTypeId, FunctionId, GenericLibfuncId, GenericTypeId, UserTypeId, VarId};
use cairo_lang_sierra::program::{
    BranchInfo, BranchTarget, ConcreteLibfuncLongId, ConcreteTypeLongId, DeclaredTypeInfo, Function, FunctionSignature, GenericArg, Invocation, LibfuncDeclaration, Param, Program,
    ProgramArtifact, Statement, StatementIdx, TypeDeclaration, VersionedProgram,
};
use cairo_lang_sierra_generator::canonical_id_replacer::CanonicalReplacer;
use cairo_lang_sierra_generator::replace_ids::SierraIdReplacer;
use cairo_lang_sierra_to_casm::compiler::{SierraToCasmConfig, compile};
use cairo_lang_sierra_to_casm::metadata::calc_metadata;
use cairo_lang_sierra_type_size::ProgramRegistryInfo;
use cairo_lang_starknet_classes::contract_class::{ContractClass, ContractEntryPoints};
use num_bigint::BigInt;
use serde_json::json;

use crate::pipe::Cfg;
use crate::core::{CheckDef, Ctx, Tier};
use crate::sierra::corpus;

pub fn casm_text(p: &Program) -> Result<String, String> {
    let info = ProgramRegistryInfo::new(p).map_err(|e| format!("registry: {e}"))?;
    let md = calc_metadata(p, &info, Default::default()).map_err(|e| format!("metadata: {e}"))?;
    let c = compile(p, &info, &md, SierraToCasmConfig { gas_usage_check: true, max_bytecode_size: usize::MAX }).map_err(|e| format!("compile: {e}"))?;
    Ok(c.to_string())
}

pub fn canon(p: &Program) -> Program {
    CanonicalReplacer::from_program(p).apply(p)
}

/// Removes every debug name (what a felt round trip is expected to lose).
/// Debug info compared as maps (a JSON object does not keep the order of its entries).
fn same_debug_info(a: Option<&cairo_lang_sierra::debug_info::DebugInfo>, b: &cairo_lang_sierra::debug_info::DebugInfo) -> bool {
    let Some(a) = a else { return false };
    fn sorted<K: Clone + Ord, V: Clone + Ord>(m: impl Iterator<Item = (K, V)>) -> Vec<(K, V)> {
        let mut v: Vec<(K, V)> = m.collect();
        v.sort();
        v
    }
    sorted(a.type_names.iter().map(|(k, v)| (k.id, v.to_string()))) == sorted(b.type_names.iter().map(|(k, v)| (k.id, v.to_string())))
        && sorted(a.libfunc_names.iter().map(|(k, v)| (k.id, v.to_string()))) == sorted(b.libfunc_names.iter().map(|(k, v)| (k.id, v.to_string())))
        && sorted(a.user_func_names.iter().map(|(k, v)| (k.id, v.to_string()))) == sorted(b.user_func_names.iter().map(|(k, v)| (k.id, v.to_string())))
}

/// Removes the debug names `DebugInfo` does not record: those of user types and of variables.
fn strip_untracked(p: &Program) -> Program {
    let mut q = p.clone();
    fn args(a: &mut [GenericArg]) {
        for x in a {
            if let GenericArg::UserType(u) = x {
                u.debug_name = None;
            }
        }
    }
    for t in &mut q.type_declarations {
        args(&mut t.long_id.generic_args);
    }
    for l in &mut q.libfunc_declarations {
        args(&mut l.long_id.generic_args);
    }
    for s in &mut q.statements {
        match s {
            Statement::Invocation(i) => {
                for a in &mut i.args {
                    a.debug_name = None;
                }
                for b in &mut i.branches {
                    for r in &mut b.results {
                        r.debug_name = None;
                    }
                }
            }
            Statement::Return(v) => {
                for a in v {
                    a.debug_name = None;
                }
            }
        }
    }
    for f in &mut q.funcs {
        for prm in &mut f.params {
            prm.id.debug_name = None;
        }
    }
    q
}

pub fn strip(p: &Program) -> Program {
    let mut q = p.clone();
    fn strip_args(args: &mut [GenericArg]) {
        for a in args {
            match a {
                GenericArg::Type(t) => t.debug_name = None,
                GenericArg::UserFunc(f) => f.debug_name = None,
                GenericArg::Libfunc(l) => l.debug_name = None,
                GenericArg::UserType(u) => u.debug_name = None,
                GenericArg::Value(_) => {}
            }
        }
    }
    for t in &mut q.type_declarations {
        t.id.debug_name = None;
        strip_args(&mut t.long_id.generic_args);
    }
    for l in &mut q.libfunc_declarations {
        l.id.debug_name = None;
        strip_args(&mut l.long_id.generic_args);
    }
    for s in &mut q.statements {
        match s {
            Statement::Invocation(i) => {
                i.libfunc_id.debug_name = None;
                for a in &mut i.args {
                    a.debug_name = None;
                }
                for b in &mut i.branches {
                    for r in &mut b.results {
                        r.debug_name = None;
                    }
                }
            }
            Statement::Return(v) => {
                for a in v {
                    a.debug_name = None;
                }
            }
        }
    }
    for f in &mut q.funcs {
        f.id.debug_name = None;
        for t in f.signature.param_types.iter_mut().chain(f.signature.ret_types.iter_mut()) {
            t.debug_name = None;
        }
        for p in &mut f.params {
            p.id.debug_name = None;
            p.ty.debug_name = None;
        }
    }
    q
}

/// All round trips of one program. `compilable`: also compare CASM of every variant.
fn check_program(ctx: &mut Ctx, name: &str, p: &Program, compilable: bool) {
    ctx.count("evaluations", 1);
    ctx.distinct(&p.to_string());
    let case = |what: &str| json!({"program": name, "roundtrip": what});
    // --- text ---
    let t1 = p.to_string();
    match ProgramParser::new().parse(&t1) {
        Err(e) => {
            let es = format!("{e:?}");
            ctx.violation(format!("text:parse-of-display-fails:{}", parse_err_sig(&es, &t1)), format!("parse(display(s)) fails: {}", es.chars().take(200).collect::<String>()), case("text"))
        }
        Ok(p2) => {
            // "display is a fixpoint after one round": the first round may normalise debug names (e.g. the
            // 1-tuple `(T,)` is re-printed `(T)`), the second must change nothing.
            let t2 = p2.to_string();
            if t2 != t1 {
                ctx.count("text_first_round_renamed", 1);
            }
            match ProgramParser::new().parse(&t2) {
                Err(e) => ctx.violation("text:second-parse-fails", format!("parse(display(parse(display(s)))) fails: {}", format!("{e:?}").chars().take(200).collect::<String>()), case("text")),
                Ok(p3) => {
                    let t3 = p3.to_string();
                    if t3 != t2 {
                        let i = t3.bytes().zip(t2.bytes()).position(|(a, b)| a != b).unwrap_or(0);
                        ctx.violation(
                            "text:display-not-fixpoint",
                            format!("display is not a fixpoint after one round, near {:?} vs {:?}", &t2[i.saturating_sub(40)..(i + 40).min(t2.len())], &t3[i.saturating_sub(40)..(i + 40).min(t3.len())]),
                            case("text"),
                        );
                    }
                }
            }
            // structural isomorphism: same shape and same canonical form
            if canon_shape(&p2) != canon_shape(p) {
                ctx.violation("text:not-isomorphic", "parse(display(s)) is not isomorphic to s (canonical shapes differ)", case("text"));
            }
            if compilable {
                compare_casm(ctx, name, p, &p2, "text");
            }
        }
    }
    // --- json ---
    let vp = VersionedProgram::v1(ProgramArtifact::stripped(p.clone()));
    match serde_json::to_string(&vp).map_err(|e| e.to_string()).and_then(|s| serde_json::from_str::<VersionedProgram>(&s).map_err(|e| e.to_string())) {
        Err(e) => ctx.violation("json:roundtrip-fails", format!("serde_json round trip fails: {e}"), case("json")),
        Ok(vp2) => {
            let p2 = vp2.into_v1().unwrap().program;
            if p2 != *p || p2.to_string() != p.to_string() {
                ctx.violation("json:differs", "VersionedProgram JSON round trip yields a different program", case("json"));
            }
        }
    }
    // --- json with debug info: the artifact round-trips, and the extracted debug names put back onto the
    // name-stripped program give the original program
    {
        use cairo_lang_sierra::debug_info::DebugInfo;
        let di = DebugInfo::extract(p);
        let vp = VersionedProgram::v1(ProgramArtifact::stripped(p.clone()).with_debug_info(di.clone()));
        match serde_json::to_string(&vp).map_err(|e| e.to_string()).and_then(|s| serde_json::from_str::<VersionedProgram>(&s).map_err(|e| e.to_string())) {
            Err(e) => ctx.violation("json:debug-info-roundtrip-fails", format!("serde_json round trip of the artifact with debug info fails: {e}"), case("json+debug-info")),
            Ok(vp2) => {
                let a2 = vp2.into_v1().unwrap();
                if a2.program != *p {
                    ctx.violation("json:debug-info-program-differs", "JSON round trip of the artifact with debug info yields a different program", case("json+debug-info"));
                } else if !same_debug_info(a2.debug_info.as_ref(), &di) {
                    let d2 = a2.debug_info.clone().unwrap_or_default();
                    let what = format!("types {} vs {}, libfuncs {} vs {}, funcs {} vs {}; first type entry {:?} vs {:?}", di.type_names.len(), d2.type_names.len(), di.libfunc_names.len(), d2.libfunc_names.len(), di.user_func_names.len(), d2.user_func_names.len(), di.type_names.iter().next(), d2.type_names.iter().next());
                    ctx.violation("json:debug-info-differs", format!("JSON round trip of the artifact yields different debug info: {what}"), case("json+debug-info"));
                } else {
                    let mut stripped = strip(p);
                    di.populate(&mut stripped);
                    let (a, b) = (strip_untracked(&stripped).to_string(), strip_untracked(p).to_string());
                    if a != b {
                        let first = a.lines().zip(b.lines()).find(|(x, y)| x != y).map(|(x, y)| format!("{x:?} vs {y:?}")).unwrap_or_default();
                        ctx.violation("debug-info:populate-differs", format!("extracting the debug names, stripping all names and populating them again does not give the original program text (user-type and variable names, which debug info does not record, aside): {first}"), case("debug-info"));
                    }
                }
            }
        }
    }
    // --- felts (needs canonical ids) ---
    let c = canon(p);
    match ContractClass::new(&c, ContractEntryPoints::default(), None, Default::default()) {
        Err(e) => {
            ctx.count("felt_unserializable", 1);
            ctx.note(format!("felt serialization refused: {e}"));
        }
        Ok(class) => match class.extract_sierra_program(false) {
            Err(e) => ctx.violation("felt:deserialize-fails", format!("extract_sierra_program(ContractClass::new(canon(s))) fails: {e}"), case("felt")),
            Ok(ext) => {
                let expect = strip(&c);
                if ext.program != expect {
                    let what = first_difference(&expect, &ext.program);
                    ctx.violation(format!("felt:differs:{}", what.0), format!("felt round trip changes the program: {}", what.1), case("felt"));
                } else if ext.program.to_string() != expect.to_string() {
                    ctx.violation("felt:display-differs", "felt round trip equal by ids but prints differently", case("felt"));
                }
                // with debug info repopulated: prints like the original
                if let Ok(ext2) = class.extract_sierra_program(true) {
                    if ext2.program != expect {
                        ctx.violation("felt:differs-with-debug-info", "felt round trip with populated debug info changes ids", case("felt+debug"));
                    }
                }
                if compilable {
                    compare_casm(ctx, name, &c, &ext.program, "felt");
                }
            }
        },
    }
    if compilable {
        compare_casm(ctx, name, p, &c, "canon");
        compare_casm(ctx, name, p, &strip(p), "strip");
    }
}

/// Signature fragment of a lalrpop error: error kind + the offending token / character.
fn parse_err_sig(err: &str, text: &str) -> String {
    let kind = err.split([' ', '{', '(']).next().unwrap_or("").to_string();
    let num = |key: &str| -> Option<usize> {
        let i = err.find(key)? + key.len();
        err[i..].trim_start_matches([' ', '(']).split(|c: char| !c.is_ascii_digit()).next()?.parse().ok()
    };
    let at = num("location:").or_else(|| num("token:"));
    let ch = at.and_then(|i| text.get(i..)).and_then(|s| s.chars().next()).map(|c| c.to_string()).unwrap_or_default();
    // an identifier where punctuation was expected: key by the word in front of it (`Generated core::...`)
    if ch.chars().all(|c| c.is_alphanumeric() || c == '_') && !ch.is_empty() {
        let before = at.and_then(|i| text.get(..i)).unwrap_or("").trim_end();
        let word: String = before.chars().rev().take_while(|c| c.is_alphanumeric() || *c == '_').collect::<String>().chars().rev().collect();
        return format!("{kind}:word-after:{word}");
    }
    format!("{kind}:{ch}")
}

fn first_difference(a: &Program, b: &Program) -> (&'static str, String) {
    if a.type_declarations != b.type_declarations {
        let i = a.type_declarations.iter().zip(&b.type_declarations).position(|(x, y)| x != y);
        return ("types", format!("type declaration {i:?}: {:?} vs {:?}", i.map(|i| a.type_declarations[i].to_string()), i.map(|i| b.type_declarations[i].to_string())));
    }
    if a.libfunc_declarations != b.libfunc_declarations {
        let i = a.libfunc_declarations.iter().zip(&b.libfunc_declarations).position(|(x, y)| x != y);
        return ("libfuncs", format!("libfunc declaration {i:?}: {:?} vs {:?}", i.map(|i| a.libfunc_declarations[i].to_string()), i.map(|i| b.libfunc_declarations[i].to_string())));
    }
    if a.statements != b.statements {
        let i = a.statements.iter().zip(&b.statements).position(|(x, y)| x != y);
        return ("statements", format!("statement {i:?}: {:?} vs {:?}", i.map(|i| a.statements[i].to_string()), i.map(|i| b.statements[i].to_string())));
    }
    let i = a.funcs.iter().zip(&b.funcs).position(|(x, y)| x != y);
    ("funcs", format!("function {i:?}: {:?} vs {:?}", i.map(|i| a.funcs[i].to_string()), i.map(|i| b.funcs[i].to_string())))
}

/// Display of the program with every id (types, libfuncs, functions, user types, variables) renamed by
/// first occurrence and every debug name removed: equal exactly for isomorphic programs.
fn canon_shape(p: &Program) -> String {
    use std::collections::HashMap;
    #[derive(Default)]
    struct R {
        t: HashMap<u64, u64>,
        l: HashMap<u64, u64>,
        f: HashMap<u64, u64>,
        v: HashMap<u64, u64>,
        u: HashMap<num_bigint::BigUint, u64>,
    }
    fn m(map: &mut HashMap<u64, u64>, id: &mut u64) {
        let n = map.len() as u64;
        *id = *map.entry(*id).or_insert(n);
    }
    impl R {
        fn args(&mut self, args: &mut [GenericArg]) {
            for a in args {
                match a {
                    GenericArg::Type(x) => m(&mut self.t, &mut x.id),
                    GenericArg::UserFunc(x) => m(&mut self.f, &mut x.id),
                    GenericArg::Libfunc(x) => m(&mut self.l, &mut x.id),
                    GenericArg::UserType(x) => {
                        let n = self.u.len() as u64;
                        x.id = (*self.u.entry(x.id.clone()).or_insert(n)).into();
                    }
                    GenericArg::Value(_) => {}
                }
            }
        }
    }
    let mut q = strip(p);
    let mut r = R::default();
    for d in &mut q.type_declarations {
        m(&mut r.t, &mut d.id.id);
    }
    for d in &mut q.libfunc_declarations {
        m(&mut r.l, &mut d.id.id);
    }
    for d in &mut q.funcs {
        m(&mut r.f, &mut d.id.id);
    }
    for d in &mut q.type_declarations {
        r.args(&mut d.long_id.generic_args);
    }
    for d in &mut q.libfunc_declarations {
        r.args(&mut d.long_id.generic_args);
    }
    for f in &mut q.funcs {
        for t in f.signature.param_types.iter_mut().chain(f.signature.ret_types.iter_mut()) {
            m(&mut r.t, &mut t.id);
        }
        for p in &mut f.params {
            m(&mut r.v, &mut p.id.id);
            m(&mut r.t, &mut p.ty.id);
        }
    }
    for s in &mut q.statements {
        match s {
            Statement::Invocation(i) => {
                m(&mut r.l, &mut i.libfunc_id.id);
                for a in &mut i.args {
                    m(&mut r.v, &mut a.id);
                }
                for b in &mut i.branches {
                    for x in &mut b.results {
                        m(&mut r.v, &mut x.id);
                    }
                }
            }
            Statement::Return(v) => {
                for a in v {
                    m(&mut r.v, &mut a.id);
                }
            }
        }
    }
    q.to_string()
}

fn compare_casm(ctx: &mut Ctx, name: &str, a: &Program, b: &Program, what: &str) {
    ctx.count("casm_comparisons", 1);
    match (casm_text(a), casm_text(b)) {
        (Ok(x), Ok(y)) => {
            if x != y {
                ctx.violation(format!("casm-differs:{what}"), format!("CASM of the program and of its {what} variant differ"), json!({"program": name, "variant": what}));
            } else {
                ctx.count("casm_identical", 1);
            }
        }
        (Err(_), Err(_)) => ctx.count("casm_both_rejected", 1),
        (x, y) => ctx.violation(
            format!("casm-acceptance-differs:{what}"),
            format!("one of (program, {what} variant) compiles and the other does not: {:?} / {:?}", x.err(), y.err()),
            json!({"program": name, "variant": what}),
        ),
    }
}

// ---- format-case lattice ----------------------------------------------------------------------------

/// Debug names that the toolchain really produces, harvested from the corpus and from compiled examples,
/// one (shortest) representative per punctuation class and kind, plus the longest of each kind.
struct Names {
    types: Vec<String>,
    user_types: Vec<String>,
    funcs: Vec<String>,
    libfuncs: Vec<String>,
}

fn harvest(programs: &[(String, Program)]) -> Names {
    use std::collections::BTreeSet;
    let (mut t, mut u, mut f, mut l) = (BTreeSet::new(), BTreeSet::new(), BTreeSet::new(), BTreeSet::new());
    fn args(a: &[GenericArg], t: &mut BTreeSet<String>, u: &mut BTreeSet<String>, f: &mut BTreeSet<String>, l: &mut BTreeSet<String>) {
        for x in a {
            match x {
                GenericArg::Type(i) => drop(i.debug_name.as_ref().map(|n| t.insert(n.to_string()))),
                GenericArg::UserType(i) => drop(i.debug_name.as_ref().map(|n| u.insert(n.to_string()))),
                GenericArg::UserFunc(i) => drop(i.debug_name.as_ref().map(|n| f.insert(n.to_string()))),
                GenericArg::Libfunc(i) => drop(i.debug_name.as_ref().map(|n| l.insert(n.to_string()))),
                GenericArg::Value(_) => {}
            }
        }
    }
    for (_, p) in programs {
        for d in &p.type_declarations {
            if let Some(n) = &d.id.debug_name {
                t.insert(n.to_string());
            }
            args(&d.long_id.generic_args, &mut t, &mut u, &mut f, &mut l);
        }
        for d in &p.libfunc_declarations {
            if let Some(n) = &d.id.debug_name {
                l.insert(n.to_string());
            }
            args(&d.long_id.generic_args, &mut t, &mut u, &mut f, &mut l);
        }
        for d in &p.funcs {
            if let Some(n) = &d.id.debug_name {
                f.insert(n.to_string());
            }
        }
    }
    fn pick(s: BTreeSet<String>) -> Vec<String> {
        let mut by_class: std::collections::BTreeMap<String, String> = Default::default();
        let mut longest = String::new();
        for n in s {
            let mut class: Vec<char> = n.chars().filter(|c| !c.is_alphanumeric() && *c != '_').collect();
            class.sort();
            class.dedup();
            let class: String = class.into_iter().collect();
            let e = by_class.entry(class).or_insert_with(|| n.clone());
            if n.len() < e.len() {
                *e = n.clone();
            }
            if n.len() > longest.len() {
                longest = n;
            }
        }
        let mut v: Vec<String> = by_class.into_values().collect();
        if !longest.is_empty() && !v.contains(&longest) {
            v.push(longest);
        }
        v
    }
    Names { types: pick(t), user_types: pick(u), funcs: pick(f), libfuncs: pick(l) }
}

fn values() -> Vec<BigInt> {
    let two = BigInt::from(2);
    let p: BigInt = two.pow(251) + BigInt::from(17) * two.pow(192) + 1;
    vec![BigInt::from(0), BigInt::from(1), BigInt::from(-1), two.pow(128), -two.pow(127), &p - BigInt::from(1), BigInt::from(1) - &p, BigInt::from(u64::MAX), BigInt::from(-12345678901234567890i128)]
}

fn ty_ids(n: &Names) -> Vec<ConcreteTypeId> {
    let mut v = vec![ConcreteTypeId::new(0), ConcreteTypeId::new(17), ConcreteTypeId::new(u64::MAX)];
    v.extend(n.types.iter().cloned().map(ConcreteTypeId::from_string));
    v
}

fn generic_args(n: &Names) -> Vec<GenericArg> {
    let mut v = vec![];
    for x in values() {
        v.push(GenericArg::Value(x));
    }
    for t in ty_ids(n) {
        v.push(GenericArg::Type(t));
    }
    for x in &n.user_types {
        v.push(GenericArg::UserType(UserTypeId::from_string(x.clone())));
    }
    for x in &n.funcs {
        v.push(GenericArg::UserFunc(FunctionId::from_string(x.clone())));
    }
    for x in &n.libfuncs {
        v.push(GenericArg::Libfunc(ConcreteLibfuncId::from_string(x.clone())));
    }
    v.push(GenericArg::UserFunc(FunctionId::new(3)));
    v.push(GenericArg::Libfunc(ConcreteLibfuncId::new(4)));
    v.push(GenericArg::UserType(UserTypeId { id: 5u8.into(), debug_name: None }));
    v
}

fn lattice_programs(n: &Names) -> Vec<(String, Program)> {
    let mut out = vec![];
    let empty = Program { type_declarations: vec![], libfunc_declarations: vec![], statements: vec![], funcs: vec![] };
    out.push(("empty".into(), empty.clone()));
    // one generic arg at a time, in a type and in a libfunc declaration, x declared-type-info combos
    for (i, a) in generic_args(n).into_iter().enumerate() {
        for (j, info) in [None, Some((true, true, true, false)), Some((false, false, false, true)), Some((true, false, true, false))].into_iter().enumerate() {
            if j > 0 && i % 7 != 0 {
                continue;
            }
            let mut p = empty.clone();
            p.type_declarations.push(TypeDeclaration {
                id: ConcreteTypeId::new(0),
                long_id: ConcreteTypeLongId { generic_id: GenericTypeId::from_string("Gen"), generic_args: vec![a.clone(), GenericArg::Value(BigInt::from(7))] },
                declared_type_info: info.map(|(storable, droppable, duplicatable, zero_sized)| DeclaredTypeInfo { storable, droppable, duplicatable, zero_sized }),
            });
            p.libfunc_declarations.push(LibfuncDeclaration { id: ConcreteLibfuncId::new(0), long_id: ConcreteLibfuncLongId { generic_id: GenericLibfuncId::from_string("gen_fn"), generic_args: vec![a.clone()] } });
            out.push((format!("genarg#{i}/info{j}"), p));
        }
    }
    // id styles for declared ids / statements / functions
    for (i, t) in ty_ids(n).into_iter().enumerate() {
        let lf = if i % 2 == 0 || n.libfuncs.is_empty() { ConcreteLibfuncId::new(i as u64) } else { ConcreteLibfuncId::from_string(n.libfuncs[i % n.libfuncs.len()].clone()) };
        let func = if i % 3 == 0 || n.funcs.is_empty() { FunctionId::new(0) } else { FunctionId::from_string(n.funcs[(i * 5) % n.funcs.len()].clone()) };
        let v = |k: u64| if i % 4 == 0 { VarId::from_string(format!("v{k}")) } else { VarId::new(k) };
        let mut p = empty.clone();
        p.type_declarations.push(TypeDeclaration { id: t.clone(), long_id: ConcreteTypeLongId { generic_id: GenericTypeId::from_string("felt252"), generic_args: vec![] }, declared_type_info: None });
        p.libfunc_declarations.push(LibfuncDeclaration { id: lf.clone(), long_id: ConcreteLibfuncLongId { generic_id: GenericLibfuncId::from_string("store_temp"), generic_args: vec![GenericArg::Type(t.clone())] } });
        // statement shapes: 0 / 1 / many branches, fallthrough vs explicit target, 0..n args/results
        p.statements.push(Statement::Invocation(Invocation { libfunc_id: lf.clone(), args: vec![v(0)], branches: vec![BranchInfo { target: BranchTarget::Fallthrough, results: vec![v(1)] }] }));
        p.statements.push(Statement::Invocation(Invocation { libfunc_id: lf.clone(), args: vec![], branches: vec![] }));
        p.statements.push(Statement::Invocation(Invocation {
            libfunc_id: lf.clone(),
            args: vec![v(1), v(2), v(3)],
            branches: vec![
                BranchInfo { target: BranchTarget::Fallthrough, results: vec![] },
                BranchInfo { target: BranchTarget::Statement(StatementIdx(0)), results: vec![v(4), v(5)] },
                BranchInfo { target: BranchTarget::Statement(StatementIdx(5)), results: vec![v(6)] },
            ],
        }));
        p.statements.push(Statement::Invocation(Invocation { libfunc_id: lf.clone(), args: vec![v(7)], branches: vec![BranchInfo { target: BranchTarget::Statement(StatementIdx(1)), results: vec![v(8)] }] }));
        p.statements.push(Statement::Return(vec![]));
        p.statements.push(Statement::Return(vec![v(1), v(2)]));
        p.funcs.push(Function {
            id: func.clone(),
            signature: FunctionSignature { param_types: vec![t.clone()], ret_types: vec![t.clone(), t.clone()] },
            params: vec![Param { id: v(0), ty: t.clone() }],
            entry_point: StatementIdx(0),
        });
        if i % 3 == 0 {
            p.funcs.push(Function { id: FunctionId::new(1), signature: FunctionSignature { param_types: vec![], ret_types: vec![] }, params: vec![], entry_point: StatementIdx(4) });
        }
        out.push((format!("ids#{i}"), p));
    }
    // ladders: sizes, indices, name lengths and values at the boundaries of the encodings (one byte / two bytes /
    // 31-byte short strings / 64 and 128 bits / the field prime)
    let ks: Vec<u64> = vec![0, 1, 254, 255, 256, 257, 65535, 65536, u32::MAX as u64, u32::MAX as u64 + 1, 1 << 63, u64::MAX];
    let felt_ty = |id: ConcreteTypeId| TypeDeclaration { id, long_id: ConcreteTypeLongId { generic_id: GenericTypeId::from_string("felt252"), generic_args: vec![] }, declared_type_info: None };
    for k in &ks {
        // ids of every kind with numeric value k
        let mut p = empty.clone();
        p.type_declarations.push(felt_ty(ConcreteTypeId::new(*k)));
        p.libfunc_declarations.push(LibfuncDeclaration { id: ConcreteLibfuncId::new(*k), long_id: ConcreteLibfuncLongId { generic_id: GenericLibfuncId::from_string("store_temp"), generic_args: vec![GenericArg::Type(ConcreteTypeId::new(*k))] } });
        p.statements.push(Statement::Invocation(Invocation { libfunc_id: ConcreteLibfuncId::new(*k), args: vec![VarId::new(*k)], branches: vec![BranchInfo { target: BranchTarget::Fallthrough, results: vec![VarId::new(k.wrapping_add(1))] }] }));
        p.statements.push(Statement::Return(vec![VarId::new(k.wrapping_add(1))]));
        p.funcs.push(Function { id: FunctionId::new(*k), signature: FunctionSignature { param_types: vec![ConcreteTypeId::new(*k)], ret_types: vec![ConcreteTypeId::new(*k)] }, params: vec![Param { id: VarId::new(*k), ty: ConcreteTypeId::new(*k) }], entry_point: StatementIdx(0) });
        out.push((format!("ladder:id={k}"), p));
    }
    for n in [0usize, 1, 2, 254, 255, 256, 257, 300] {
        // n statements with a branch to the last one; n generic args; n params; n declarations
        let mut p = empty.clone();
        p.type_declarations.push(felt_ty(ConcreteTypeId::new(0)));
        p.libfunc_declarations.push(LibfuncDeclaration { id: ConcreteLibfuncId::new(0), long_id: ConcreteLibfuncLongId { generic_id: GenericLibfuncId::from_string("gen_fn"), generic_args: (0..n).map(|i| GenericArg::Value(BigInt::from(i))).collect() } });
        for i in 0..n {
            p.statements.push(Statement::Invocation(Invocation { libfunc_id: ConcreteLibfuncId::new(0), args: vec![], branches: vec![BranchInfo { target: BranchTarget::Statement(StatementIdx(n - 1)), results: vec![] }, BranchInfo { target: if i % 2 == 0 { BranchTarget::Fallthrough } else { BranchTarget::Statement(StatementIdx(i / 2)) }, results: vec![] }] }));
        }
        p.statements.push(Statement::Return((0..n as u64).map(VarId::new).collect()));
        p.funcs.push(Function {
            id: FunctionId::new(0),
            signature: FunctionSignature { param_types: vec![ConcreteTypeId::new(0); n], ret_types: vec![ConcreteTypeId::new(0); n] },
            params: (0..n as u64).map(|i| Param { id: VarId::new(i), ty: ConcreteTypeId::new(0) }).collect(),
            entry_point: StatementIdx(n),
        });
        for i in 1..n.min(300) {
            p.type_declarations.push(felt_ty(ConcreteTypeId::new(i as u64)));
        }
        out.push((format!("ladder:count={n}"), p));
    }
    for len in [1usize, 2, 30, 31, 32, 33, 62, 63, 64, 100] {
        let name = "n".repeat(len);
        let mut p = empty.clone();
        p.type_declarations.push(TypeDeclaration { id: ConcreteTypeId::from_string(name.clone()), long_id: ConcreteTypeLongId { generic_id: GenericTypeId::from_string(name.clone()), generic_args: vec![GenericArg::UserType(UserTypeId::from_string(name.clone()))] }, declared_type_info: None });
        p.libfunc_declarations.push(LibfuncDeclaration { id: ConcreteLibfuncId::from_string(name.clone()), long_id: ConcreteLibfuncLongId { generic_id: GenericLibfuncId::from_string(name.clone()), generic_args: vec![GenericArg::UserFunc(FunctionId::from_string(name.clone()))] } });
        p.statements.push(Statement::Return(vec![]));
        p.funcs.push(Function { id: FunctionId::from_string(name.clone()), signature: FunctionSignature { param_types: vec![], ret_types: vec![] }, params: vec![], entry_point: StatementIdx(0) });
        out.push((format!("ladder:name-length={len}"), p));
    }
    let two = BigInt::from(2);
    let prime: BigInt = two.pow(251) + BigInt::from(17) * two.pow(192) + 1;
    let mut vals: Vec<BigInt> = vec![prime.clone(), &prime + 1, &prime * 2, -prime.clone(), &prime - 2];
    for k in [7u32, 8, 15, 16, 31, 32, 63, 64, 127, 128, 129, 250, 251, 252, 255, 256] {
        for d in [-1i32, 0, 1] {
            vals.push(two.pow(k) + d);
            vals.push(-(two.pow(k) + d));
        }
    }
    for (i, chunk) in vals.chunks(6).enumerate() {
        let mut p = empty.clone();
        p.type_declarations.push(TypeDeclaration { id: ConcreteTypeId::new(0), long_id: ConcreteTypeLongId { generic_id: GenericTypeId::from_string("Gen"), generic_args: chunk.iter().cloned().map(GenericArg::Value).collect() }, declared_type_info: None });
        p.libfunc_declarations.push(LibfuncDeclaration { id: ConcreteLibfuncId::new(0), long_id: ConcreteLibfuncLongId { generic_id: GenericLibfuncId::from_string("gen_fn"), generic_args: chunk.iter().rev().cloned().map(GenericArg::Value).collect() } });
        out.push((format!("ladder:values#{i}"), p));
    }
    out
}

fn check_lattice_program(ctx: &mut Ctx, name: &str, p: &Program) {
    ctx.count("evaluations", 1);
    ctx.count("lattice_programs", 1);
    let t1 = p.to_string();
    ctx.distinct(&t1);
    let case = |what: &str| json!({"lattice": name, "roundtrip": what, "text": t1});
    match ProgramParser::new().parse(&t1) {
        Err(e) => {
            let es = format!("{e:?}");
            ctx.violation(format!("lattice:text:parse-of-display-fails:{}", parse_err_sig(&es, &t1)), format!("parse(display(s)) fails: {}", es.chars().take(200).collect::<String>()), case("text"))
        }
        Ok(p2) => {
            let t2 = p2.to_string();
            if t2 == t1 {
                if p2 != *p {
                    let d = first_difference(p, &p2);
                    ctx.violation(format!("lattice:text:ids-differ:{}", d.0), format!("parse(display(s)) prints like s but != s: {}", d.1), case("text"));
                }
            } else {
                ctx.count("text_first_round_renamed", 1);
                match ProgramParser::new().parse(&t2) {
                    Ok(p3) if p3.to_string() == t2 => {}
                    _ => ctx.violation("lattice:text:display-not-fixpoint", format!("display is not a fixpoint after one round: {:?}", t2.chars().take(300).collect::<String>()), case("text")),
                }
                if canon_shape(&p2) != canon_shape(p) {
                    ctx.violation("lattice:text:not-isomorphic", "parse(display(s)) is not isomorphic to s", case("text"));
                }
            }
        }
    }
    let vp = VersionedProgram::v1(ProgramArtifact::stripped(p.clone()));
    match serde_json::to_string(&vp).map_err(|e| e.to_string()).and_then(|s| serde_json::from_str::<VersionedProgram>(&s).map_err(|e| e.to_string())) {
        Err(e) => ctx.violation("lattice:json:roundtrip-fails", format!("serde_json round trip fails: {e}"), case("json")),
        Ok(vp2) => {
            let p2 = vp2.into_v1().unwrap().program;
            if p2 != *p || p2.to_string() != t1 {
                ctx.violation("lattice:json:differs", "JSON round trip yields a different program", case("json"));
            }
        }
    }
    // lattice programs refer to undeclared ids, which the canonical replacer (rightly) refuses: those whose
    // declared ids are already canonical are serialized as they are
    let declared_canonical = p.type_declarations.iter().enumerate().all(|(i, d)| d.id.id == i as u64)
        && p.libfunc_declarations.iter().enumerate().all(|(i, d)| d.id.id == i as u64)
        && p.funcs.iter().enumerate().all(|(i, d)| d.id.id == i as u64);
    let c = if declared_canonical { p.clone() } else { canon(p) };
    match ContractClass::new(&c, ContractEntryPoints::default(), None, Default::default()) {
        Err(e) => {
            // the felt format has a documented domain: generic ids of at most 31 bytes (longer ones only from a fixed
            // list), values below the field prime in magnitude; inside it, serialization must not be refused
            let prime: BigInt = BigInt::from(2).pow(251) + BigInt::from(17) * BigInt::from(2).pow(192) + 1;
            fn values_ok(args: &[GenericArg], prime: &BigInt) -> bool {
                args.iter().all(|a| match a {
                    GenericArg::Value(v) => &BigInt::from(v.magnitude().clone()) < prime,
                    _ => true,
                })
            }
            let ids_ok = c.type_declarations.iter().all(|d| d.long_id.generic_id.0.len() <= 31 && values_ok(&d.long_id.generic_args, &prime))
                && c.libfunc_declarations.iter().all(|d| d.long_id.generic_id.0.len() <= 31 && values_ok(&d.long_id.generic_args, &prime));
            // (only the ladders are guaranteed to use declared ids throughout)
            let all_numeric = name.starts_with("ladder:");
            if ids_ok && all_numeric {
                ctx.violation("lattice:felt:serialization-refused-within-domain", format!("a program inside the domain of the felt format (generic ids <= 31 bytes, values below P) is refused: {e}"), case("felt"));
            } else {
                ctx.count("felt_unserializable", 1);
                ctx.note(format!("felt serialization refused ({name}; ids_ok={ids_ok} numeric={all_numeric}): {e}"));
            }
        }
        Ok(class) => match class.extract_sierra_program(false) {
            Err(e) => ctx.violation("lattice:felt:deserialize-fails", format!("deserialization of a serialized program fails: {e}"), case("felt")),
            Ok(ext) => {
                let expect = strip(&c);
                if ext.program != expect {
                    let d = first_difference(&expect, &ext.program);
                    ctx.violation(format!("lattice:felt:differs:{}", d.0), format!("felt round trip changes the program: {}", d.1), case("felt"));
                }
            }
        },
    }
}

fn run(ctx: &mut Ctx) {
    let tier = ctx.tier;
    let progs = corpus(true);
    let max_stmts = tier.pick(400, usize::MAX);
    for (name, p) in &progs {
        if p.statements.len() > max_stmts {
            continue;
        }
        ctx.case(
            || json!({"space":"corpus","program":name}),
            |ctx| {
                ctx.sample(|| json!({"program":name,"statements":p.statements.len()}));
                check_program(ctx, name, p, true);
            },
        );
    }
    let mut harvest_from: Vec<(String, Program)> = progs.clone();
    harvest_from.extend(crate::cairo_corpus::compiled_examples());
    let names = harvest(&harvest_from);
    for (name, p) in lattice_programs(&names) {
        ctx.case(|| json!({"space":"lattice","program":name}), |ctx| check_lattice_program(ctx, &name, &p));
    }
    // the instantiation lattice of C14: one function per accepted (libfunc, generic arguments) pair over edge
    // types - zero-sized, empty enum, consts of every shape, circuit gates - none produced by the compiler
    let inst = crate::c14inst::compiled_wrappers(tier);
    for chunk in inst.chunks(40) {
        ctx.case(
            || json!({"space":"instantiation-lattice","first":chunk[0].0}),
            |ctx| {
                for (name, p) in chunk {
                    ctx.count("instantiation_programs", 1);
                    check_program(ctx, name, p, true);
                }
            },
        );
    }
    // thorough: the Sierra the compiler generates for every corpus snippet under the corner configurations
    // (inlining / const folding / match lowering change which libfuncs, generic arguments and debug names occur)
    if tier == Tier::Thorough {
        let cfgs: Vec<Cfg> = Cfg::corners().into_iter().filter(|c| c.linear).collect();
        for snip in crate::exec::snippets(tier) {
            ctx.case(
                || json!({"space":"compiled-snippets","snippet":snip.name}),
                |ctx| {
                    let mut dbs = crate::exec::Dbs::default();
                    let mut seen = std::collections::BTreeSet::new();
                    for cfg in &cfgs {
                        let Ok(Ok(p)) = crate::core::guarded(|| dbs.compile_snip(cfg, &snip)) else { continue };
                        if !seen.insert(crate::core::hash_of(&p.to_string())) {
                            continue;
                        }
                        ctx.count("compiled_snippet_programs", 1);
                        check_program(ctx, &format!("{}@{}", snip.name, cfg.name()), &p, true);
                    }
                },
            );
        }
    }
    // Sierra generated by the compiler from the examples (every generic-arg kind the generator emits)
    if tier == Tier::Thorough || true {
        ctx.case(
            || json!({"space":"compiled-examples"}),
            |ctx| {
                for (name, p) in crate::cairo_corpus::compiled_examples() {
                    check_program(ctx, &name, &p, true);
                }
            },
        );
    }
}

pub static C18: CheckDef = CheckDef {
    id: "C18",
    level: "exploration",
    rule: "[format lattice extended by ladders: ids of every kind with numeric values at 0/1/254..257/65535/65536/2^32±/2^63/u64::MAX; programs with 0..300 statements, generic args, parameters, declarations and branch targets to the last statement; names of 1..100 characters around the 31-character short-string limit; values 2^k and 2^k±1 (k = 7..256) of both signs, P, P±1, 2P, -P] [thorough also: the Sierra generated for every corpus snippet (e2e + wrappers + hand-written + divergence family + examples/bug_samples files) under the 5 corner front-end configurations, deduplicated] [also over every compiling wrapper program of the C14 instantiation lattice (~960 quick), none of which the compiler produces] Complete pass over (a) every parseable corpus Sierra program (e2e sierra_code sections + *.sierra files; quick: <=400 statements) and the Sierra the compiler generates for examples/ (debug-name ids), and (b) a programmatically built format lattice: every GenericArg kind x 10 boundary values / 24 id spellings (numeric, 1..70 chars, containing :: <> [] @ , digits) in a type and a libfunc declaration x declared-type-info combinations; every id style x statement shape (0/1/3 branches, fallthrough/explicit, 0..3 args/results, empty return, function without params). Oracles: parse(display(s)) succeeds, display is a fixpoint, parsed program isomorphic (equal canonical shape; equal ids on the lattice); serde_json VersionedProgram round trip equal, also with the extracted DebugInfo attached (program equal, debug info equal as maps), and DebugInfo::extract -> strip all names -> populate gives the original text up to user-type and variable names; extract_sierra_program(ContractClass::new(canon(s))) == canon(s) minus debug names; CASM text of s, canon(s), name-stripped s, text- and felt-round-tripped s byte-identical (or all rejected). distinct_nontrivial = distinct program texts.",
    assumptions: &["Program equality is id-based (debug names ignored), as defined by the crate", "lattice programs need not be valid Sierra: only serialization is exercised on them"],
    run,
    stack_mb: 16,
    item_timeout_s: 120,
    wall_cap_s: (50, 900),
    shards: 0,
};
