//! Cairo source corpora compiled in-process.

use std::path::Path;

use cairo_lang_compiler::project::setup_project;
use cairo_lang_filesystem::ids::CrateInput;
use cairo_lang_sierra::program::Program;
use cairo_lang_sierra_generator::db::SierraGenGroup;
use cairo_lang_sierra_generator::replace_ids::replace_sierra_ids_in_program;

use crate::pipe::{Cfg, new_db};

/// Sierra (debug-name ids) of the `examples/` crate under `cfg`.
pub fn compile_project(path: &str, cfg: &Cfg) -> Option<Program> {
    let mut db = new_db(cfg);
    let inputs = setup_project(&mut db, Path::new(path)).ok()?;
    let ids = CrateInput::into_crate_ids(&db, inputs);
    let p = db.get_sierra_program(ids).ok()?;
    Some(replace_sierra_ids_in_program(&db, &p.program))
}

pub fn compiled_examples() -> Vec<(String, Program)> {
    let mut out = vec![];
    if let Some(p) = compile_project("/repo/examples", &Cfg::DEFAULT) {
        out.push(("compiled:examples".to_string(), p));
    }
    out
}
