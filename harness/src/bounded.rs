//! Bounded-integer lattice with exact oracles (part of C06; C02 requires the same runs to be `Ok`):
//! `downcast` between ranges in every relative position (the four cast types: may overflow above / below /
//! both / neither, source small or the full felt252 range), `bounded_int_constrain` at every admissible kind
//! of boundary, `bounded_int_trim_min/max`, `bounded_int_add/sub/mul` with the tightest result ranges -
//! each run on the values around every constant the generated code compares against.

use cairo_lang_runner::{Arg, RunResultValue};
use num_bigint::BigInt;
use num_traits::{One, Signed, Zero};
use serde_json::json;
use starknet_types_core::felt::Felt;

use crate::c06::to_felt;
use crate::core::{Ctx, Tier, guarded};
use crate::exec::Dbs;
use crate::pipe::*;

#[derive(Clone, Debug, PartialEq)]
pub struct R {
    pub lo: BigInt,
    pub hi: BigInt,
    /// the full felt252 range (a source type only)
    pub felt: bool,
}

fn two(k: u32) -> BigInt {
    BigInt::one() << k
}

fn prime() -> BigInt {
    two(251) + BigInt::from(17) * two(192) + 1
}

impl R {
    fn new(lo: BigInt, hi: BigInt) -> R {
        R { lo, hi, felt: false }
    }
    fn size(&self) -> BigInt {
        &self.hi - &self.lo + 1
    }
    fn small(&self) -> bool {
        self.size() <= two(128)
    }
    pub fn ty(&self) -> String {
        if self.felt {
            return "felt252".into();
        }
        for (n, bits, signed) in [("u8", 8u32, false), ("u16", 16, false), ("u32", 32, false), ("u64", 64, false), ("u128", 128, false), ("i8", 8, true), ("i16", 16, true), ("i32", 32, true), ("i64", 64, true), ("i128", 128, true)] {
            let (lo, hi) = if signed { (-two(bits - 1), two(bits - 1) - 1) } else { (BigInt::zero(), two(bits) - 1) };
            if self.lo == lo && self.hi == hi {
                return n.into();
            }
        }
        format!("BoundedInt<{}, {}>", self.lo, self.hi)
    }
    fn contains(&self, v: &BigInt) -> bool {
        *v >= self.lo && *v <= self.hi
    }
}

/// The ranges of the lattice.
pub fn ranges() -> Vec<R> {
    let n = |x: i64| BigInt::from(x);
    let t = two(123) + BigInt::from(17) * two(64);
    vec![
        R::new(n(0), n(255)),
        R::new(n(-128), n(127)),
        R::new(n(0), two(64) - 1),
        R::new(n(5), n(10)),
        R::new(n(-10), n(-5)),
        R::new(n(-5), n(127)),
        R::new(n(-128), n(-3)),
        R::new(n(0), n(0)),
        R::new(n(7), n(7)),
        R::new(n(0), two(128) - 1),
        R::new(-two(127), two(127) - 1),
        R::new(n(1), two(128)),
        R::new(-two(128) + 1, n(0)),
        R::new(n(-5), two(128) - 6),
        R::new(two(128) - 5, two(128) + 5),
        R::new(two(128), two(128) + 100),
        R::new(n(5), two(128) + 3),
        R::new(-two(128), n(-1)),
        R::new(two(250), two(250) + 100),
        R::new(-two(250) - 100, -two(250)),
        R::new(n(0), &t - 2),
        R::new(n(0), &t - 1),
        R::new(n(0), t.clone()),
        R::new(n(0), two(200)),
        R::new(-two(200), two(200)),
        R { lo: n(0), hi: prime() - 1, felt: true },
    ]
}

fn around(xs: &[&BigInt]) -> Vec<BigInt> {
    let mut v = vec![];
    for x in xs {
        for d in [-1, 0, 1] {
            v.push(*x + BigInt::from(d));
        }
    }
    v
}

fn dedup_in(mut v: Vec<BigInt>, r: &R) -> Vec<BigInt> {
    v.retain(|x| r.contains(x));
    v.sort();
    v.dedup();
    v
}

struct Func {
    name: String,
    text: String,
    /// inputs and the expected result felts
    cases: Vec<(Vec<BigInt>, Vec<BigInt>)>,
    what: String,
}

const PRELUDE: &str = "#[feature(\"bounded-int-utils\")]\nuse core::internal::bounded_int::{self, BoundedInt, AddHelper, SubHelper, MulHelper, ConstrainHelper, TrimMinHelper, TrimMaxHelper, downcast, upcast};\nuse core::internal::OptionRev;\n";

fn downcast_funcs(tier: Tier) -> Vec<Vec<Func>> {
    let rs = ranges();
    let p = prime();
    let mut out = vec![];
    for (i, from) in rs.iter().enumerate() {
        if !(from.small() || from.felt) {
            continue;
        }
        let mut fs = vec![];
        for (j, to) in rs.iter().enumerate() {
            if i == j || to.felt {
                continue;
            }
            // the destination is first intersected with the source; disjoint ranges are refused, and from
            // felt252 the destination must be narrower than P mod (2^128 - 1)
            // (a felt252 stands for both x and x - P: its range is [1 - P, P - 1])
            let (flo, fhi) = if from.felt { (BigInt::one() - &p, &p - 1) } else { (from.lo.clone(), from.hi.clone()) };
            let lo = to.lo.clone().max(flo);
            let hi = to.hi.clone().min(fhi);
            if lo > hi || &hi - &lo + 1 > two(128) {
                continue;
            }
            if from.felt && &hi - &lo + 1 >= &p % (two(128) - 1) {
                continue;
            }
            if tier == Tier::Quick && (i + j) % 2 == 1 && !from.felt {
                continue;
            }
            let mut vals = around(&[&from.lo, &from.hi, &to.lo, &to.hi, &BigInt::zero(), &two(128), &(-two(128)), &(&to.lo + two(128)), &(&to.hi + two(128)), &(&to.hi - two(128)), &(&to.lo - two(128))]);
            vals.push((&from.lo + &from.hi) / 2);
            if from.felt {
                vals.extend(around(&[&(&p - two(128)), &((&p - 1) / 2), &two(251), &(&p + &to.lo), &(&p + &to.hi)]));
            }
            let vals = dedup_in(vals, from);
            let cases = vals
                .into_iter()
                .map(|v| {
                    let neg = &v - &p;
                    let ok = (v >= lo && v <= hi) || (from.felt && neg >= lo && neg <= hi);
                    let exp = if ok { vec![BigInt::one(), v.clone()] } else { vec![BigInt::zero(), BigInt::zero()] };
                    (vec![v], exp)
                })
                .collect();
            let (ft, tt) = (from.ty(), to.ty());
            fs.push(Func {
                name: format!("d{i}_{j}"),
                text: format!("fn d{i}_{j}(a: {ft}) -> (felt252, felt252) {{ match downcast::<{ft}, {tt}>(a) {{ Some(v) => (1, v.into()), None => (0, 0) }} }}\n"),
                cases,
                what: format!("downcast::<{ft}, {tt}>"),
            });
        }
        out.push(fs);
    }
    out
}

fn constrain_trim_funcs() -> Vec<Vec<Func>> {
    let rs = ranges();
    let mut out = vec![];
    for (i, r) in rs.iter().enumerate() {
        if r.felt || r.lo == r.hi {
            continue;
        }
        let mut fs = vec![];
        let t = r.ty();
        // boundaries: next to either end, the middle, zero, and those making a half exactly 2^128 wide
        let ks = dedup_in(vec![&r.lo + 1, r.hi.clone(), (&r.lo + &r.hi) / 2, BigInt::zero(), BigInt::one(), &r.lo + two(128), &r.hi - two(128) + 1, &r.lo + two(128) + 1, &r.hi - two(128)], r);
        for (ki, k) in ks.iter().enumerate() {
            if *k <= r.lo || k - &r.lo > two(128) || &r.hi - k + 1 > two(128) {
                continue;
            }
            let vals = dedup_in(around(&[&r.lo, &r.hi, k, &BigInt::zero(), &(k - two(128)), &(k + two(128))]), r);
            let cases = vals.into_iter().map(|v| (vec![v.clone()], vec![if v < *k { BigInt::zero() } else { BigInt::one() }, v])).collect();
            fs.push(Func {
                name: format!("c{i}_{ki}"),
                text: format!(
                    "{}impl C{i}_{ki} of ConstrainHelper<{t}, {k}> {{ type LowT = BoundedInt<{}, {}>; type HighT = BoundedInt<{k}, {}>; }}\nfn c{i}_{ki}(a: {t}) -> (felt252, felt252) {{ match bounded_int::constrain::<{t}, {k}>(a) {{ Ok(l) => (0, l.into()), Err(h) => (1, h.into()) }} }}\n",
                    // (the corelib already has the impls that split the signed integer types at 0)
                    if k.is_zero() && t.starts_with('i') { "// " } else { "" },
                    r.lo,
                    k - 1,
                    r.hi
                ),
                cases,
                what: format!("bounded_int_constrain::<{t}, {k}>"),
            });
        }
        // trim_min / trim_max for the ranges that are not standard integer types (those have corelib impls)
        let vals = dedup_in(around(&[&r.lo, &r.hi, &BigInt::zero()]), r);
        if t.starts_with("BoundedInt") {
            let cases = vals.iter().map(|v| (vec![v.clone()], if *v == r.lo { vec![BigInt::zero(), BigInt::zero()] } else { vec![BigInt::one(), v.clone()] })).collect();
            fs.push(Func {
                name: format!("tmin{i}"),
                text: format!("impl TMin{i} of TrimMinHelper<{t}> {{ type Target = BoundedInt<{}, {}>; }}\nfn tmin{i}(a: {t}) -> (felt252, felt252) {{ match bounded_int::trim_min::<{t}>(a) {{ OptionRev::Some(v) => (1, v.into()), OptionRev::None => (0, 0) }} }}\n", &r.lo + 1, r.hi),
                cases,
                what: format!("bounded_int_trim_min::<{t}>"),
            });
            let cases = vals.iter().map(|v| (vec![v.clone()], if *v == r.hi { vec![BigInt::zero(), BigInt::zero()] } else { vec![BigInt::one(), v.clone()] })).collect();
            fs.push(Func {
                name: format!("tmax{i}"),
                text: format!("impl TMax{i} of TrimMaxHelper<{t}> {{ type Target = BoundedInt<{}, {}>; }}\nfn tmax{i}(a: {t}) -> (felt252, felt252) {{ match bounded_int::trim_max::<{t}>(a) {{ OptionRev::Some(v) => (1, v.into()), OptionRev::None => (0, 0) }} }}\n", r.lo, &r.hi - 1),
                cases,
                what: format!("bounded_int_trim_max::<{t}>"),
            });
        }
        out.push(fs);
    }
    out
}

fn arith_funcs(tier: Tier) -> Vec<Vec<Func>> {
    let rs = ranges();
    let p = prime();
    let mut out = vec![];
    for (i, a) in rs.iter().enumerate() {
        if a.felt {
            continue;
        }
        let mut fs = vec![];
        for (j, b) in rs.iter().enumerate() {
            if b.felt || (tier == Tier::Quick && (i + j) % 3 != 0) {
                continue;
            }
            let (ta, tb) = (a.ty(), b.ty());
            let corners = |f: &dyn Fn(&BigInt, &BigInt) -> BigInt| -> (BigInt, BigInt) {
                let c = [f(&a.lo, &b.lo), f(&a.lo, &b.hi), f(&a.hi, &b.lo), f(&a.hi, &b.hi)];
                (c.iter().min().unwrap().clone(), c.iter().max().unwrap().clone())
            };
            let va = dedup_in(around(&[&a.lo, &a.hi, &BigInt::zero()]), a);
            let vb = dedup_in(around(&[&b.lo, &b.hi, &BigInt::zero()]), b);
            for (op, helper, f) in [
                ("add", "AddHelper", (&|x: &BigInt, y: &BigInt| x + y) as &dyn Fn(&BigInt, &BigInt) -> BigInt),
                ("sub", "SubHelper", &|x: &BigInt, y: &BigInt| x - y),
                ("mul", "MulHelper", &|x: &BigInt, y: &BigInt| x * y),
            ] {
                let (lo, hi) = corners(f);
                // the result range must be representable: narrower than the field
                if &hi - &lo + 1 >= p || lo.abs() >= p || hi.abs() >= p {
                    continue;
                }
                let mut cases = vec![];
                for x in &va {
                    for y in &vb {
                        cases.push((vec![x.clone(), y.clone()], vec![f(x, y)]));
                    }
                }
                fs.push(Func {
                    name: format!("{op}{i}_{j}"),
                    text: format!("impl H{op}{i}_{j} of {helper}<{ta}, {tb}> {{ type Result = BoundedInt<{lo}, {hi}>; }}\nfn {op}{i}_{j}(a: {ta}, b: {tb}) -> felt252 {{ bounded_int::{op}(a, b).into() }}\n"),
                    cases,
                    what: format!("bounded_int_{op}::<{ta}, {tb}>"),
                });
            }
        }
        out.push(fs);
    }
    out
}

/// Compiles a module of functions; when it does not compile, each function on its own (refused
/// instantiations are counted, not judged).
fn compile_funcs<'a>(ctx: &mut Ctx, dbs: &mut Dbs, fs: &'a [Func]) -> Vec<(Compiled, Vec<&'a Func>)> {
    let cfg = Cfg::DEFAULT;
    let build = |dbs: &mut Dbs, fs: &[&'a Func]| -> Result<Compiled, String> {
        let text: String = std::iter::once(PRELUDE.to_string()).chain(fs.iter().map(|f| f.text.clone())).collect();
        match guarded(|| dbs.compile(&cfg, &text)) {
            Ok(Ok(p)) => match guarded(|| make_runner(p, &cfg)) {
                Ok(Ok(c)) => Ok(c),
                Ok(Err(e)) => Err(format!("sierra-to-casm: {e}")),
                Err((loc, msg)) => Err(format!("panic at {loc}: {msg}")),
            },
            Ok(Err(e)) => Err(e),
            Err((loc, msg)) => {
                dbs.forget(&cfg);
                Err(format!("panic at {loc}: {msg}"))
            }
        }
    };
    let all: Vec<&Func> = fs.iter().collect();
    if let Ok(c) = build(dbs, &all) {
        return vec![(c, all)];
    }
    let mut out = vec![];
    for f in fs {
        match build(dbs, &[f]) {
            Ok(c) => out.push((c, vec![f])),
            Err(e) => {
                // a refusal by the Sierra specialization is expected for some range pairs; anything else (a
                // panic in a later stage) is C08's and C14's business - they compile the same sources
                ctx.count(if e.contains("Failed to specialize") || e.contains("specialize") { "bounded_instantiations_refused" } else { "bounded_instantiations_failing_otherwise" }, 1);
                ctx.note(format!("{} not compiled: {}", f.what, e.chars().take(160).collect::<String>()));
            }
        }
    }
    out
}

/// The hint-carrying instantiations (downcast, constrain) as one program each with explicit inputs, for the
/// hint-deviation check: (name, source, input vectors). `stride`: every n-th instantiation.
pub fn hinted_programs(tier: Tier, stride: usize, max_inputs: usize) -> Vec<(String, String, Vec<Vec<BigInt>>)> {
    let mut out = vec![];
    let mut k = 0usize;
    for group in [downcast_funcs(tier), constrain_trim_funcs()] {
        for fs in group {
            for f in fs {
                if f.what.contains("trim") {
                    continue;
                }
                k += 1;
                if k % stride != 0 {
                    continue;
                }
                // spread the cap over the (sorted) input list so that both ends and the middle stay
                let n = f.cases.len();
                let step = n.div_ceil(max_inputs).max(1);
                let inputs: Vec<Vec<BigInt>> = f.cases.iter().step_by(step).map(|(i, _)| i.clone()).collect();
                out.push((format!("bounded:{}", f.what), format!("{PRELUDE}{}", f.text), inputs));
            }
        }
    }
    out
}

/// The sources of the lattice, one program per instantiation (for the checks that judge compilation).
pub fn sources(tier: Tier) -> Vec<(String, String)> {
    let mut out = vec![];
    for group in [downcast_funcs(tier), constrain_trim_funcs(), arith_funcs(tier)] {
        for fs in group {
            for f in fs {
                out.push((format!("bounded:{}", f.what), format!("{PRELUDE}{}", f.text)));
            }
        }
    }
    out
}

/// `exact`: compare the result with the expected felts (C06); otherwise only require `Ok` (C02).
pub fn run_lattice(ctx: &mut Ctx, exact: bool) {
    let tier = ctx.tier;
    let mut dbs = Dbs::default();
    let groups: Vec<(&str, Vec<Vec<Func>>)> = vec![("downcast", downcast_funcs(tier)), ("constrain-trim", constrain_trim_funcs()), ("arith", arith_funcs(tier))];
    for (gname, group) in &groups {
        for (gi, fs) in group.iter().enumerate() {
            if fs.is_empty() {
                continue;
            }
            ctx.case(
                || json!({"space":"bounded-int-lattice","group":gname,"index":gi,"first":fs[0].what}),
                |ctx| {
                    for (comp, funcs) in compile_funcs(ctx, &mut dbs, fs) {
                        for f in funcs {
                            let Some(sf) = comp.program.funcs.iter().find(|x| fname(x) == format!("test::{}", f.name)) else { continue };
                            ctx.count("bounded_instantiations_run", 1);
                            for (inp, exp) in &f.cases {
                                let case = || json!({"libfunc": f.what, "args": inp.iter().map(|x| x.to_string()).collect::<Vec<_>>(), "source": format!("{PRELUDE}{}", f.text)});
                                if !ctx.sub(case) {
                                    continue;
                                }
                                ctx.count("evaluations", 1);
                                ctx.distinct(&(f.what.as_str(), inp.iter().map(|x| x.to_string()).collect::<Vec<_>>()));
                                let args: Vec<Arg> = inp.iter().map(|x| Arg::Value(to_felt(x))).collect();
                                match guarded(|| run(&comp, sf, &args, Some(10_000_000)).0) {
                                    Err((loc, msg)) => ctx.violation(format!("runner-panic:bounded:{loc}"), format!("runner panicked: {msg}"), case()),
                                    Ok(Outcome::VmError(e)) => ctx.violation(format!("vm-failure:bounded:{}", f.what.split("::").next().unwrap_or("")), format!("{}({:?}) ends in a VM failure: {}", f.what, inp.iter().map(|x| x.to_string()).collect::<Vec<_>>(), e.chars().take(300).collect::<String>()), case()),
                                    Ok(Outcome::InputError(_)) => ctx.count("input_errors", 1),
                                    Ok(Outcome::Value(v, _)) => {
                                        ctx.outcome("returns");
                                        if exact {
                                            let want: Vec<Felt> = exp.iter().map(to_felt).collect();
                                            match v {
                                                RunResultValue::Success(got) if got == want => {}
                                                other => ctx.violation(format!("wrong-value:bounded:{}", f.what.split("::").next().unwrap_or("")), format!("{}({:?}) = {}, expected {:?}", f.what, inp.iter().map(|x| x.to_string()).collect::<Vec<_>>(), crate::exec::value_json(&other), exp.iter().map(|x| x.to_string()).collect::<Vec<_>>()), case()),
                                            }
                                        }
                                    }
                                }
                            }
                        }
                    }
                },
            );
        }
    }
}
