//! C20 — compiling against a crate cache equals compiling the crate from source.

use cairo_lang_compiler::db::RootDatabase;
use cairo_lang_filesystem::db::{FilesGroup, files_group_input, set_crate_configs_input};
use cairo_lang_filesystem::ids::{BlobLongId, CrateId};
use cairo_lang_lowering::cache::generate_crate_cache;
use serde_json::json;

use crate::core::{CheckDef, Ctx, Tier, guarded, panic_sig};
use crate::exec::snippets;
use crate::pipe::*;

/// A database whose corelib is served from a freshly generated cache blob (same settings).
fn cached_core_db(cfg: &Cfg) -> Result<(RootDatabase, usize), String> {
    let gen_db = new_db(cfg);
    let core = CrateId::core(&gen_db);
    let blob = generate_crate_cache(&gen_db, core).map_err(|e| format!("generate_crate_cache: {e:?}"))?;
    let n = blob.len();
    let mut db = new_db(cfg);
    let crt = db.crate_input(CrateId::core(&db)).clone();
    let mut cfgs = files_group_input(&db).crate_configs(&db).clone().ok_or("no crate configs")?;
    cfgs.get_mut(&crt).ok_or("no core config")?.cache_file = Some(BlobLongId::Virtual(blob));
    set_crate_configs_input(&mut db, Some(cfgs));
    Ok((db, n))
}

fn observe(db: &mut RootDatabase, code: &str) -> (String, String) {
    let ci = set_src(db, "test", code);
    let (diag, has_err) = diagnostics(db, &ci);
    let s = if has_err {
        "<errors>".to_string()
    } else {
        match sierra(db, &ci) {
            Ok(p) => p.to_string(),
            Err(e) => format!("<{e}>"),
        }
    };
    (diag, s)
}

fn run(ctx: &mut Ctx) {
    let tier = ctx.tier;
    let cfgs: Vec<Cfg> = tier.pick(vec![Cfg::DEFAULT], vec![Cfg::DEFAULT, Cfg::BASELINE, Cfg { opt: Opt::Avoid, ..Cfg::DEFAULT }]);
    let snips = snippets(tier);
    // dependents with diagnostics too: mutate a few snippets into erroneous programs
    let mut sources: Vec<(String, String)> = snips.iter().map(|s| (s.name.clone(), s.code.clone())).collect();
    for (n, c) in crate::c09sem::SEEDS {
        sources.push((format!("seed:{n}"), c.to_string()));
        sources.push((format!("seed-broken:{n}"), c.replacen("u8", "u9", 1)));
    }
    // examples and bug samples as whole files
    for dir in ["/repo/examples", "/repo/tests/bug_samples"] {
        let mut files = vec![];
        crate::text::walk_cairo_files(std::path::Path::new(dir), &mut files);
        for f in files {
            if f.file_name().map(|n| n == "lib.cairo").unwrap_or(false) {
                continue;
            }
            if let Ok(s) = std::fs::read_to_string(&f) {
                sources.push((f.strip_prefix("/repo").unwrap().to_string_lossy().to_string(), s));
            }
        }
    }
    for (ci, cfg) in cfgs.iter().enumerate() {
        // one work item per chunk of dependents; each worker builds its own pair of databases lazily
        let mut dbs: Option<(RootDatabase, RootDatabase)> = None;
        for (k, chunk) in sources.chunks(8).enumerate() {
            ctx.case(
                || json!({"space":"dependents","config":cfg.name(),"chunk":k}),
                |ctx| {
                    if dbs.is_none() {
                        match guarded(|| cached_core_db(cfg)) {
                            Ok(Ok((cdb, n))) => {
                                ctx.max("cache_blob_bytes", n as i64);
                                dbs = Some((new_db(cfg), cdb));
                            }
                            Ok(Err(e)) => {
                                ctx.violation("cache-generation-fails", format!("generating the corelib cache fails: {e}"), json!({"config": cfg.name()}));
                                return;
                            }
                            Err((loc, msg)) => {
                                ctx.violation(panic_sig(&loc, &msg), format!("cache generation/loading panicked: {msg}"), json!({"config": cfg.name()}));
                                return;
                            }
                        }
                    }
                    for (name, code) in chunk {
                        if !ctx.sub(|| json!({"dependent": name, "config": cfg.name()})) {
                            continue;
                        }
                        ctx.count("evaluations", 1);
                        ctx.distinct(&(ci, name));
                        let (sdb, cdb) = dbs.as_mut().unwrap();
                        let a = guarded(|| observe(sdb, code));
                        let b = guarded(|| observe(cdb, code));
                        match (a, b) {
                            (Ok(a), Ok(b)) => {
                                if k == 0 {
                                    ctx.sample(|| json!({"dependent": name, "diagnostics_bytes": a.0.len(), "sierra_bytes": a.1.len()}));
                                }
                                ctx.outcome(if a.1.starts_with('<') { "dependent-with-errors" } else { "dependent-compiles" });
                                if a.0 != b.0 {
                                    ctx.violation("diagnostics-differ-with-cache", "diagnostics differ between corelib-from-source and corelib-from-cache", json!({"dependent": name, "config": cfg.name(), "source": a.0.chars().take(600).collect::<String>(), "cache": b.0.chars().take(600).collect::<String>()}));
                                } else if a.1 != b.1 {
                                    let i = a.1.bytes().zip(b.1.bytes()).position(|(x, y)| x != y).unwrap_or(0);
                                    ctx.violation(
                                        "sierra-differs-with-cache",
                                        format!("Sierra differs near {:?} vs {:?}", &a.1[i.saturating_sub(80)..(i + 80).min(a.1.len())], &b.1[i.saturating_sub(80)..(i + 80).min(b.1.len())]),
                                        json!({"dependent": name, "config": cfg.name()}),
                                    );
                                }
                            }
                            (Err((loc, msg)), Ok(_)) | (Ok(_), Err((loc, msg))) => {
                                dbs = None;
                                ctx.violation(format!("panic-only-on-one-side:{}", panic_sig(&loc, &msg)), format!("one of (source, cache) panics and the other does not: {loc}: {msg}"), json!({"dependent": name, "config": cfg.name()}));
                                return;
                            }
                            (Err(_), Err(_)) => {
                                dbs = None;
                                ctx.count("both_panic_left_to_C08_C09", 1);
                                return;
                            }
                        }
                    }
                },
            );
        }
    }
}

pub static C20: CheckDef = CheckDef {
    id: "C20",
    level: "exploration",
    rule: "Cached crate = corelib (cache blob generated in-process by generate_crate_cache with the same settings) x optimisation configs {default} (thorough: + disabled, avoid-inlining). Dependents enumerated completely: every e2e cairo_code snippet (382), the 24 hand-written programs, every file of examples/ and tests/bug_samples, 12 seed programs and a type-broken variant of each (so diagnostics are exercised). For each dependent the same incremental database pair (corelib from source / corelib from cache) produces diagnostics text and Sierra text (debug-name ids); oracle: byte equality of both (CASM is a function of the Sierra text). distinct_nontrivial = distinct (config, dependent).",
    assumptions: &["only the corelib is used as the cached crate in this version"],
    run,
    stack_mb: 32,
    item_timeout_s: 300,
    wall_cap_s: (55, 1500),
    shards: 0,
};
