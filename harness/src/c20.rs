//! C20 — compiling against a crate cache equals compiling the crate from source.

use cairo_lang_compiler::db::RootDatabase;
use cairo_lang_filesystem::db::{FilesGroup, files_group_input, set_crate_configs_input};
use cairo_lang_filesystem::ids::{BlobLongId, CrateId};
use cairo_lang_lowering::cache::generate_crate_cache;
use serde_json::json;

use crate::core::{CheckDef, Ctx, Tier, guarded, panic_sig};
use crate::exec::snippets;
use crate::pipe::*;

/// A database whose corelib is served from a freshly generated cache blob (same settings).
fn cached_core_db(cfg: &Cfg) -> Result<(RootDatabase, usize), String> {
    let gen_db = new_db(cfg);
    let core = CrateId::core(&gen_db);
    let blob = generate_crate_cache(&gen_db, core).map_err(|e| format!("generate_crate_cache: {e:?}"))?;
    let n = blob.len();
    let mut db = new_db(cfg);
    let crt = db.crate_input(CrateId::core(&db)).clone();
    let mut cfgs = files_group_input(&db).crate_configs(&db).clone().ok_or("no crate configs")?;
    cfgs.get_mut(&crt).ok_or("no core config")?.cache_file = Some(BlobLongId::Virtual(blob));
    set_crate_configs_input(&mut db, Some(cfgs));
    Ok((db, n))
}

fn observe(db: &mut RootDatabase, code: &str) -> (String, String) {
    let ci = set_src(db, "test", code);
    let (diag, has_err) = diagnostics(db, &ci);
    let s = if has_err {
        "<errors>".to_string()
    } else {
        match sierra(db, &ci) {
            Ok(p) => p.to_string(),
            Err(e) => format!("<{e}>"),
        }
    };
    (diag, s)
}

/// The cached library crate: shapes/util plus `feats`, one item per kind of thing a cache has to carry (declared
/// implicits, nopanic, inline attributes, ref parameters, negative literals, consts of every shape, closures, loops,
/// matches, snapshots, destructors, default trait methods, aliases, generics, recursion, byte arrays, format macros,
/// 5-variant enums, must_use / deprecated / unstable attributes, visibilities, re-exports, associated items).
const LIB: &str = include_str!("c20_lib.cairo");
const LIB_2024: &str = include_str!("c20_lib_2024.cairo");

const LIB_DEPENDENTS: &[(&str, &str)] = &[
    ("area", "use mylib::shapes::{Pt, Shape, Area};\nfn f(a: u8, b: u8) -> u32 { let s = Shape::Seg((Pt { x: a, y: 1 }, Pt { x: 2, y: b })); s.area() }\n"),
    ("generic", "use mylib::util::twice;\nfn f(a: u8, b: felt252) -> felt252 { twice(a).into() + twice(b) }\n"),
    ("const-inline", "use mylib::util::{clamp, LIMIT};\nfn f(a: u32) -> u32 { clamp(a * 2) + LIMIT }\n"),
    ("span-loop", "use mylib::util::sum;\nfn f(a: u32) -> u32 { sum(array![a, 1, 2].span()) }\n"),
    ("recursion", "use mylib::util::fact;\nfn f(a: u32) -> u32 { fact(a % 6) }\n"),
    ("derive-eq-serde", "use mylib::shapes::Pt;\nfn f(a: u8) -> bool { let p = Pt { x: a, y: a }; let mut out = array![]; p.serialize(ref out); p == Pt { x: 1, y: 1 } && out.len() == 2 }\n"),
    ("impl-in-dependent", "use mylib::shapes::{Area, Pt};\nimpl PtArea of Area<Pt> { fn area(self: @Pt) -> u32 { (*self.x).into() * (*self.y).into() } }\nfn f(a: u8) -> u32 { Pt { x: a, y: 3 }.area() }\n"),
    ("type-error", "use mylib::shapes::Pt;\nfn f(a: u8) -> u32 { Pt { x: a, y: a }.z }\n"),
    ("missing-item", "use mylib::util::nothing;\nfn f() -> u32 { nothing() }\n"),
    ("private-path", "fn f(a: u8) -> u32 { mylib::util::dist(a, 3) + mylib::shapes::ShapeArea::area(@mylib::shapes::Shape::Nil) }\n"),
    ("feat:implicits", "fn f(a: felt252) -> felt252 { mylib::feats::f_implicits(a) + 1 }\n"),
    ("feat:nopanic", "fn f(a: u8) -> u8 { mylib::feats::f_nopanic(a) }\n"),
    ("feat:panics", "fn f(a: u8) -> u8 { mylib::feats::f_panics(a) }\n"),
    ("feat:always", "fn f(a: u8) -> u8 { mylib::feats::f_always(a) + 1 }\n"),
    ("feat:ref", "fn f(a: u8) -> u8 { let mut x = a; mylib::feats::f_ref(ref x, 4); x }\n"),
    ("feat:neg", "fn f(a: i8) -> i8 { mylib::feats::f_neg(a) }\n"),
    ("feat:consts", "use mylib::feats::{C_I8, C_U256, C_TUP, C_PT, C_ARR, C_STR, C_OPT};\nfn f(a: u8) -> felt252 { let (t0, t1) = C_TUP; let [x, _y, z] = C_ARR; let o = match C_OPT { Some(v) => v, None => 0 }; C_I8.into() + C_U256.low.into() + t0.into() + t1 + C_PT.x.into() + x.into() + z.into() + C_STR + o.into() + a.into() }\n"),
    ("feat:closure", "fn f(a: u8) -> u8 { mylib::feats::f_closure(a) }\n"),
    ("feat:loop", "fn f(a: u8) -> u32 { mylib::feats::f_loop(a) }\n"),
    ("feat:match", "fn f(a: u8) -> u8 { mylib::feats::f_match(a) }\n"),
    ("feat:snap", "fn f(a: u8) -> u32 { let arr = array![a, 1]; mylib::feats::f_snap(@arr) }\n"),
    ("feat:destruct", "fn f(a: u8) -> u8 { let d = mylib::feats::f_mk_d(a); d.k }\n"),
    ("feat:dict", "fn f(a: u8) -> u8 { mylib::feats::f_dict(a) }\n"),
    ("feat:trait-default", "use mylib::feats::Tr;\nfn f(a: u8) -> u32 { a.twice() + a.base() }\n"),
    ("feat:alias", "use mylib::feats::{Byte, AliasTr};\nfn f(a: Byte) -> u32 { AliasTr::base(a) }\n"),
    ("feat:opt-res", "fn f(a: u8) -> u8 { let x = mylib::feats::f_opt(a).unwrap_or(1); match mylib::feats::f_res(a) { Ok(v) => v / 2 + x / 2, Err(_) => x } }\n"),
    ("feat:generic-struct", "use mylib::feats::{W, f_unwrap};\nfn f(a: u8) -> u8 { f_unwrap(W { v: a }) }\n"),
    ("feat:arrays", "fn f(a: u8) -> u32 { let arr = mylib::feats::f_arr(a); let [p, q] = mylib::feats::f_fixed(a); arr.len() + p.into() + q.into() }\n"),
    ("feat:rec", "fn f(a: u8) -> u32 { mylib::feats::f_rec((a % 5).into()) }\n"),
    ("feat:u256", "fn f(a: u128) -> u128 { mylib::feats::f_u256(a).low }\n"),
    ("feat:bytes", "fn f() -> u32 { mylib::feats::f_bytes().len() }\n"),
    ("feat:assert-fmt", "fn f(a: u8) -> u8 { mylib::feats::f_assert(a) }\n"),
    ("feat:enum5", "use mylib::feats::{f_e5, f_e5_val};\nfn f(a: u8) -> u8 { f_e5_val(f_e5(a)) }\n"),
    ("feat:enum5-match-here", "use mylib::feats::{E5, f_e5};\nfn f(a: u8) -> u8 { match f_e5(a) { E5::A => 1, E5::B(x) => x, E5::C((_, y)) => y, E5::D(p) => p.y, E5::E => 5 } }\n"),
    ("feat:while-for", "fn f(a: u8) -> u32 { mylib::feats::f_while(a).into() + mylib::feats::f_for(a) }\n"),
    ("feat:desnap", "use mylib::feats::{Pt, PtTrait, f_desnap};\nfn f(a: u8) -> u16 { let p = Pt { x: a, y: 2 }; p.sum() + f_desnap(@p).into() }\n"),
    ("feat:must-use-warning", "fn f(a: u8) -> u8 { mylib::feats::f_must(a); a }\n"),
    ("feat:deprecated-warning", "fn f(a: u8) -> u8 { mylib::feats::f_dep(a) }\n"),
    ("feat:unstable-error", "fn f(a: u8) -> u8 { mylib::feats::f_unstable(a) }\n"),
    ("feat:unstable-allowed", "#[feature(\"new-f\")]\nfn f(a: u8) -> u8 { mylib::feats::f_unstable(a) }\n"),
    ("feat:hidden-error", "fn f(a: u8) -> u8 { mylib::feats::f_hidden(a) }\n"),
    ("feat:private-error", "fn f(a: u8) -> u8 { mylib::feats::f_private(a) }\n"),
    ("feat:uses-hidden", "fn f(a: u8) -> u8 { mylib::feats::f_uses_hidden(a) }\n"),
    ("feat:reexport", "use mylib::feats::g2;\nfn f(a: u8) -> u8 { g2(a) + mylib::feats::nested::deeper::g(a) }\n"),
    ("feat:assoc", "use mylib::feats::{HasK, HasKImpl};\nfn f(a: u8) -> u16 { HasKImpl::get(a) + HasKImpl::K.into() }\n"),
    ("feat:wrong-arg-type", "fn f(a: u16) -> u8 { mylib::feats::f_nopanic(a) }\n"),
    ("feat:wrong-arity", "fn f(a: u8) -> u8 { mylib::feats::f_nopanic(a, a) }\n"),
    ("feat:derive-debug", "use mylib::feats::Pt;\nfn f(a: u8) -> u32 { let s = format!(\"{:?}\", Pt { x: a, y: 1 }); s.len() }\n"),
    ("feat:impl-lib-trait-for-local", "use mylib::feats::Tr;\n#[derive(Drop, Copy)]\nstruct L { v: u8 }\nimpl TrL of Tr<L> { fn base(self: L) -> u32 { self.v.into() } }\nfn f(a: u8) -> u32 { L { v: a }.twice() }\n"),
    ("f2:const-fn", "const K: u8 = mylib::feats2::cf(9);\nfn f(a: u8) -> u8 { K / 2 + mylib::feats2::cf(a) / 2 }\n"),
    ("f2:consts", "use mylib::feats2::{C_REF, C_BOOL, C_I128, C_U64, C_NZ, C_E5, C_NESTED, C_FROM_FN};\nfn f(a: u8) -> felt252 { let (p, [x, y], o) = C_NESTED; let q: u8 = C_NZ.into(); let e = match C_E5 { mylib::feats::E5::B(v) => v, _ => 0 }; let (o1, o2) = o.unwrap(); C_REF.into() + (if C_BOOL { 1 } else { 0 }) + C_I128.into() + C_U64.into() + q.into() + e.into() + p.x.into() + x.into() + y.into() + o1.into() + o2.into() + C_FROM_FN.into() + a.into() }\n"),
    ("f2:reexported-core", "use mylib::feats2::Z;\nfn f(a: u8) -> bool { Z::is_zero(@a) }\n"),
    ("f2:two-impls", "use mylib::feats2::{name_of, Nm};\nimpl NmU32 of Nm<u32> { fn nm(self: @u32) -> felt252 { 'u32' } }\nfn f(a: u8) -> felt252 { name_of(@a) + name_of(@7_u16) + name_of(@9_u32) + a.nm() }\n"),
    ("f2:missing-impl", "use mylib::feats2::name_of;\nfn f(a: u64) -> felt252 { name_of(@a) }\n"),
    ("f2:same-name", "fn f(a: u8) -> u8 { mylib::feats2::ma::same(a) / 2 + mylib::feats2::mb::same(a) / 2 }\n"),
    ("f2:early", "fn f(a: u8) -> u8 { mylib::feats2::early(a) }\n"),
    ("f2:late-private", "fn f(a: u8) -> u8 { mylib::feats2::late(a) }\n"),
    ("f2:generic-enum", "use mylib::feats2::{Ei, ei_first};\nfn f(a: u8) -> felt252 { ei_first(Ei::R((a, 1))).into() + ei_first(Ei::L(5_felt252)) + ei_first(Ei::R(((a, a), (1, 2)))).val0().into() }\n#[generate_trait]\nimpl TupImpl of TupTrait { fn val0(self: (u8, u8)) -> u8 { let (x, _) = self; x } }\n"),
    ("f2:never", "fn f(a: u8) -> u8 { if a == 7 { mylib::feats2::boom(a) } else { a } }\n"),
    ("f2:tuples", "fn f(a: u8) -> u8 { mylib::feats2::t0(); let (x,) = mylib::feats2::t1(a); x }\n"),
    ("f2:literals", "use mylib::feats2::{big, negbig, shortstr, bigu256, longbytes, escapes};\nfn f() -> felt252 { big() + negbig() + shortstr() + bigu256().high.into() + longbytes().len().into() + escapes().len().into() }\n"),
    ("f2:derives", "use mylib::feats2::{Rec, Col, rec_hash};\nfn f(a: u8) -> felt252 { let r = Rec { a, b: 3 }; let d: Rec = Default::default(); let c: Col = Default::default(); let mut out = array![]; Col::Blue(r.clone()).serialize(ref out); let s = format!(\"{:?} {:?}\", r, c); (if r == d { 1 } else { 0 }) + (if c == Col::Green(a) { 1 } else { 0 }) + out.len().into() + s.len().into() + rec_hash(r) }\n"),
    ("f2:private-member-read", "fn f(a: u8) -> u8 { mylib::feats2::mk_priv(a).b }\n"),
    ("f2:private-member-construct", "fn f(a: u8) -> u8 { let p = mylib::feats2::Priv { a, b: 1 }; p.a }\n"),
    ("f2:public-member", "fn f(a: u8) -> u8 { mylib::feats2::mk_priv(a).a }\n"),
    ("f2:const-generic", "fn f() -> usize { mylib::feats2::cg::<9>().into() + mylib::feats2::fixed_sum([1, 2, 3]) + mylib::feats2::fixed_sum::<0>([]) }\n"),
    ("f2:generic-impl-bound", "use mylib::feats2::{W2, snap_len, fspan};\nfn f(a: u8) -> u32 { let w = W2 { v: array![a] }; let n = snap_len(@w.v); let m = snap_len(@array![w]); n + m + fspan(a).len() }\n"),
    ("f2:generic-impl-bound-missing", "use mylib::feats2::W2;\nstruct ND { v: u8 }\nfn f(a: u8) -> u8 { let _w = W2 { v: ND { v: a } }; a }\n"),
    ("f2:handwritten-destruct", "fn f(a: u8) -> u8 { let _h = mylib::feats2::mk_hd(a); a }\n"),
    ("f2:ambiguous-method", "use mylib::feats2::{AmbA, AmbB};\nfn f(a: u8) -> u8 { a.amb() }\n"),
    ("f2:disambiguated-method", "use mylib::feats2::{AmbA, AmbB};\nfn f(a: u8) -> u8 { AmbA::amb(a) + AmbB::amb(a) }\n"),
    ("f2:inline-plain", "fn f(a: u8) -> u8 { mylib::feats2::f_inline(a) + mylib::feats2::uses_dep(a) / 2 }\n"),
    ("f2:cfg-test-item", "fn f(a: u8) -> u8 { mylib::feats2::only_in_tests(a) }\n"),
    ("f2:question-loops", "fn f(a: u8) -> u32 { mylib::feats2::q(a).unwrap_or(3).into() + mylib::feats2::nested_loops(a) + mylib::feats2::tup_match(a, a > 100).into() }\n"),
    ("f2:unused-import-warning", "use mylib::feats2::{cf, early};\nfn f(a: u8) -> u8 { early(a) }\n"),
    ("f2:lib-type-in-signature-mismatch", "use mylib::feats2::Rec;\nfn g(r: Rec) -> u8 { r.a }\nfn f(a: u8) -> u8 { g(mylib::feats2::Col::Red) }\n"),
    ("f2:moved-lib-value", "use mylib::feats2::Rec;\nfn g(r: Rec) -> u8 { r.a }\n#[derive(Drop)]\nstruct NC { r: Array<u8> }\nfn h(x: NC) -> u32 { x.r.len() }\nfn f(a: u8) -> u32 { let x = NC { r: array![a] }; h(x) + h(x) }\n"),
];

/// Dependents that need the 2024_07 library part (glob re-exports, negative impls, associated item constraints).
const LIB_DEPENDENTS_2024: &[(&str, &str)] = &[
    ("f3:glob", "use mylib::feats3::{gi, GS};\nfn f(a: u8) -> u8 { gi(GS { v: a }.v) }\n"),
    ("f3:glob-of-glob", "use mylib::feats3::*;\nfn f(a: u8) -> u8 { gi(a) + GS { v: 1 }.v }\n"),
    ("f3:glob-private", "use mylib::feats3::*;\nfn f(a: u8) -> u8 { private_in_inner(a) }\n"),
    ("f3:glob-crate-visible", "use mylib::feats3::*;\nfn f(a: u8) -> u8 { crate_in_inner(a) }\n"),
    ("f3:negative-impl", "use mylib::feats3::Kind;\nfn f(a: u8) -> felt252 { let arr = array![a]; arr.kind() + a.kind() }\n"),
    ("f3:negative-impl-conflict", "use mylib::feats3::Kind;\nfn f(a: u16) -> felt252 { a.kind() }\n"),
    ("f3:assoc-constraint", "fn f(a: u8) -> u32 { mylib::feats3::sum_iter(array![a, 2, 3].into_iter()) }\n"),
    ("f3:private-glob-signature", "fn f(a: u32) -> u32 { let sq = mylib::feats3::square(a % 100); mylib::feats3::area(sq) + sq.w }\n"),
    ("f3:private-glob-param-only", "fn f(a: u32) -> u32 { mylib::feats3::area(mylib::feats3::square(a % 100)) }\n"),
    ("f3:crate-glob-body", "fn f(a: u32) -> u32 { mylib::feats3::crate_glob::unit_plus(a) }\n"),
    ("f3:crate-glob-member-type", "fn f(a: u32) -> u32 { let h = mylib::feats3::crate_glob::Holder { r: mylib::feats3::square(a % 100) }; h.r.h }\n"),
    ("f3:visibility-private", "fn f(a: u8) -> u8 { mylib::feats::f_private(a) }\n"),
    ("f3:visibility-crate", "fn f(a: u8) -> u8 { mylib::feats::f_hidden(a) }\n"),
    ("f3:visibility-member", "fn f(a: u8) -> u8 { mylib::feats2::mk_priv(a).b }\n"),
];

fn run_library(ctx: &mut Ctx) {
    let cfgs: Vec<Cfg> = ctx.tier.pick(vec![Cfg::DEFAULT], vec![Cfg::DEFAULT, Cfg::BASELINE, Cfg { opt: Opt::Avoid, ..Cfg::DEFAULT }, Cfg { opt: Opt::Small(1000), ..Cfg::DEFAULT }]);
    // crate-settings profiles of the library and of its dependents: the default (edition 2023_01, where
    // visibility is not enforced) and edition 2024_07 with the experimental features on (visibility enforced,
    // glob re-exports, negative impls, associated item constraints: the library gets its 2024 part)
    let profiles = [("2023_01", CrateOpts::default()), ("2024_07+experimental", CrateOpts { edition: 3, experimental: true })];
    for (cfg, (pname, opts)) in cfgs.iter().flat_map(|c| profiles.iter().map(move |p| (c, p))) {
        let lib_text: String = if opts.edition >= 3 { format!("{LIB}{LIB_2024}") } else { LIB.to_string() };
        let lib_text = lib_text.as_str();
        let deps: Vec<(&str, &str)> = if opts.edition >= 3 { LIB_DEPENDENTS.iter().chain(LIB_DEPENDENTS_2024.iter()).copied().collect() } else { LIB_DEPENDENTS.to_vec() };
        ctx.case(
            || json!({"space":"library-crate","config":cfg.name(),"settings":pname}),
            |ctx| {
                // cache of the library generated in its own database
                let blob = {
                    let mut gdb = new_db(cfg);
                    let ci = set_src_deps_opts(&mut gdb, "mylib", lib_text, &[], None, *opts);
                    let (ldiag, lerr) = diagnostics(&gdb, &ci);
                    if lerr {
                        ctx.note(format!("harness: the library has error diagnostics under {pname}: {}", ldiag.chars().take(400).collect::<String>()));
                        ctx.count("library_not_error_free", 1);
                        return;
                    }
                    let ids = cairo_lang_filesystem::ids::CrateInput::into_crate_ids(&gdb, vec![ci]);
                    match guarded(|| generate_crate_cache(&gdb, ids[0])) {
                        Ok(Ok(b)) => b,
                        Ok(Err(e)) => {
                            ctx.violation("cache-generation-fails", format!("generating the cache of an error-free library crate fails: {e:?}"), json!({"config": cfg.name(), "settings": pname}));
                            return;
                        }
                        Err((loc, msg)) => {
                            ctx.violation(panic_sig(&loc, &msg), format!("cache generation panicked: {msg}"), json!({"config": cfg.name(), "settings": pname}));
                            return;
                        }
                    }
                };
                ctx.max("library_cache_blob_bytes", blob.len() as i64);
                let mut sdb = new_db(cfg);
                set_src_deps_opts(&mut sdb, "mylib", lib_text, &[], None, *opts);
                let mut cdb = new_db(cfg);
                let lib_cached = set_src_deps_opts(&mut cdb, "mylib", lib_text, &[], Some(blob), *opts);
                // the library is error-free from source (checked above): it must be so when it comes from its
                // cache (what is not cached - signatures, members - is resolved again in the loading database)
                match guarded(|| diagnostics(&cdb, &lib_cached)) {
                    Ok((d, true)) => ctx.violation("cached-library-has-errors", "the library crate is error-free from source but has error diagnostics when loaded from its own cache", json!({"config": cfg.name(), "settings": pname, "cache": d.chars().take(600).collect::<String>()})),
                    Ok(_) => {}
                    Err((loc, msg)) => ctx.violation(format!("panic-only-on-one-side:{}", panic_sig(&loc, &msg)), format!("diagnostics of the cached library panic: {loc}: {msg}"), json!({"config": cfg.name(), "settings": pname})),
                }
                for (name, code) in &deps {
                    if !ctx.sub(|| json!({"dependent": name, "config": cfg.name(), "settings": pname, "cached_crate": "mylib"})) {
                        continue;
                    }
                    ctx.count("evaluations", 1);
                    ctx.distinct(&(cfg.name(), pname, "mylib", name));
                    let obs = |db: &mut RootDatabase| {
                        let ci = set_src_deps_opts(db, "test", code, &["mylib"], None, *opts);
                        let (diag, has_err) = diagnostics(db, &ci);
                        let s = if has_err { "<errors>".to_string() } else { sierra(db, &ci).map(|p| p.to_string()).unwrap_or_else(|e| format!("<{e}>")) };
                        (diag, s)
                    };
                    let a = guarded(|| obs(&mut sdb));
                    let b = guarded(|| obs(&mut cdb));
                    match (a, b) {
                        (Ok(a), Ok(b)) => {
                            ctx.outcome(if a.1.starts_with('<') { "lib-dependent-with-errors" } else { "lib-dependent-compiles" });
                            if a.0 != b.0 {
                                ctx.violation("diagnostics-differ-with-cache:library", "diagnostics differ between library-from-source and library-from-cache", json!({"dependent": name, "config": cfg.name(), "source": a.0.chars().take(600).collect::<String>(), "cache": b.0.chars().take(600).collect::<String>()}));
                            } else if a.1 != b.1 {
                                let i = a.1.bytes().zip(b.1.bytes()).position(|(x, y)| x != y).unwrap_or(0);
                                ctx.violation("sierra-differs-with-cache:library", format!("Sierra differs near {:?} vs {:?}", &a.1[i.saturating_sub(80)..(i + 80).min(a.1.len())], &b.1[i.saturating_sub(80)..(i + 80).min(b.1.len())]), json!({"dependent": name, "config": cfg.name()}));
                            }
                        }
                        (Err((loc, msg)), Ok(_)) | (Ok(_), Err((loc, msg))) => {
                            ctx.violation(format!("panic-only-on-one-side:{}", panic_sig(&loc, &msg)), format!("one of (source, cache) panics: {loc}: {msg}"), json!({"dependent": name, "config": cfg.name(), "cached_crate": "mylib"}));
                            return;
                        }
                        (Err(_), Err(_)) => return,
                    }
                }
            },
        );
    }
}

/// The MiniCairo space as library crates: every enumerated program becomes a module of a library whose entry
/// function a one-line dependent calls; the dependent's Sierra (which contains the library function, or its
/// inlined body) must be the same whether the library comes from source or from its cache.  This pushes a few
/// thousand systematically varied function bodies (expressions, control skeletons, data movement, collections,
/// liveness, member routing) through cache serialization.
fn run_minicairo_library(ctx: &mut Ctx) {
    let tier = ctx.tier;
    let stride = tier.pick(16, 1);
    let cases: Vec<crate::c01::Case> = crate::c01::all_cases(tier).into_iter().enumerate().filter(|(i, c)| i % stride == 0 && !c.name.starts_with("g6:struct")).map(|(_, c)| c).collect();
    let cfg = Cfg::DEFAULT;
    for (chunk_i, chunk) in cases.chunks(100).enumerate() {
        ctx.case(
            || json!({"space":"minicairo-library","chunk":chunk_i,"first":chunk[0].name}),
            |ctx| {
                let mut lib = String::new();
                for (i, c) in chunk.iter().enumerate() {
                    let src = c.source().replace("\nfn f(", "\npub fn f(");
                    lib.push_str(&format!("pub mod m{i} {{\n{src}}}\n"));
                }
                let blob = {
                    let mut gdb = new_db(&cfg);
                    let ci = set_src(&mut gdb, "mylib", &lib);
                    let ids = cairo_lang_filesystem::ids::CrateInput::into_crate_ids(&gdb, vec![ci]);
                    match guarded(|| generate_crate_cache(&gdb, ids[0])) {
                        Ok(Ok(b)) => b,
                        Ok(Err(e)) => {
                            ctx.violation("cache-generation-fails", format!("generating the cache of an error-free library crate fails: {e:?}"), json!({"chunk": chunk_i, "first": chunk[0].name}));
                            return;
                        }
                        Err((loc, msg)) => {
                            ctx.violation(panic_sig(&loc, &msg), format!("cache generation panicked: {msg}"), json!({"chunk": chunk_i, "first": chunk[0].name}));
                            return;
                        }
                    }
                };
                let mut sdb = new_db(&cfg);
                set_src_deps(&mut sdb, "mylib", &lib, &[], None);
                let mut cdb = new_db(&cfg);
                set_src_deps(&mut cdb, "mylib", &lib, &[], Some(blob));
                for (i, c) in chunk.iter().enumerate() {
                    if !ctx.sub(|| json!({"program": c.name, "cached_crate": "minicairo-library"})) {
                        continue;
                    }
                    let Some(f) = c.prog.funcs.iter().find(|f| f.name == "f") else { continue };
                    let params: Vec<String> = c.params.iter().enumerate().map(|(k, t)| format!("p{k}: {}", t.name())).collect();
                    let args: Vec<String> = (0..c.params.len()).map(|k| format!("p{k}")).collect();
                    let code = format!("fn f({}) -> {} {{ mylib::m{i}::f({}) }}\n", params.join(", "), f.ret.name(), args.join(", "));
                    ctx.count("evaluations", 1);
                    ctx.distinct(&("minicairo-library", c.name.as_str()));
                    let obs = |db: &mut RootDatabase| {
                        let ci = set_src_deps(db, "test", &code, &["mylib"], None);
                        let (diag, has_err) = diagnostics(db, &ci);
                        let s = if has_err { "<errors>".to_string() } else { sierra(db, &ci).map(|p| p.to_string()).unwrap_or_else(|e| format!("<{e}>")) };
                        (diag, s)
                    };
                    match (guarded(|| obs(&mut sdb)), guarded(|| obs(&mut cdb))) {
                        (Ok(a), Ok(b)) => {
                            ctx.outcome(if a.1.starts_with('<') { "mini-dependent-with-errors" } else { "mini-dependent-compiles" });
                            if a.1.starts_with('<') {
                                ctx.note(format!("minicairo library dependent {} does not compile: {}", c.name, a.0.chars().take(200).collect::<String>()));
                            }
                            if a.0 != b.0 {
                                ctx.violation("diagnostics-differ-with-cache:minicairo-library", "diagnostics differ between library-from-source and library-from-cache", json!({"program": c.name, "source": a.0.chars().take(600).collect::<String>(), "cache": b.0.chars().take(600).collect::<String>()}));
                            } else if a.1 != b.1 {
                                let k = a.1.bytes().zip(b.1.bytes()).position(|(x, y)| x != y).unwrap_or(0);
                                ctx.violation(
                                    "sierra-differs-with-cache:minicairo-library",
                                    format!("Sierra differs near {:?} vs {:?}", &a.1[k.saturating_sub(80)..(k + 80).min(a.1.len())], &b.1[k.saturating_sub(80)..(k + 80).min(b.1.len())]),
                                    json!({"program": c.name, "library_module": crate::mini::pprog(&c.prog)}),
                                );
                            }
                        }
                        (Err((loc, msg)), Ok(_)) | (Ok(_), Err((loc, msg))) => {
                            ctx.violation(format!("panic-only-on-one-side:{}", panic_sig(&loc, &msg)), format!("one of (source, cache) panics: {loc}: {msg}"), json!({"program": c.name}));
                            return;
                        }
                        (Err(_), Err(_)) => return,
                    }
                }
            },
        );
    }
}

fn run(ctx: &mut Ctx) {
    run_library(ctx);
    run_minicairo_library(ctx);
    let tier = ctx.tier;
    let cfgs: Vec<Cfg> = tier.pick(vec![Cfg::DEFAULT], vec![Cfg::DEFAULT, Cfg::BASELINE, Cfg { opt: Opt::Avoid, ..Cfg::DEFAULT }]);
    let snips = snippets(tier);
    // dependents with diagnostics too: mutate a few snippets into erroneous programs
    let mut sources: Vec<(String, String)> = snips.iter().map(|s| (s.name.clone(), s.code.clone())).collect();
    for (n, c) in crate::c09sem::SEEDS {
        sources.push((format!("seed:{n}"), c.to_string()));
        sources.push((format!("seed-broken:{n}"), c.replacen("u8", "u9", 1)));
    }
    // examples and bug samples as whole files
    for dir in ["/repo/examples", "/repo/tests/bug_samples"] {
        let mut files = vec![];
        crate::text::walk_cairo_files(std::path::Path::new(dir), &mut files);
        for f in files {
            if f.file_name().map(|n| n == "lib.cairo").unwrap_or(false) {
                continue;
            }
            if let Ok(s) = std::fs::read_to_string(&f) {
                sources.push((f.strip_prefix("/repo").unwrap().to_string_lossy().to_string(), s));
            }
        }
    }
    for (ci, cfg) in cfgs.iter().enumerate() {
        // one work item per chunk of dependents; each worker builds its own pair of databases lazily
        let mut dbs: Option<(RootDatabase, RootDatabase)> = None;
        for (k, chunk) in sources.chunks(8).enumerate() {
            ctx.case(
                || json!({"space":"dependents","config":cfg.name(),"chunk":k}),
                |ctx| {
                    if dbs.is_none() {
                        match guarded(|| cached_core_db(cfg)) {
                            Ok(Ok((cdb, n))) => {
                                ctx.max("cache_blob_bytes", n as i64);
                                dbs = Some((new_db(cfg), cdb));
                            }
                            Ok(Err(e)) => {
                                ctx.violation("cache-generation-fails", format!("generating the corelib cache fails: {e}"), json!({"config": cfg.name()}));
                                return;
                            }
                            Err((loc, msg)) => {
                                ctx.violation(panic_sig(&loc, &msg), format!("cache generation/loading panicked: {msg}"), json!({"config": cfg.name()}));
                                return;
                            }
                        }
                    }
                    for (name, code) in chunk {
                        if !ctx.sub(|| json!({"dependent": name, "config": cfg.name()})) {
                            continue;
                        }
                        ctx.count("evaluations", 1);
                        ctx.distinct(&(ci, name));
                        let (sdb, cdb) = dbs.as_mut().unwrap();
                        let a = guarded(|| observe(sdb, code));
                        let b = guarded(|| observe(cdb, code));
                        match (a, b) {
                            (Ok(a), Ok(b)) => {
                                if k == 0 {
                                    ctx.sample(|| json!({"dependent": name, "diagnostics_bytes": a.0.len(), "sierra_bytes": a.1.len()}));
                                }
                                ctx.outcome(if a.1.starts_with('<') { "dependent-with-errors" } else { "dependent-compiles" });
                                if a.0 != b.0 {
                                    ctx.violation("diagnostics-differ-with-cache", "diagnostics differ between corelib-from-source and corelib-from-cache", json!({"dependent": name, "config": cfg.name(), "source": a.0.chars().take(600).collect::<String>(), "cache": b.0.chars().take(600).collect::<String>()}));
                                } else if a.1 != b.1 {
                                    let i = a.1.bytes().zip(b.1.bytes()).position(|(x, y)| x != y).unwrap_or(0);
                                    ctx.violation(
                                        "sierra-differs-with-cache",
                                        format!("Sierra differs near {:?} vs {:?}", &a.1[i.saturating_sub(80)..(i + 80).min(a.1.len())], &b.1[i.saturating_sub(80)..(i + 80).min(b.1.len())]),
                                        json!({"dependent": name, "config": cfg.name()}),
                                    );
                                }
                            }
                            (Err((loc, msg)), Ok(_)) | (Ok(_), Err((loc, msg))) => {
                                dbs = None;
                                ctx.violation(format!("panic-only-on-one-side:{}", panic_sig(&loc, &msg)), format!("one of (source, cache) panics and the other does not: {loc}: {msg}"), json!({"dependent": name, "config": cfg.name()}));
                                return;
                            }
                            (Err(_), Err(_)) => {
                                dbs = None;
                                ctx.count("both_panic_left_to_C08_C09", 1);
                                return;
                            }
                        }
                    }
                },
            );
        }
    }
}

pub static C20: CheckDef = CheckDef {
    id: "C20",
    level: "exploration",
    rule: "Cached crates = corelib, the MiniCairo space packed into library crates, and a feature library with one item per kind of thing a cache must carry (~90 kinds: declared implicits, nopanic, inline attributes, ref parameters, 16 const shapes incl. const fn results / NonZero / enum variant / nested aggregates, closures, loops, snapshots, destructors (derived and handwritten), default trait methods, aliases, generics, generic enums, const generics, recursion, ByteArray / escapes / big and negative literals, format macros, derives (Clone, Default, Hash, Debug, Serde, PartialEq), must_use / deprecated / unstable / cfg(test), visibilities incl. private members, re-exports (named, of core items, globs), associated items, two impls of one trait, same-named items, use before declaration, never type, tuples of size 0/1, ambiguous methods, negative impls, associated item constraints) with 87 dependents incl. ill-typed ones whose diagnostics mention library items, under two crate-settings profiles (edition 2023_01; edition 2024_07 + experimental features, where visibility is enforced) x optimisation configs {default} (thorough: + disabled, avoid-inlining, small-inlining); cache blobs generated in-process by generate_crate_cache with the same settings. Dependents enumerated completely: every e2e cairo_code snippet (382), the 24 hand-written programs, every file of examples/ and tests/bug_samples, 12 seed programs and a type-broken variant of each (so diagnostics are exercised). For each dependent the same incremental database pair (corelib from source / corelib from cache) produces diagnostics text and Sierra text (debug-name ids); oracle: byte equality of both (CASM is a function of the Sierra text). distinct_nontrivial = distinct (config, dependent).",
    assumptions: &["cached crates: the corelib and one library crate"],
    run,
    stack_mb: 32,
    item_timeout_s: 300,
    wall_cap_s: (55, 1500),
    shards: 0,
};

/// Prints, per settings profile, which dependents compile and the first diagnostic line of the others.
pub fn debug_dependents() {
    let cfg = Cfg::DEFAULT;
    for (pname, opts) in [("2023_01", CrateOpts::default()), ("2024_07+experimental", CrateOpts { edition: 3, experimental: true })] {
        let lib_text: String = if opts.edition >= 3 { format!("{LIB}{LIB_2024}") } else { LIB.to_string() };
        let deps: Vec<(&str, &str)> = if opts.edition >= 3 { LIB_DEPENDENTS.iter().chain(LIB_DEPENDENTS_2024.iter()).copied().collect() } else { LIB_DEPENDENTS.to_vec() };
        let mut db = new_db(&cfg);
        set_src_deps_opts(&mut db, "mylib", &lib_text, &[], None, opts);
        for (name, code) in deps {
            let ci = set_src_deps_opts(&mut db, "test", code, &["mylib"], None, opts);
            let (diag, err) = diagnostics(&db, &ci);
            let first = diag.lines().find(|l| l.starts_with("error") || l.starts_with("warning")).unwrap_or("");
            println!("{pname} {name}: {} {}", if err { "ERRORS" } else { "ok" }, first);
        }
    }
}
