//! C03 — results do not depend on prover-supplied hint values. Fault enumeration, deviation bound 1 (2 in
//! the thorough tier inside one statement): at every hint occurrence of every honest run, every alternative
//! of the menu is written instead of the honest output; the run must fail in the VM or give the same result.

use std::any::Any;
use std::collections::HashMap;
use std::sync::Arc;

use cairo_lang_casm::hints::{CoreHint, CoreHintBase, Hint};
use cairo_lang_casm::operand::{CellRef, Register};
use cairo_lang_runner::casm_run::{StarknetHintProcessor, cell_ref_to_relocatable, get_val};
use cairo_lang_runner::{Arg, CairoHintProcessor, RunResultStarknet, StarknetExecutionResources, StarknetState};
use cairo_lang_sierra::program::Function;
use cairo_vm::hint_processor::hint_processor_definition::{HintProcessorLogic, HintReference};
use cairo_vm::serde::deserialize_program::ApTracking;
use cairo_vm::types::exec_scope::ExecutionScopes;
use cairo_vm::types::relocatable::MaybeRelocatable;
use cairo_vm::vm::errors::hint_errors::HintError;
use cairo_vm::vm::errors::vm_errors::VirtualMachineError;
use cairo_vm::vm::runners::cairo_runner::{ResourceTracker, RunResources};
use cairo_vm::vm::vm_core::VirtualMachine;
use serde_json::json;
use starknet_types_core::felt::Felt;

use crate::core::{CheckDef, Ctx, Tier, guarded};
use crate::exec::{Dbs, args_str, input_vectors, snippets, value_json};
use crate::pipe::*;

/// The output cells of a hint (the values the prover supplies), in a fixed order.
fn outputs_mut(h: &mut CoreHint) -> Vec<&mut CellRef> {
    match h {
        CoreHint::AllocSegment { dst } => vec![dst],
        CoreHint::TestLessThan { dst, .. } | CoreHint::TestLessThanOrEqual { dst, .. } | CoreHint::TestLessThanOrEqualAddress { dst, .. } => vec![dst],
        CoreHint::WideMul128 { high, low, .. } => vec![high, low],
        CoreHint::DivMod { quotient, remainder, .. } => vec![quotient, remainder],
        CoreHint::Uint256DivMod { quotient0, quotient1, remainder0, remainder1, .. } => vec![quotient0, quotient1, remainder0, remainder1],
        CoreHint::Uint512DivModByUint256 { quotient0, quotient1, quotient2, quotient3, remainder0, remainder1, .. } => vec![quotient0, quotient1, quotient2, quotient3, remainder0, remainder1],
        CoreHint::SquareRoot { dst, .. } => vec![dst],
        CoreHint::Uint256SquareRoot { sqrt0, sqrt1, remainder_low, remainder_high, sqrt_mul_2_minus_remainder_ge_u128, .. } => vec![sqrt0, sqrt1, remainder_low, remainder_high, sqrt_mul_2_minus_remainder_ge_u128],
        CoreHint::LinearSplit { x, y, .. } => vec![x, y],
        CoreHint::GetSegmentArenaIndex { dict_index, .. } => vec![dict_index],
        CoreHint::InitSquashData { big_keys, first_key, .. } => vec![big_keys, first_key],
        CoreHint::ShouldSkipSquashLoop { should_skip_loop } => vec![should_skip_loop],
        CoreHint::GetCurrentAccessDelta { index_delta_minus1 } => vec![index_delta_minus1],
        CoreHint::ShouldContinueSquashLoop { should_continue } => vec![should_continue],
        CoreHint::GetNextDictKey { next_key } => vec![next_key],
        CoreHint::AssertLeIsFirstArcExcluded { skip_exclude_a_flag } => vec![skip_exclude_a_flag],
        CoreHint::AssertLeIsSecondArcExcluded { skip_exclude_b_minus_a } => vec![skip_exclude_b_minus_a],
        CoreHint::RandomEcPoint { x, y } => vec![x, y],
        CoreHint::FieldSqrt { sqrt, .. } => vec![sqrt],
        CoreHint::AllocConstantSize { dst, .. } => vec![dst],
        CoreHint::U256InvModN { g0_or_no_inv, g1_option, s_or_r0, s_or_r1, t_or_k0, t_or_k1, .. } => vec![g0_or_no_inv, g1_option, s_or_r0, s_or_r1, t_or_k0, t_or_k1],
        // hints that write through pointers (range-check / dict segments) or have no outputs are executed honestly
        _ => vec![],
    }
}

fn kind_of(h: &CoreHint) -> String {
    format!("{h:?}").split([' ', '{', '(']).next().unwrap_or("").to_string()
}

const SCRATCH_BASE: i32 = 3000;
/// Gas for every run: bounds honest runs of unbounded recursions to ~30k steps.
const GAS: usize = 3_000_000;
const MAX_REDIRECTED: usize = 700;

pub struct Dev<'a> {
    inner: CairoHintProcessor<'a>,
    occ: usize,
    /// (occurrence, values to write instead of the honest ones)
    deviate: Vec<(usize, Vec<MaybeRelocatable>)>,
    /// (kind, honest outputs) per occurrence with outputs
    pub log: Vec<(String, Vec<MaybeRelocatable>, Vec<Felt>)>,
    /// After a deviation the runner's own (honest) implementation of a later hint may find its book-keeping
    /// inconsistent and panic; a prover is free to answer anything there, so the j-th such hint gets all its
    /// outputs set to `fallback[j]`. When the list is exhausted the run is abandoned as inconclusive.
    fallback: Vec<Felt>,
    panicked_hints: usize,
    pub inconclusive: bool,
}

impl HintProcessorLogic for Dev<'_> {
    fn execute_hint(&mut self, vm: &mut VirtualMachine, scopes: &mut ExecutionScopes, data: &Box<dyn Any>) -> Result<(), HintError> {
        let hint = data.downcast_ref::<Hint>().ok_or(HintError::WrongHintData)?;
        if let Hint::Core(CoreHintBase::Core(ch)) = hint {
            let mut h2 = ch.clone();
            let n_out = outputs_mut(&mut h2).len();
            if n_out > 0 && self.occ < MAX_REDIRECTED {
                let i = self.occ;
                self.occ += 1;
                // the owned RandomEcPoint source of randomness is replaced by a fixed curve point
                if let CoreHint::RandomEcPoint { x, y } = ch {
                    let (px, py) = fixed_ec_point();
                    let honest = vec![MaybeRelocatable::Int(px), MaybeRelocatable::Int(py)];
                    let vals = self.deviate.iter().find(|(k, _)| *k == i).map(|(_, v)| v.clone()).unwrap_or_else(|| honest.clone());
                    for (c, v) in [x, y].into_iter().zip(vals) {
                        vm.insert_value(cell_ref_to_relocatable(c, vm), v).map_err(HintError::Memory)?;
                    }
                    self.log.push(("RandomEcPoint".into(), honest, vec![]));
                    return Ok(());
                }
                // the hint's inputs (for the alternatives that satisfy the verified relation modulo P)
                let inputs: Vec<Felt> = match ch {
                    CoreHint::DivMod { lhs, rhs, .. } => [lhs, rhs].iter().filter_map(|o| get_val(vm, o).ok()).collect(),
                    CoreHint::LinearSplit { value, scalar, max_x, .. } => [value, scalar, max_x].iter().filter_map(|o| get_val(vm, o).ok()).collect(),
                    _ => vec![],
                };
                // run the real hint with its outputs redirected to scratch cells far above the stack
                let mut orig = vec![];
                for (k, c) in outputs_mut(&mut h2).into_iter().enumerate() {
                    orig.push(*c);
                    *c = CellRef { register: Register::AP, offset: (SCRATCH_BASE + 8 * i as i32 + k as i32) as i16 };
                }
                let scratch: Vec<CellRef> = outputs_mut(&mut h2).into_iter().map(|c| *c).collect();
                let boxed: Box<dyn Any> = Box::new(Hint::Core(CoreHintBase::Core(h2)));
                let honest_run = std::panic::catch_unwind(std::panic::AssertUnwindSafe(|| self.inner.execute_hint(vm, scopes, &boxed)));
                match honest_run {
                    Ok(r) => r?,
                    Err(_) => {
                        // the honest implementation cannot answer in this (deviated) state: forced answer
                        let j = self.panicked_hints;
                        self.panicked_hints += 1;
                        let Some(v) = self.fallback.get(j).copied() else {
                            self.inconclusive = true;
                            return Err(HintError::CustomHint("inconclusive: honest hint implementation panicked after a deviation".into()));
                        };
                        for c in orig.iter() {
                            vm.insert_value(cell_ref_to_relocatable(c, vm), MaybeRelocatable::Int(v)).map_err(HintError::Memory)?;
                        }
                        self.log.push((kind_of(ch), vec![], inputs));
                        return Ok(());
                    }
                }
                let mut honest = vec![];
                for c in &scratch {
                    // a hint may leave some outputs unwritten (e.g. the unused branch of U256InvModN)
                    honest.push(vm.get_maybe(&cell_ref_to_relocatable(c, vm)));
                }
                let dev = self.deviate.iter().find(|(k, _)| *k == i).map(|(_, v)| v.clone());
                for (k, c) in orig.iter().enumerate() {
                    let v = match &dev {
                        Some(d) => Some(d[k].clone()),
                        None => honest[k].clone(),
                    };
                    if let Some(v) = v {
                        vm.insert_value(cell_ref_to_relocatable(c, vm), v).map_err(HintError::Memory)?;
                    }
                }
                self.log.push((kind_of(ch), honest.into_iter().map(|v| v.unwrap_or(MaybeRelocatable::Int(Felt::ZERO))).collect(), inputs));
                return Ok(());
            }
        }
        match std::panic::catch_unwind(std::panic::AssertUnwindSafe(|| self.inner.execute_hint(vm, scopes, data))) {
            Ok(r) => r,
            Err(_) => {
                // a hint without redirectable outputs (it writes through pointers): nothing sensible can be forced
                self.inconclusive = true;
                Err(HintError::CustomHint("inconclusive: honest hint implementation panicked after a deviation".into()))
            }
        }
    }
    fn compile_hint(&self, code: &str, a: &ApTracking, r: &HashMap<String, usize>, refs: &[HintReference], sc: &[String], c: Arc<HashMap<String, Felt>>) -> Result<Box<dyn Any>, VirtualMachineError> {
        self.inner.compile_hint(code, a, r, refs, sc, c)
    }
}
impl ResourceTracker for Dev<'_> {
    fn consumed(&self) -> bool {
        self.inner.consumed()
    }
    fn consume_step(&mut self) {
        self.inner.consume_step()
    }
    fn get_n_steps(&self) -> Option<usize> {
        self.inner.get_n_steps()
    }
    fn run_resources(&self) -> &RunResources {
        self.inner.run_resources()
    }
}
impl StarknetHintProcessor for Dev<'_> {
    fn take_starknet_state(&mut self) -> StarknetState {
        self.inner.take_starknet_state()
    }
    fn take_syscalls_used_resources(&mut self) -> StarknetExecutionResources {
        self.inner.take_syscalls_used_resources()
    }
}

/// A fixed point on the STARK curve (the generator), replacing the runner's random point.
fn fixed_ec_point() -> (Felt, Felt) {
    (
        Felt::from_hex_unchecked("0x1ef15c18599971b7beced415a40f0c7deacfd9b0d1819e03d723d8bc943cfca"),
        Felt::from_hex_unchecked("0x5668060aa49730b7be4801df46ec62de53ecd11abe43a32873000c36e8dc1f"),
    )
}

fn run_dev(c: &Compiled, f: &Function, args: &[Arg], gas: usize, deviate: Vec<(usize, Vec<MaybeRelocatable>)>, step_cap: usize) -> Result<(Result<RunResultStarknet, String>, Vec<(String, Vec<MaybeRelocatable>, Vec<Felt>)>), String> {
    run_dev_fb(c, f, args, gas, deviate, step_cap, vec![]).map(|(r, l, _)| (r, l))
}

/// As `run_dev`, with forced answers for honest hints that panic after the deviation; the flag tells whether the
/// run was abandoned because more forced answers were needed than given.
#[allow(clippy::type_complexity)]
fn run_dev_fb(c: &Compiled, f: &Function, args: &[Arg], gas: usize, deviate: Vec<(usize, Vec<MaybeRelocatable>)>, step_cap: usize, fallback: Vec<Felt>) -> Result<(Result<RunResultStarknet, String>, Vec<(String, Vec<MaybeRelocatable>, Vec<Felt>)>, bool), String> {
    let a: Vec<Arg> = args.to_vec();
    let (mut hp0, ctx) = c.runner.prepare_starknet_context(f, a, Some(gas), StarknetState::default()).map_err(|e| format!("{e}"))?;
    // bound the run: a deviated flag may send the program into a long loop
    hp0.run_resources = RunResources::new(step_cap);
    let mut hp = Dev { inner: hp0, occ: 0, deviate, log: vec![], fallback, panicked_hints: 0, inconclusive: false };
    let r = c.runner.run_function_with_prepared_starknet_context(f, &mut hp, ctx).map_err(|e| format!("{e}"));
    let inconclusive = hp.inconclusive;
    Ok((r, std::mem::take(&mut hp.log), inconclusive))
}

fn two() -> Felt {
    Felt::TWO
}

/// The alternative menu for one occurrence: every alternative differs from the honest output vector.
fn menu(kind: &str, honest: &[MaybeRelocatable], prev_ptrs: &[MaybeRelocatable], inputs: &[Felt]) -> Vec<(String, Vec<MaybeRelocatable>)> {
    let mut out: Vec<(String, Vec<MaybeRelocatable>)> = vec![];
    let p128 = two().pow(128u32);
    for (k, h) in honest.iter().enumerate() {
        match h {
            MaybeRelocatable::Int(v) => {
                let mut alts: Vec<(&str, Felt)> = vec![("+1", v + Felt::ONE), ("-1", v - Felt::ONE), ("0", Felt::ZERO), ("1", Felt::ONE), ("neg", -*v), ("+2^128", v + p128), ("2^128-1", p128 - Felt::ONE), ("2^128", p128), ("2", Felt::TWO)];
                if *v == Felt::ZERO || *v == Felt::ONE {
                    alts.insert(0, ("flip", Felt::ONE - v));
                }
                for (n, a) in alts {
                    if a != *v {
                        let mut vals = honest.to_vec();
                        vals[k] = MaybeRelocatable::Int(a);
                        out.push((format!("out{k}:{n}"), vals));
                    }
                }
            }
            MaybeRelocatable::RelocatableValue(r) => {
                // alias of every previously allocated pointer, and the honest pointer moved by one
                for (j, p) in prev_ptrs.iter().enumerate().rev().take(3) {
                    if p != h {
                        let mut vals = honest.to_vec();
                        vals[k] = p.clone();
                        out.push((format!("out{k}:alias-prev{j}"), vals));
                    }
                }
                let mut vals = honest.to_vec();
                vals[k] = MaybeRelocatable::RelocatableValue((*r + 1usize).unwrap());
                out.push((format!("out{k}:ptr+1"), vals));
                let mut vals = honest.to_vec();
                vals[k] = MaybeRelocatable::Int(Felt::ZERO);
                out.push((format!("out{k}:int0"), vals));
            }
        }
    }
    // consistent alternative decompositions for quotient/remainder style pairs, swaps
    if honest.len() >= 2 {
        if let (MaybeRelocatable::Int(a), MaybeRelocatable::Int(b)) = (&honest[0], &honest[1]) {
            let mut sw = honest.to_vec();
            sw.swap(0, 1);
            if sw != honest {
                out.push(("swap01".into(), sw));
            }
            if kind == "DivMod" || kind == "LinearSplit" || kind == "WideMul128" {
                for d in [Felt::ONE, Felt::TWO, Felt::from(255u64), Felt::from(256u64), p128] {
                    let mut v1 = honest.to_vec();
                    v1[0] = MaybeRelocatable::Int(a + Felt::ONE);
                    v1[1] = MaybeRelocatable::Int(b - d);
                    out.push((format!("q+1,r-{}", short_felt(&d)), v1));
                    let mut v2 = honest.to_vec();
                    v2[0] = MaybeRelocatable::Int(a - Felt::ONE);
                    v2[1] = MaybeRelocatable::Int(b + d);
                    out.push((format!("q-1,r+{}", short_felt(&d)), v2));
                }
            }
        }
    }
    // decompositions of the *same residue*: the verified relation (a == q*b + r, value == x*scalar + y) is
    // checked modulo P, so every (q', r') decomposing a + k*P must be excluded by the range checks alone
    let prime = Felt::prime();
    let int = |f: &Felt| f.to_biguint();
    let fel = |b: &num_bigint::BigUint| Felt::from_bytes_be_slice(&(b % &prime).to_bytes_be());
    if (kind == "DivMod" && inputs.len() == 2) || (kind == "LinearSplit" && inputs.len() == 3) {
        let (a, b) = (int(&inputs[0]), int(&inputs[1]));
        if !num_traits::Zero::is_zero(&b) && honest.len() >= 2 {
            for k in 1u32..=3 {
                let big = &a + &prime * k;
                let (q, r) = (&big / &b, &big % &b);
                let mut v = honest.to_vec();
                v[0] = MaybeRelocatable::Int(fel(&q));
                v[1] = MaybeRelocatable::Int(fel(&r));
                out.push((format!("decompose(a+{k}P)"), v));
                if !num_traits::Zero::is_zero(&q) {
                    let mut v = honest.to_vec();
                    v[0] = MaybeRelocatable::Int(fel(&(&q - 1u32)));
                    v[1] = MaybeRelocatable::Int(fel(&(&r + &b)));
                    out.push((format!("decompose(a+{k}P):q-1,r+b"), v));
                }
            }
        }
    }
    out.retain(|(_, v)| v.as_slice() != honest);
    out
}

fn mr_json(v: &[MaybeRelocatable]) -> Vec<String> {
    v.iter()
        .map(|m| match m {
            MaybeRelocatable::Int(f) => short_felt(f),
            MaybeRelocatable::RelocatableValue(r) => format!("{}:{}", r.segment_index, r.offset),
        })
        .collect()
}

/// Extra programs that reach hint kinds the e2e snippets with scalar parameters rarely do.
pub const EXTRA: &[(&str, &str)] = &[
    ("u256_div", "fn f(a: u128, b: u128) -> u256 { let x = u256 { low: a, high: 3 }; let y = u256 { low: b, high: 0 }; if y == 0 { x } else { x / y } }\n"),
    ("u256_sqrt", "fn f(a: u128, b: u128) -> u128 { core::num::traits::Sqrt::sqrt(u256 { low: a, high: b }) }\n"),
    ("u128_sqrt", "fn f(a: u128) -> u64 { core::num::traits::Sqrt::sqrt(a) }\n"),
    ("u256_inv", "fn f(a: u128, b: u128) -> u256 { match core::math::u256_inv_mod(u256 { low: a, high: 0 }, u256 { low: b, high: 1 }.try_into().unwrap()) { Some(x) => x.into(), None => 7 } }\n"),
    ("u512_div", "fn f(a: u128, b: u128) -> u256 { let n: NonZero<u256> = u256 { low: b, high: 5 }.try_into().unwrap(); core::math::u256_mul_mod_n(u256 { low: a, high: a }, u256 { low: b, high: 9 }, n) }\n"),
    ("felt_to_ints", "fn f(a: felt252) -> (felt252, felt252, felt252) { let x: Option<u8> = a.try_into(); let y: Option<i16> = a.try_into(); let z: Option<u128> = a.try_into(); (if x.is_some() { 1 } else { 0 }, if y.is_some() { 1 } else { 0 }, if z.is_some() { 1 } else { 0 }) }\n"),
    ("downcasts", "fn f(a: u32, b: i32) -> (felt252, felt252) { let x: Option<u8> = a.try_into(); let y: Option<i8> = b.try_into(); let z: Option<u16> = b.try_into(); (if x.is_some() { 1 } else { 0 }, if y.is_some() { 2 } else { if z.is_some() { 3 } else { 4 } }) }\n"),
    ("dict_squash", "fn f(a: u8, b: u8) -> u8 { let mut d: Felt252Dict<u8> = Default::default(); d.insert(a.into(), 1); d.insert(b.into(), 2); d.insert(a.into(), 3); let x = d.get(b.into()); let y = d.get(300); x + y }\n"),
    ("array_pop", "fn f(a: u8) -> u8 { let mut arr = array![a, 2, 3]; let _ = arr.pop_front(); match arr.get(1) { Some(x) => *x.unbox(), None => 0 } }\n"),
    ("ec", "fn f(a: felt252) -> felt252 { match core::ec::EcPointTrait::new_from_x(a) { Some(p) => { let mut s = core::ec::EcStateTrait::init(); core::ec::EcStateTrait::add(ref s, p.try_into().unwrap()); match core::ec::EcStateTrait::finalize_nz(s) { Some(q) => { let (x, _) = core::ec::EcPointTrait::coordinates(q); x }, None => 0 } }, None => 1 } }\n"),
    ("felt_lt", "fn f(a: felt252, b: felt252) -> felt252 { let x: u256 = a.into(); let y: u256 = b.into(); if x < y { 1 } else { 0 } }\n"),
    ("wide_mul", "fn f(a: u128, b: u128) -> u256 { core::num::traits::WideMul::wide_mul(a, b) }\n"),
    ("signed_div", "fn f(a: i8, b: i8) -> i8 { if b == 0 { 0 } else { a / b } }\n"),
    ("i128_ops", "fn f(a: i128, b: i128) -> (felt252, felt252) { let x: Option<i128> = core::num::traits::CheckedAdd::checked_add(a, b); let y = a < b; (if x.is_some() { 1 } else { 0 }, if y { 1 } else { 0 }) }\n"),
    ("u64_mul_div", "fn f(a: u64, b: u64) -> u64 { let p = core::num::traits::WrappingMul::wrapping_mul(a, b); if b == 0 { p } else { p / b + p % b } }\n"),
];

/// The div_rem lattice: `bounded_int_div_rem<Lhs, Divisor>` for dividend and divisor ranges on both sides of
/// every threshold at which the compiler switches the verification scheme (KnownSmallRhs while
/// `rhs.upper * 2^128 < P`, then KnownSmallQuotient while `q_upper * 2^128 < P`, then KnownSmallLhs); a
/// scheme selected one step too far no longer pins the quotient against decompositions of a + k*P.
pub fn divrem_lattice() -> Vec<(String, String)> {
    crate::divrem::cases(false).into_iter().map(|c| (c.name, c.code)).collect()
}

pub fn debug_time(code: &str, arg: i64) {
    let mut dbs = Dbs::default();
    let cfg = Cfg::DEFAULT;
    let prog = dbs.compile(&cfg, code).unwrap();
    let c = make_runner(prog.clone(), &cfg).unwrap();
    let f = prog.funcs.iter().find(|f| fname(f) == "test::f").unwrap();
    let args = vec![Arg::Value(Felt::from(arg))];
    let t = std::time::Instant::now();
    let (r, log) = run_dev(&c, f, &args, 100_000_000, vec![], 5_000_000).unwrap();
    let r = r.unwrap();
    println!("honest: {:?} steps {} occurrences {} in {:?}", r.value, r.used_resources.basic_resources.n_steps, log.len(), t.elapsed());
    for (i, (kind, hv, hin)) in log.iter().enumerate().take(40) {
        for (an, alt) in menu(kind, hv, &[], hin) {
            let t = std::time::Instant::now();
            let r = guarded(|| run_dev(&c, f, &args, 100_000_000, vec![(i, alt.clone())], r.used_resources.basic_resources.n_steps * 4 + 3000));
            let el = t.elapsed();
            if el.as_millis() > 20 {
                println!("occ {i} {kind} {an}: {:?} -> {}", el, match r { Ok(Ok((Ok(x), _))) => format!("ok {:?}", x.value), Ok(Ok((Err(e), _))) => format!("err {}", e.chars().take(100).collect::<String>()), Ok(Err(e)) => format!("prep err {e}"), Err(e) => format!("panic {e:?}") });
            }
        }
    }
}

fn run_all(ctx: &mut Ctx) {
    let tier = ctx.tier;
    // (wrapper-augmented e2e programs that do not compile are retried without wrappers by keeping both)
    let mut progs: Vec<(String, String)> = vec![];
    for s in snippets(tier) {
        // (the divergence-placement family adds no hint kind; quick leaves it to the other execution checks)
        if tier == Tier::Quick && s.name.starts_with("extra:diverge:") {
            continue;
        }
        if let Some(plain) = &s.plain {
            let mut d = Dbs::default();
            if d.compile(&Cfg::DEFAULT, &s.code).is_err() {
                progs.push((s.name, plain.clone()));
                continue;
            }
        }
        progs.push((s.name, s.code));
    }
    // (the hint-targeted programs `hintx:*` are part of the shared snippet list)
    progs.extend(divrem_lattice());
    if let Ok(f) = std::env::var("VERIF_C03_ONLY") {
        progs.retain(|(n, _)| n.contains(&f));
    }
    let mut dbs = Dbs::default();
    let cfg = Cfg::DEFAULT;
    let max_vec = tier.pick(9, 49);
    // one work item per (program, input-vector index): spreads the heavy programs over the shards
    let mut cache: Option<(String, cairo_lang_sierra::program::Program)> = None;
    let divrem_cases: std::collections::HashMap<String, crate::divrem::Case> = crate::divrem::cases(false).into_iter().map(|c| (c.name.clone(), c)).collect();
    let divrem_vec = tier.pick(12, 60);
    // the hint-carrying bounded-integer instantiations (downcast in every relative position of the ranges,
    // constrain) on their own boundary inputs
    let bounded: std::collections::HashMap<String, Vec<Vec<num_bigint::BigInt>>> = crate::bounded::hinted_programs(tier, tier.pick(2, 1), tier.pick(10, 40))
        .into_iter()
        .map(|(n, c, i)| {
            progs.push((n.clone(), c));
            (n, i)
        })
        .collect();
    for (name, code) in &progs {
      let nvec = if divrem_cases.contains_key(name) { max_vec + divrem_vec } else if let Some(i) = bounded.get(name) { i.len() } else { max_vec };
      for vi in 0..nvec {
        ctx.case(
            || json!({"space":"programs","program":name,"input_vector_index":vi}),
            |ctx| {
                let compiled = match &cache {
                    Some((n, p)) if n == name => Ok(Ok(p.clone())),
                    _ => guarded(|| dbs.compile(&cfg, code)),
                };
                let prog = match compiled {
                    Ok(Ok(p)) => {
                        cache = Some((name.clone(), p.clone()));
                        p
                    }
                    other => {
                        if vi == 0 {
                            ctx.count("programs_not_compiled", 1);
                        }
                        if name.starts_with("hintx:divrem:") {
                            // ranges for which no verification scheme exists are refused by the compiler
                            if vi == 0 {
                                ctx.count("divrem_instantiations_refused", 1);
                            }
                        } else if name.starts_with("hintx:") || name.starts_with("extra:") {
                            ctx.note(format!("{name} does not compile: {}", match other { Ok(Err(e)) => e.chars().take(300).collect::<String>(), _ => "panic".into() }));
                        }
                        return;
                    }
                };
                // a panic while building the runner (sierra-to-casm) is C08/C14 business, not this check's
                let Ok(Ok(c)) = guarded(|| make_runner(prog.clone(), &cfg)) else {
                    ctx.count("runner_build_failed_or_panicked", 1);
                    return;
                };
                let sizes = cairo_lang_sierra_type_size::ProgramRegistryInfo::new(&prog).ok().map(|i| i.type_sizes().clone());
                for f in &prog.funcs {
                    if !fname(f).starts_with("test::") {
                        continue;
                    }
                    let Some(mut inputs) = input_vectors(&prog, f, true, 3, max_vec) else { continue };
                    // the division lattice also runs at the operand pairs where the relation the generated code
                    // verifies (min(q, b) < ceil(sqrt(max)), q below its bound) changes
                    if let Some(bi) = bounded.get(name) {
                        inputs = bi.iter().map(|v| v.iter().map(|x| Arg::Value(crate::c06::to_felt(x))).collect()).collect();
                    }
                    if let Some(dc) = divrem_cases.get(name) {
                        inputs.truncate(max_vec);
                        inputs.extend(crate::divrem::relation_inputs_small(dc, divrem_vec).into_iter().map(|(a, b)| vec![Arg::Value(Felt::from(&a)), Arg::Value(Felt::from(&b))]));
                    }
                    // results are compared address-free: arrays/boxes/nullables are dereferenced through the final
                    // memory; functions whose result cannot be canonicalised (dicts, EC state) are not judged
                    let Some(sizes) = &sizes else { continue };
                    if vi == 0 {
                        ctx.count("functions", 1);
                    }
                    for args in inputs.iter().skip(vi).take(1) {
                        // honest run: the list of hint occurrences and their honest outputs
                        let honest = match guarded(|| run_dev(&c, f, args, GAS, vec![], 5_000_000)) {
                            Ok(Ok((Ok(r), log))) => (r, log),
                            _ => {
                                ctx.count("honest_run_failed", 1);
                                continue;
                            }
                        };
                        let (hres, log) = honest;
                        let Some(hobs) = crate::cexec::observable(&prog, sizes, f, &hres.value, &hres.memory) else {
                            ctx.count("honest_results_not_canonicalisable", 1);
                            continue;
                        };
                        // a flipped flag can send a loop astray: deviated runs get 4x the honest step count + 3000
                        let step_cap = hres.used_resources.basic_resources.n_steps * 4 + 3_000;
                        ctx.count("honest_runs", 1);
                        ctx.count("hint_occurrences", log.len() as i64);
                        let mut prev_ptrs: Vec<MaybeRelocatable> = vec![];
                        for (i, (kind, hv, hin)) in log.iter().enumerate().take(tier.pick(40, 200)) {
                            let m = menu(kind, hv, &prev_ptrs, hin);
                            for h in hv {
                                if matches!(h, MaybeRelocatable::RelocatableValue(_)) {
                                    prev_ptrs.push(h.clone());
                                }
                            }
                            for (alt_name, alt) in m {
                                let case = || json!({"program": name, "function": fname(f), "args": args_str(args), "occurrence": i, "hint": kind, "honest": mr_json(hv), "alternative": alt_name, "values": mr_json(&alt), "source": code});
                                if !ctx.sub(case) {
                                    continue;
                                }
                                ctx.count("evaluations", 1);
                                ctx.distinct(&(name.as_str(), fname(f), args_str(args), i, alt_name.as_str()));
                                // forced-answer sequences for later honest hints whose implementation panics in the
                                // deviated state (first none; then every sequence of length 1 and 2 over {0, 1, 2})
                                let mut seqs: Vec<Vec<Felt>> = vec![vec![]];
                                let fv = [Felt::ZERO, Felt::ONE, Felt::TWO];
                                for a in fv {
                                    seqs.push(vec![a]);
                                }
                                for a in fv {
                                    for b in fv {
                                        seqs.push(vec![a, b]);
                                    }
                                }
                                for (si, seq) in seqs.iter().enumerate() {
                                    let r = guarded(|| run_dev_fb(&c, f, args, GAS, vec![(i, alt.clone())], step_cap, seq.clone()));
                                    let forced = if seq.is_empty() { String::new() } else { format!("+forced{:?}", seq.iter().map(short_felt).collect::<Vec<_>>()) };
                                    let mut need_more = false;
                                    match r {
                                        Err((loc, msg)) => {
                                            // a panic outside the hint implementations (runner / VM proper): not a result
                                            ctx.outcome(&format!("{kind}:runner-panic"));
                                            ctx.note(format!("runner panic under deviation at {loc}: {}", msg.chars().take(80).collect::<String>()));
                                        }
                                        Ok(Ok((_, _, true))) => {
                                            // more forced answers needed than this sequence has
                                            need_more = true;
                                        }
                                        Ok(Ok((Err(e), _, _))) if e.contains("Execution reached the end of the program") || e.contains("RunResources") || e.contains("nfinished") => {
                                            ctx.outcome(&format!("{kind}:step-cap-inconclusive"))
                                        }
                                        Ok(Err(_)) | Ok(Ok((Err(_), _, _))) => ctx.outcome(&format!("{kind}:vm-failure{}", if seq.is_empty() { "" } else { "(forced)" })),
                                        Ok(Ok((Ok(res), _, _))) => {
                                            let obs = crate::cexec::observable(&prog, sizes, f, &res.value, &res.memory);
                                            let same_value = obs.as_ref() == Some(&hobs);
                                            if same_value && res.gas_counter == hres.gas_counter {
                                                ctx.outcome(&format!("{kind}:same-result"));
                                            } else if same_value {
                                                ctx.outcome(&format!("{kind}:same-value-different-gas"));
                                                ctx.violation(
                                                    format!("hint-changes-gas:{kind}"),
                                                    format!("a dishonest {kind} output ({alt_name}{forced}) leaves the value but changes the gas counter: {:?} vs honest {:?}", res.gas_counter.map(|g| short_felt(&g)), hres.gas_counter.map(|g| short_felt(&g))),
                                                    case(),
                                                );
                                            } else {
                                                ctx.outcome(&format!("{kind}:DIFFERENT-RESULT"));
                                                ctx.violation(
                                                    format!("hint-changes-result:{kind}"),
                                                    format!("a dishonest {kind} output ({alt_name}{forced}) yields a successful run with a different result: {} vs honest {hobs}", obs.clone().unwrap_or_else(|| format!("<unreadable> {}", value_json(&res.value)))),
                                                    case(),
                                                );
                                            }
                                        }
                                    }
                                    // without forced answers the run was decisive: done. Otherwise go through the sequences;
                                    // sequences of length 1 that were decisive make their length-2 extensions redundant but
                                    // harmless (the second answer is never asked for)
                                    if si == 0 && !need_more {
                                        break;
                                    }
                                    if si > 0 {
                                        ctx.count("runs_with_forced_answers", 1);
                                        if need_more && seq.len() == 2 {
                                            ctx.outcome(&format!("{kind}:inconclusive-after-2-forced-answers"));
                                        }
                                    }
                                }
                            }
                        }
                        if !log.is_empty() {
                            ctx.sample(|| json!({"program": name, "function": fname(f), "args": args_str(args), "hint_occurrences": log.iter().map(|(k, v, _)| json!({"hint": k, "honest": mr_json(v)})).collect::<Vec<_>>()}));
                        }
                    }
                }
            },
        );
      }
    }
}

pub static C03: CheckDef = CheckDef {
    id: "C03",
    level: "fault_enumeration",
    rule: "Fault enumeration with deviation bound 1. Programs: every e2e cairo_code snippet + 24 hand-written programs + 15 hint-targeted programs (u256/u512 division, square roots, modular inverse, felt->int conversions, downcasts, dict squash, arrays, EC, wide mul, signed division), every function with scalar parameters x boundary inputs (quick <=9 vectors, thorough <=49); the bounded_int_div_rem lattice (additionally on a 12 / 60 pair prefix of its relation inputs) and the hint-carrying instantiations of the bounded-integer lattice (downcast between 26 ranges in every relative position, constrain at every kind of boundary; quick: every 2nd, 10 inputs each) on their own boundary inputs. One honest run (through a StarknetHintProcessor wrapper around the runner's CairoHintProcessor; the real hint is executed with its output cells redirected to scratch cells so its side state stays honest) records the ordered hint occurrences h1..hn and their honest outputs. Then for EVERY occurrence (quick: first 40, thorough: first 200) and EVERY alternative of the menu one run deviates at that occurrence only. Menu per output cell: flipped boolean, v+1, v-1, 0, 1, 2, -v, v+2^128, 2^128-1, 2^128; for pointers: alias of each of the last 3 allocated pointers, ptr+1, integer 0; for pairs: swapped, and consistent re-decompositions (q+1, r-d), (q-1, r+d) for d in {1,2,255,256,2^128}; for DivMod and LinearSplit the hint's inputs are read and every decomposition of the same residue a + kP (k = 1..3; canonical and q-1, r+b) is offered, since the verified relation holds modulo P and only the range checks exclude them; plus the div_rem lattice: bounded_int_div_rem over 6 dividend ranges x 12 divisor ranges placed on both sides of T = (P-1)/2^128 for each of the three verification schemes (KnownSmallRhs / KnownSmallQuotient / KnownSmallLhs); RandomEcPoint's randomness is replaced by a fixed curve point. When, after the deviation, the runner's own implementation of a LATER hint finds its book-keeping inconsistent and panics (dict squash loops), a prover could still answer anything there: the run is repeated with that hint's outputs forced to each value of {0,1,2}, and likewise for a second such hint (12 forced-answer sequences); runs needing a third forced answer are counted inconclusive. Oracle: the deviated run is a VM failure, or Ok with the same value AND gas counter as the honest run; Ok with a different value (or gas) is the violation. observed_outcomes lists (hint kind, outcome) counts: every reached hint kind must show VM failures (vacuity guard). distinct_nontrivial = distinct (program, function, args, occurrence, alternative).",
    assumptions: &["soundness is judged against cairo-vm's checks (write-once memory, range-check and other builtin validation at end of run), not against a STARK prover", "hints that write through pointers (AssertLeFindSmallArcs, GetCurrentAccessIndex, Felt252DictEntryInit, AllocFelt252Dict, EvalCircuit) are executed honestly in this version", "scratch cells for redirected outputs live at ap+3000.. and are assumed unused by the small programs"],
    run: run_all,
    stack_mb: 32,
    item_timeout_s: 600,
    wall_cap_s: (55, 1700),
    shards: 0,
};
