//! C13 — incremental recompilation equals compiling the final sources from scratch. Explicit-state search
//! over edit/query histories, executed on the real RootDatabase by fork-snapshot DFS.

use std::collections::{BTreeMap, BTreeSet};
use std::io::Write;

use cairo_lang_compiler::db::RootDatabase;
use serde_json::{Value, json};

use crate::core::{CheckDef, Ctx, Tier, hash_of};
use crate::hist::{in_child, set_file};
use crate::pipe::*;

/// A project template: files with flag markers `⟦k:off¦on⟧`; flag k switches every marker with index k.
pub struct Seed {
    pub name: &'static str,
    pub files: &'static [(&'static str, &'static str)],
    pub nflags: usize,
}

pub const SEEDS: &[Seed] = &[
    Seed {
        name: "plain-functions",
        nflags: 11,
        files: &[(
            "lib.cairo",
            "⟦0:¦// a comment at the top\n⟧⟦1:¦fn k(x: felt252) -> felt252 {\n    x - 1\n}\n⟧fn ⟦5:helper¦helper2⟧(x: u8) -> u8 {\n    x + ⟦4:1¦2⟧\n}\n⟦10:¦\n// a comment between items\n\n⟧fn f(a: u8) -> u8 {\n⟦2:¦    let _unused = 5_u8;\n⟧    let b = ⟦9:helper¦helper2⟧(a);\n⟦3:¦    // a comment inside the body\n⟧    b * 2\n⟦6:}¦⟧\n⟦8:fn g(x: felt252) -> felt252 {\n    x * 2\n}\n¦⟧⟦7:¦fn h(x: felt252) -> felt252 { x + ⟧⟦1:fn k(x: felt252) -> felt252 {\n    x - 1\n}\n¦⟧\n",
        )],
    },
    Seed {
        name: "struct-trait-generics",
        nflags: 10,
        files: &[(
            "lib.cairo",
            "⟦0:¦// header\n⟧#[derive(Copy, Drop)]\nstruct P<T> {\n⟦1:    x: T,\n¦⟧⟦9:¦    // field comment\n⟧    y: ⟦2:T¦u8⟧,\n⟦1:¦    x: T,\n⟧}\ntrait Sum<T> {\n    fn sum(self: P<T>) -> T;\n}\n⟦3:¦const K: u8 = 3;\n⟧impl SumU8 of Sum<u8> {\n    fn sum(self: P<u8>) -> u8 {\n        self.x + self.⟦4:y¦z⟧\n    }\n}\n⟦5:fn mk(a: u8) -> P<u8> {\n    P { x: a, y: 1 }\n}\n¦⟧⟦6:¦fn mk(a: u8) -> P<u8> {\n    P { x: a, y: 2 }\n}\n⟧fn f(a: u8) -> u8 {\n    ⟦7:mk(a)¦P { x: a, y: a }⟧.sum()\n}\n⟦8:¦impl SumU8b of Sum<u8> { fn sum(self: P<u8>) -> u8 { 0 } }\n⟧",
        )],
    },
    Seed {
        name: "derives-and-plugins",
        nflags: 9,
        files: &[(
            "lib.cairo",
            "⟦0:¦//! inner doc\n⟧#[derive(⟦1:Copy, Drop, PartialEq, Serde¦Drop, Serde⟧)]\nstruct S {\n⟦2:    a: u8,\n¦⟧    b: felt252,\n⟦2:¦    a: u8,\n⟧}\n⟦8:¦\n\n⟧#[derive(Drop, ⟦3:PartialEq¦Debug⟧)]\nenum E {\n    A: S,\n    B,\n}\n#[generate_trait]\nimpl SI of ST {\n    fn dbl(self: @S) -> u8 {\n        *self.a * ⟦4:2¦3⟧\n    }\n}\nfn f(s: S) -> bool {\n⟦5:¦    let _t = s.dbl();\n⟧    let e = E::A(s);\n    ⟦6:e == E::B¦false⟧\n}\n⟦7:¦fn ser(s: S) -> Array<felt252> { let mut out = array![]; s.serialize(ref out); out }\n⟧",
        )],
    },
    Seed {
        // crate settings are inputs of the database too: edition (visibility enforcement, prelude, glob
        // imports), the crate's cfg set and the experimental features are edited like file contents
        name: "crate-settings-edits",
        nflags: 7,
        files: &[
            ("@settings", "edition=⟦0:0¦3⟧ feature_x=⟦1:0¦1⟧ experimental=⟦5:0¦1⟧ edition_plus=⟦6:0¦1⟧"),
            ("lib.cairo", "⟦4:¦// top\n⟧mod m;\n#[cfg(feature: 'x')]\nfn pick() -> u8 {\n    1\n}\n#[cfg(not(feature: 'x'))]\nfn pick() -> u8 {\n    2\n}\nfn f(a: u8) -> u8 {\n    m::hidden(a) + pick() + ⟦3:1¦2⟧\n}\n⟦2:¦use m::*;\nfn g(a: u8) -> u8 {\n    vis(a)\n}\n⟧fn d() -> Felt252Dict<u8> {\n    Default::default()\n}\n"),
            ("m.cairo", "fn hidden(a: u8) -> u8 {\n    a\n}\npub fn vis(a: u8) -> u8 {\n    a / 2\n}\n"),
        ],
    },
    Seed {
        name: "two-file-module-tree",
        nflags: 9,
        files: &[
            ("lib.cairo", "⟦0:¦// lib header\n⟧mod m;\n⟦1:¦mod inline { pub fn z() -> u8 { 7 } }\n⟧use m::⟦2:helper¦helper2⟧;\nfn f(a: u8) -> u8 {\n    ⟦3:helper¦helper2⟧(a) + ⟦4:1¦m::K⟧\n}\n⟦5:¦fn broken( {\n⟧"),
            ("m.cairo", "⟦6:¦// m header\n\n⟧pub const K: u8 = ⟦7:2¦300⟧;\npub fn ⟦2:helper¦helper2⟧(x: u8) -> u8 {\n    x ⟦8:+¦-⟧ K\n}\n"),
        ],
    },
    Seed {
        name: "consts-and-statements",
        nflags: 8,
        files: &[(
            "lib.cairo",
            "const A: u8 = ⟦0:1¦2⟧;\nconst B: u8 = A + ⟦1:1¦255⟧;\n⟦2:¦// between\n⟧fn f(x: u8) -> u8 {\n⟦3:¦    const LOCAL: u8 = 4;\n⟧    let y = x + B;\n⟦4:¦    const _: () = ();\n⟧    ⟦5:y¦z⟧ + ⟦6:A¦B⟧\n}\n⟦7:¦fn g() -> u8 { f(A) }\n⟧",
        )],
    },
    Seed {
        name: "closures-loops-matches",
        nflags: 9,
        files: &[(
            "lib.cairo",
            "⟦0:¦// top\n⟧#[derive(Drop, Copy)]\nenum E {\n    A,\n    B: u8,\n⟦1:¦    C: (u8, u8),\n⟧}\nfn val(e: E) -> u8 {\n    match e {\n        E::A => 1,\n        E::B(x) => x ⟦2:/¦%⟧ 2,\n⟦1:¦        E::C((p, _q)) => p,\n⟧    }\n}\n⟦3:¦\n// between\n⟧fn f(a: u8) -> u32 {\n    let k = a / 2;\n    let c = |x: u8| x / 2 + ⟦4:k¦a⟧;\n    let mut t: u32 = 0;\n    let mut i: u8 = 0;\n    ⟦5:while i != 3¦loop⟧ {\n⟦5:¦        if i == 3 { break; }\n⟧        i += 1;\n⟦6:¦        if i == 2 { continue; }\n⟧        t += c(i).into();\n    }\n    for v in array![E::A, E::B(a)].span() {\n        t += val(*v).into();\n    }\n    t\n⟦7:}¦⟧\n⟦8:¦fn g(a: u8) -> u8 { let d = |x: u8| x + ; d(a) }\n⟧",
        )],
    },
    Seed {
        name: "three-file-tree-reexports",
        nflags: 10,
        files: &[
            ("lib.cairo", "⟦0:¦// lib\n⟧mod a;\nmod b;\n⟦1:¦mod inl {\n    pub mod deep {\n        pub fn z(x: u8) -> u8 { x / 2 }\n    }\n    pub use deep::z as zz;\n}\n⟧use b::⟦2:via_b¦via_b2⟧;\nfn f(x: u8) -> u8 {\n    ⟦2:via_b¦via_b2⟧(x) / 2 + a::⟦3:K¦K2⟧ / 2⟦1:¦ + inl::zz(x) / 4⟧\n}\n⟦4:¦impl LocalT of a::T<u16> { fn get(self: u16) -> u8 { 1 } }\n⟧"),
            ("a.cairo", "⟦5:¦// a\n\n⟧pub const ⟦3:K¦K2⟧: u8 = ⟦6:10¦11⟧;\npub trait T<X> {\n    fn get(self: X) -> u8;\n}\npub impl TU8 of T<u8> {\n    fn get(self: u8) -> u8 { self / ⟦7:2¦3⟧ }\n}\n"),
            ("b.cairo", "use super::a::{T, TU8};\n⟦8:¦// b\n⟧pub fn ⟦2:via_b¦via_b2⟧(x: u8) -> u8 {\n    x.get() + ⟦9:TU8::get(x)¦T::<u8>::get(x) + (⟧\n}\n"),
        ],
    },
    Seed {
        name: "reorderings",
        nflags: 9,
        files: &[(
            "lib.cairo",
            "⟦0:¦// top\n⟧#[derive(Drop, Copy, PartialEq, Serde)]\nstruct Pair {\n⟦1:    a: felt252,\n¦⟧    b: u8,\n⟦1:¦    a: felt252,\n⟧}\n#[derive(Drop, Copy)]\nenum Choice {\n⟦2:    Left: felt252,\n¦⟧    Right: u8,\n⟦2:¦    Left: felt252,\n⟧}\ntrait T {\n⟦3:    fn one(self: @Pair) -> felt252;\n¦⟧    fn two(self: @Pair) -> u8;\n⟦3:¦    fn one(self: @Pair) -> felt252;\n⟧}\nimpl I of T {\n⟦4:    fn one(self: @Pair) -> felt252 { *self.a }\n¦⟧    fn two(self: @Pair) -> u8 { *self.b }\n⟦4:¦    fn one(self: @Pair) -> felt252 { *self.a }\n⟧}\n⟦5:fn make(x: felt252, y: u8) -> Pair {\n    Pair { a: x, b: y }\n}\n¦⟧fn pick(c: Choice) -> felt252 {\n    match c {\n⟦6:        Choice::Left(v) => v,\n¦⟧        Choice::Right(w) => w.into(),\n⟦6:¦        Choice::Left(v) => v,\n⟧    }\n}\n⟦5:¦fn make(x: felt252, y: u8) -> Pair {\n    Pair { a: x, b: y }\n}\n⟧fn f(⟦7:x: felt252, y: u8¦y: u8, x: felt252⟧) -> felt252 {\n    let p = make(x, y);\n    p.one() + p.two().into() + pick(Choice::Right(y))\n}\n⟦8:¦fn bad() -> Pair { Pair {} }\n⟧",
        )],
    },
];

/// Renders one file of the template under `flags`.
pub fn render(template: &str, flags: u32) -> String {
    let mut out = String::new();
    let mut rest = template;
    while let Some(i) = rest.find('⟦') {
        out.push_str(&rest[..i]);
        let after = &rest[i + '⟦'.len_utf8()..];
        let end = after.find('⟧').expect("template: unclosed marker");
        let body = &after[..end];
        let (k, alts) = body.split_once(':').expect("template: marker without ':'");
        let k: u32 = k.parse().expect("template: flag index");
        let (off, on) = alts.split_once('¦').expect("template: marker without '¦'");
        out.push_str(if flags & (1 << k) != 0 { on } else { off });
        rest = &after[end + '⟧'.len_utf8()..];
    }
    out.push_str(rest);
    out
}

fn apply_content(db: &mut RootDatabase, seed: &Seed, flags: u32) -> cairo_lang_filesystem::ids::CrateInput {
    // the pseudo file `@settings` renders to `key=value` words that become the crate's settings
    let settings = seed.files.iter().find(|(p, _)| *p == "@settings").map(|(_, tpl)| {
        use cairo_lang_filesystem::cfg::{Cfg as CfgItem, CfgSet};
        use cairo_lang_filesystem::db::{CrateSettings, Edition, ExperimentalFeaturesConfig};
        let text = render(tpl, flags);
        let get = |k: &str| text.split_whitespace().find_map(|w| w.strip_prefix(&format!("{k}="))).and_then(|v| v.parse::<usize>().ok()).unwrap_or(0);
        let mut st = CrateSettings::default();
        st.edition = [Edition::V2023_01, Edition::V2023_10, Edition::V2023_11, Edition::V2024_07, Edition::V2025_12][(get("edition") + get("edition_plus")).min(4)];
        if get("feature_x") == 1 {
            st.cfg_set = Some(CfgSet::from_iter([CfgItem::kv("feature", "x")]));
        }
        if get("experimental") == 1 {
            st.experimental_features = ExperimentalFeaturesConfig { negative_impls: true, associated_item_constraints: true, coupons: true, user_defined_inline_macros: true, repr_ptrs: true };
        }
        st
    });
    let mut ci = None;
    for (path, tpl) in seed.files {
        if *path == "@settings" {
            continue;
        }
        ci = Some(crate::hist::set_file_settings(db, "p", path, Some(&render(tpl, flags)), settings.clone()));
    }
    ci.unwrap()
}

fn observe(db: &RootDatabase, ci: &cairo_lang_filesystem::ids::CrateInput) -> (String, String) {
    let (diag, has_err) = diagnostics(db, ci);
    let s = if has_err {
        "<errors>".to_string()
    } else {
        match sierra(db, ci) {
            Ok(p) => p.to_string(),
            Err(e) => format!("<{e}>"),
        }
    };
    (diag, s)
}

/// Recursive DFS in the current process image. Writes one record per queried node.
fn explore(db: &mut RootDatabase, seed: &Seed, nflags: usize, flags: u32, depth: usize, path: &mut Vec<(usize, bool)>, queries: &[bool], out: &mut dyn Write) {
    if depth == 0 {
        return;
    }
    for k in 0..nflags {
        for &q in queries {
            path.push((k, q));
            let r = in_child(120, |w| {
                let nf = flags ^ (1 << k);
                let ci = apply_content(db, seed, nf);
                if q {
                    let o = observe(db, &ci);
                    let _ = writeln!(w, "{}", json!({"t":"obs","path":path.iter().map(|(k,q)| json!([k,q])).collect::<Vec<_>>(),"flags":nf,"diag_hash":hash_of(&o.0).to_string(),"sierra_hash":hash_of(&o.1).to_string(),"errors":o.1.starts_with('<')}));
                } else {
                    let _ = writeln!(w, "{}", json!({"t":"edit-only","flags":nf}));
                }
                explore(db, seed, nflags, nf, depth - 1, path, queries, w);
            });
            for rec in &r.records {
                let _ = writeln!(out, "{rec}");
            }
            if let Some(a) = r.abnormal {
                let _ = writeln!(out, "{}", json!({"t":"abnormal","path":path.iter().map(|(k,q)| json!([k,q])).collect::<Vec<_>>(),"what":a}));
            }
            path.pop();
        }
    }
}

fn run_all(ctx: &mut Ctx) {
    let tier = ctx.tier;
    let depth = tier.pick(2, 3);
    let nseeds = tier.pick(4, SEEDS.len());
    let queries: &[bool] = &[true, false];
    for seed in SEEDS.iter().take(nseeds) {
        // start states: the initial content and every single-flag content
        // quick: the first 8 flags of each seed are edited (all are still rendered)
        // (quick: the first 8 flags; of the settings seed the first 4 - edition, cfg feature, glob import, a literal)
        let nflags = tier.pick(seed.nflags.min(if seed.name == "crate-settings-edits" { 4 } else { 8 }), seed.nflags);
        let starts: Vec<u32> = std::iter::once(0u32).chain((0..nflags).map(|k| 1u32 << k)).collect();
        for &start in &starts {
            ctx.case(
                || json!({"space":"histories","seed":seed.name,"start_flags":start,"depth":depth}),
                |ctx| {
                    // the pristine image: a database that has compiled only an unrelated crate
                    let mut db = new_db(&Cfg::DEFAULT);
                    let warm = set_src(&mut db, "warm", "fn w(a: u8) -> u8 { a + 1 }\n");
                    let _ = diagnostics(&db, &warm);
                    let _ = sierra(&db, &warm);
                    // explore from `start` in a child of the pristine image
                    let r = in_child(600, |w| {
                        let ci = apply_content(&mut db, seed, start);
                        let o = observe(&db, &ci);
                        let _ = writeln!(w, "{}", json!({"t":"obs","path":[],"flags":start,"diag_hash":hash_of(&o.0).to_string(),"sierra_hash":hash_of(&o.1).to_string(),"errors":o.1.starts_with('<')}));
                        let mut path = vec![];
                        explore(&mut db, seed, nflags, start, depth, &mut path, queries, w);
                    });
                    if let Some(a) = &r.abnormal {
                        if a.ends_with("signal 14") {
                            ctx.mark_capped(&format!("explorer subtree of seed {} / start {start} hit its watchdog", seed.name));
                        } else {
                            ctx.violation("explorer-child-died", format!("the exploring process died: {a}"), json!({"seed":seed.name,"start":start}));
                        }
                    }
                    // reference: every observed content compiled in a fork of the pristine image (memoised)
                    let mut fresh: BTreeMap<u32, (String, String, bool)> = BTreeMap::new();
                    let mut states: BTreeSet<u32> = BTreeSet::new();
                    for rec in &r.records {
                        match rec["t"].as_str() {
                            Some("edit-only") => {
                                ctx.count("transitions", 1);
                                states.insert(rec["flags"].as_u64().unwrap() as u32);
                            }
                            Some("abnormal") if rec["what"].as_str().map(|w| w.ends_with("signal 14")).unwrap_or(false) => {
                                ctx.mark_capped("a history's child hit its watchdog");
                            }
                            Some("abnormal") => {
                                ctx.violation("incremental-step-crashed", format!("a step of the history crashed the compiler process: {}", rec["what"]), json!({"seed":seed.name,"start":start,"path":rec["path"]}));
                            }
                            Some("child-panic") => {
                                ctx.violation("incremental-step-panicked", "a step of the history panicked", json!({"seed":seed.name,"start":start}));
                            }
                            Some("obs") => {
                                ctx.count("transitions", 1);
                                ctx.count("evaluations", 1);
                                ctx.count("traces_validated_against_impl", 1);
                                let flags = rec["flags"].as_u64().unwrap() as u32;
                                states.insert(flags);
                                ctx.distinct(&(seed.name, start, rec["path"].to_string()));
                                let f = fresh.entry(flags).or_insert_with(|| {
                                    let fr = in_child(300, |w| {
                                        let ci = apply_content(&mut db, seed, flags);
                                        let o = observe(&db, &ci);
                                        let _ = writeln!(w, "{}", json!({"diag_hash":hash_of(&o.0).to_string(),"sierra_hash":hash_of(&o.1).to_string(),"errors":o.1.starts_with('<')}));
                                    });
                                    match fr.records.first() {
                                        Some(v) => (v["diag_hash"].as_str().unwrap_or("").to_string(), v["sierra_hash"].as_str().unwrap_or("").to_string(), v["errors"].as_bool().unwrap_or(false)),
                                        None => ("<fresh failed>".into(), "<fresh failed>".into(), true),
                                    }
                                });
                                ctx.outcome(if rec["errors"].as_bool().unwrap_or(false) { "content-with-errors" } else { "content-compiles" });
                                let same_diag = rec["diag_hash"].as_str() == Some(f.0.as_str());
                                let same_sierra = rec["sierra_hash"].as_str() == Some(f.1.as_str());
                                if !same_diag || !same_sierra {
                                    let what = if !same_diag { "diagnostics" } else { "sierra" };
                                    let files: Vec<Value> = seed.files.iter().map(|(p, t)| json!({"path": p, "content": render(t, flags)})).collect();
                                    ctx.violation(
                                        format!("incremental-differs-from-fresh:{what}:{}", seed.name),
                                        format!("after the edit history {} (each step [flag, queried]) from start flags {start:#b}, the {what} of the incremental database differ from those of a database that never saw another version", rec["path"]),
                                        json!({"seed":seed.name,"start_flags":start,"path":rec["path"],"final_flags":flags,"final_files":files}),
                                    );
                                }
                            }
                            _ => {}
                        }
                    }
                    ctx.count("states", states.len() as i64);
                    ctx.count("fresh_compiles", fresh.len() as i64);
                    ctx.sample(|| json!({"seed":seed.name,"start_flags":start,"records":r.records.len(),"example_record":r.records.get(3)}));
                    // bind the pristine-image shortcut to a really fresh database on the start content
                    let mut really_fresh = new_db(&Cfg::DEFAULT);
                    let ci = apply_content(&mut really_fresh, seed, start);
                    let o = observe(&really_fresh, &ci);
                    if let Some(f) = fresh.get(&start) {
                        ctx.count("pristine_vs_new_database_checks", 1);
                        if f.0 != hash_of(&o.0).to_string() || f.1 != hash_of(&o.1).to_string() {
                            ctx.violation("warmed-database-differs-from-new-database", "a database that compiled an unrelated crate first gives different output than a brand new database", json!({"seed":seed.name,"flags":start}));
                        }
                    }
                },
            );
        }
    }
}

pub static C13: CheckDef = CheckDef {
    id: "C13",
    level: "model_checking",
    rule: "Model: project content = render(seed, flags), flags in {0,1}^m (m = 8..10 per seed): comment at top / between items / inside a body, extra let, extra const item / const statement, identifier renamed at the definition only or consistently (also across files), literal changed, type changed, closing brace deleted, unterminated item inserted, item deleted / replaced / duplicated impl, pure REORDERINGS (struct members, enum variants, trait and impl items, match arms, parameters, whole functions swapped in place), derive list changed, second module file edited, value out of range. An edit flips one flag; a step is (edit, query) with query in {diagnostics+Sierra, none}. Seeds: plain functions; struct+trait+generics; derive/plugin-generated code; a two-file module tree; consts and const statements; closures + loops + matches with an enum variant added consistently; a three-file tree with inline modules, re-exports, cross-file consts / traits / impls and renames; a seed whose edits change the CRATE SETTINGS - edition 2023_01 / 2023_10 / 2024_07 / 2025_12 (visibility enforcement, prelude contents, glob imports), a `feature` in the crate's cfg set selecting between two `#[cfg]` definitions, experimental features - next to content edits (quick: first 4). Enumerated: EVERY step sequence of length <= 2 (thorough: <= 3) from the initial content and from each of the m single-flag contents, by depth-first search where every node is a fork()ed copy-on-write image of the real RootDatabase (override_file_content! applied to the live database). Oracle: at every queried node, hash(diagnostics text with line:col) and hash(Sierra text) of the incremental database equal those of the same content compiled in a fork of a pristine image that never saw another version of the project (memoised per content); that shortcut is itself bound to a brand-new RootDatabase on every start content. states = distinct contents reached, transitions = steps executed, traces_validated_against_impl = queried nodes compared (every transition is executed on the implementation; there is no separate model to drift).",
    assumptions: &["fork() copy-on-write semantics; single-threaded workers (no rayon pool exists at fork time)", "the reference for a content is a database that compiled only an unrelated warm-up crate; equality with a brand-new database is checked on the start contents"],
    run: run_all,
    stack_mb: 32,
    item_timeout_s: 900,
    wall_cap_s: (55, 3600),
    shards: 0,
};

/// Debug: diagnostics of every seed's initial content and of each single-flag content.
pub fn debug_seeds() {
    for seed in SEEDS {
        for flags in std::iter::once(0u32).chain((0..seed.nflags).map(|k| 1u32 << k)) {
            let mut db = new_db(&Cfg::DEFAULT);
            let ci = apply_content(&mut db, seed, flags);
            let (d, s) = observe(&db, &ci);
            println!("== {} flags={flags:#b}: diag {} bytes, sierra {} bytes{}", seed.name, d.len(), s.len(), if flags == 0 && !d.is_empty() { format!("\n{d}") } else { String::new() });
        }
    }
}
