//! The shared execution space: corpus / generated Cairo snippets x configurations x boundary inputs x gas,
//! with the monitors of C02 (VM failures), C04 (gas covers cost), C17 (ap change / statement ranges) and the
//! differential oracle of C05.

use std::collections::HashMap;

use cairo_lang_casm::instructions::InstructionBody;
use cairo_lang_compiler::db::RootDatabase;
use cairo_lang_runnable_utils::builder::RunnableBuilder;
use cairo_lang_runner::{Arg, RunResultValue, token_gas_cost};
use cairo_lang_sierra::extensions::gas::CostTokenType;
use cairo_lang_sierra::program::{Function, Program};
use serde_json::{Value, json};
use starknet_types_core::felt::Felt;

use crate::core::{Ctx, Tier};
use crate::pipe::*;

pub struct Snip {
    pub name: String,
    /// the program, plus generated scalar-parameter wrappers for functions taking boxes/enums/arrays/...
    pub code: String,
    /// the program without wrappers (used when the wrappers do not compile)
    pub plain: Option<String>,
    /// a ready-made Sierra program (instantiation-lattice wrappers): no front end involved
    pub sierra: Option<Program>,
}

/// The C14 instantiation lattice as executable programs: one function `test::F` per accepted libfunc
/// instantiation, taking the libfunc's parameters and returning its outputs.  Only libfuncs of the
/// allowed-libfuncs lists are executed: `audited` for C02 (the property's own restriction), `all` otherwise
/// (what is outside it - `dummy_function_call`, a size-estimation placeholder - is never run).
pub fn inst_snippets(tier: Tier, audited_only: bool) -> Vec<Snip> {
    let list = if audited_only { "audited" } else { "all" };
    let audited: std::collections::BTreeSet<String> = std::fs::read_to_string(format!("/repo/crates/cairo-lang-starknet-classes/src/allowed_libfuncs_lists/{list}.json"))
        .ok()
        .and_then(|t| serde_json::from_str::<serde_json::Value>(&t).ok())
        .map(|v| match &v["allowed_libfuncs"] {
            Value::Array(a) => a.iter().filter_map(|x| x.as_str().map(|s| s.to_string())).collect(),
            Value::Object(o) => o.keys().cloned().collect(),
            _ => Default::default(),
        })
        .unwrap_or_default();
    crate::c14inst::compiled_wrappers(tier)
        .into_iter()
        .filter(|(_, p)| p.libfunc_declarations.iter().all(|d| audited.contains(d.long_id.generic_id.0.as_str())))
        .map(|(name, p)| Snip { name, code: p.to_string(), plain: None, sierra: Some(p) })
        .collect()
}

/// E2E-CAIRO snippets + the hand-written extra programs (loops, recursion, dicts, locals across calls).
pub fn snippets(tier: Tier) -> Vec<Snip> {
    let mut v: Vec<Snip> = e2e_cairo()
        .into_iter()
        .map(|(name, code)| {
            // snippets that declare their own `extern fn`s (allowed only under `extern_outside_corelib`) reach
            // internal libfuncs whose operand requirements the lowering normally guarantees (`local_into_box`
            // wants a local); calling those from generated wrappers builds programs outside the language
            let w = if code.contains("extern_outside_corelib") { String::new() } else { crate::wrap::wrappers(&code) };
            if w.is_empty() { Snip { name: format!("e2e:{name}"), code, plain: None, sierra: None } } else { Snip { name: format!("e2e:{name}"), code: format!("{code}\n{w}"), plain: Some(code), sierra: None } }
        })
        .collect();
    for (name, code) in crate::progs::extra_programs(tier) {
        v.push(Snip { name, code, plain: None, sierra: None });
    }
    // hint-targeted programs (u256/u512 division, square roots, modular inverse, conversions, dict squash, EC ...):
    // written for C03, executed by every execution check - on the FULL boundary domains even in quick, since
    // their honest hints have their own boundary cases (e.g. 2*root - remainder == 2^128 in the u256 square root)
    for (n, c) in crate::c03::EXTRA {
        v.push(Snip { name: format!("hintx:{n}"), code: c.to_string(), plain: None, sierra: None });
    }
    // whole files: examples/ and the regression programs of tests/bug_samples (test attributes removed so
    // the functions are ordinary functions, run with their scalar arguments or none)
    for dir in ["/repo/examples", "/repo/tests/bug_samples"] {
        let mut files = vec![];
        crate::text::walk_cairo_files(std::path::Path::new(dir), &mut files);
        for f in files {
            if f.file_name().map(|n| n == "lib.cairo").unwrap_or(false) {
                continue;
            }
            let Ok(src) = std::fs::read_to_string(&f) else { continue };
            let code: String = src
                .lines()
                .filter(|l| {
                    let t = l.trim_start();
                    !(t.starts_with("#[test]") || t.starts_with("#[available_gas") || t.starts_with("#[should_panic") || t.starts_with("#[ignore]"))
                })
                .map(|l| format!("{l}\n"))
                .collect();
            v.push(Snip { name: format!("file:{}", f.strip_prefix("/repo").unwrap().to_string_lossy().trim_start_matches('/')), code, plain: None, sierra: None });
        }
    }
    v
}

/// One database per front-end configuration, reused across snippets (incremental path).
#[derive(Default)]
pub struct Dbs {
    map: HashMap<String, (RootDatabase, usize)>,
    /// a database is replaced after this many compilations (0: the default of 400); checks that compile
    /// modules of hundreds of functions set it lower - salsa keeps every revision's data until then
    pub recycle_after: usize,
}
impl Dbs {
    pub fn compile(&mut self, cfg: &Cfg, code: &str) -> Result<Program, String> {
        let key = Cfg { linear: true, ..*cfg }.name();
        let fresh = match self.map.get(&key) {
            Some((_, n)) => *n > if self.recycle_after == 0 { 400 } else { self.recycle_after },
            None => true,
        };
        if fresh {
            self.map.insert(key.clone(), (new_db(cfg), 0));
        }
        let (db, n) = self.map.get_mut(&key).unwrap();
        *n += 1;
        let ci = set_src(db, "test", code);
        let (diag, has_err) = diagnostics(db, &ci);
        if has_err {
            return Err(format!("diagnostics: {}", diag.chars().take(300).collect::<String>()));
        }
        sierra(db, &ci)
    }
    /// Compiles a snippet with its generated wrappers, falling back to the plain program.
    pub fn compile_snip(&mut self, cfg: &Cfg, snip: &Snip) -> Result<Program, String> {
        if let Some(p) = &snip.sierra {
            return Ok(p.clone());
        }
        match self.compile(cfg, &snip.code) {
            Ok(p) => Ok(p),
            Err(e) => match &snip.plain {
                Some(plain) => self.compile(cfg, plain),
                None => Err(e),
            },
        }
    }
    /// Full diagnostics text of `code` under `cfg` (untruncated).
    pub fn full_diagnostics(&mut self, cfg: &Cfg, code: &str) -> String {
        let key = Cfg { linear: true, ..*cfg }.name();
        if !self.map.contains_key(&key) {
            self.map.insert(key.clone(), (new_db(cfg), 0));
        }
        let (db, _) = self.map.get_mut(&key).unwrap();
        let ci = set_src(db, "test", code);
        diagnostics(db, &ci).0
    }
    pub fn forget(&mut self, cfg: &Cfg) {
        self.map.remove(&Cfg { linear: true, ..*cfg }.name());
    }
}

/// Alternatives for one value of a Sierra type, decided structurally from the type declarations: scalars
/// from the boundary domains, structs/tuples as products of their members, snapshots as their inner type,
/// NonZero without zero, bool, arrays (empty, one element, three elements). Each alternative is the list
/// of runner arguments making up one value. None: the type is not generated (boxes, dicts, other enums ...).
pub fn type_args(p: &Program, t: &cairo_lang_sierra::ids::ConcreteTypeId, small: bool, depth: usize) -> Option<Vec<Vec<Arg>>> {
    use cairo_lang_sierra::program::GenericArg;
    if depth > 6 {
        return None;
    }
    let d = p.type_declarations.iter().find(|d| d.id == *t)?;
    let g = d.long_id.generic_id.0.as_str();
    let inner = |i: usize| -> Option<&cairo_lang_sierra::ids::ConcreteTypeId> {
        match d.long_id.generic_args.get(i)? {
            GenericArg::Type(x) => Some(x),
            _ => None,
        }
    };
    match g {
        "felt252" | "u8" | "u16" | "u32" | "u64" | "u128" | "i8" | "i16" | "i32" | "i64" | "i128" => Some(domain(g, small)?.into_iter().map(|v| vec![Arg::Value(v)]).collect()),
        "BoundedInt" => match (d.long_id.generic_args.first()?, d.long_id.generic_args.get(1)?) {
            (GenericArg::Value(lo), GenericArg::Value(hi)) if lo <= hi => {
                let mid: num_bigint::BigInt = (lo + hi) / 2;
                let mut v: Vec<num_bigint::BigInt> = vec![lo.clone(), lo + 1, mid, hi - 1, hi.clone(), num_bigint::BigInt::from(0), num_bigint::BigInt::from(1), num_bigint::BigInt::from(-1)];
                v.retain(|x| x >= lo && x <= hi);
                v.sort();
                v.dedup();
                if small && v.len() > 4 {
                    let n = v.len();
                    v = vec![v[0].clone(), v[1].clone(), v[n / 2].clone(), v[n - 1].clone()];
                }
                Some(v.into_iter().map(|x| vec![Arg::Value(Felt::from(&x))]).collect())
            }
            _ => None,
        },
        "bytes31" => Some([Felt::ZERO, Felt::ONE, Felt::TWO.pow(128u32), Felt::TWO.pow(248u32) - Felt::ONE].into_iter().map(|v| vec![Arg::Value(v)]).collect()),
        "ContractAddress" | "ClassHash" | "StorageAddress" | "StorageBaseAddress" => {
            Some([Felt::ZERO, Felt::ONE, Felt::from(0x1234u64), Felt::TWO.pow(251u32) - Felt::from(257u64)].into_iter().map(|v| vec![Arg::Value(v)]).collect())
        }
        "Snapshot" => type_args(p, inner(0)?, small, depth + 1),
        "NonZero" => {
            let v = type_args(p, inner(0)?, small, depth + 1)?;
            Some(v.into_iter().filter(|a| !a.iter().all(|x| matches!(x, Arg::Value(f) if *f == Felt::ZERO))).collect())
        }
        "Enum" => match d.long_id.generic_args.first()? {
            GenericArg::UserType(ut) if ut.debug_name.as_deref() == Some("core::bool") => Some(vec![vec![Arg::Value(Felt::ZERO)], vec![Arg::Value(Felt::ONE)]]),
            _ => None,
        },
        "Struct" => {
            let members: Vec<&cairo_lang_sierra::ids::ConcreteTypeId> = d.long_id.generic_args.iter().filter_map(|a| if let GenericArg::Type(x) = a { Some(x) } else { None }).collect();
            if members.len() + 1 != d.long_id.generic_args.len() {
                return None;
            }
            let mut alts: Vec<Vec<Arg>> = vec![vec![]];
            for m in members {
                let mut ma = type_args(p, m, true, depth + 1)?;
                // keep the product small: at most 3 alternatives per member beyond the first member
                if alts.len() > 1 && ma.len() > 3 {
                    let n = ma.len();
                    ma = vec![ma[0].clone(), ma[n / 2].clone(), ma[n - 1].clone()];
                }
                let mut next = vec![];
                for a in &alts {
                    for b in &ma {
                        let mut c = a.clone();
                        c.extend(b.iter().cloned());
                        next.push(c);
                    }
                }
                alts = next;
                if alts.len() > 64 {
                    alts.truncate(64);
                }
            }
            Some(alts)
        }
        "Array" => {
            let e = type_args(p, inner(0)?, true, depth + 1)?;
            if e.is_empty() {
                return None;
            }
            let pick = |i: usize| e[i % e.len()].clone();
            let mk = |els: Vec<Vec<Arg>>| vec![Arg::Array(els.into_iter().flatten().collect())];
            // empty, one element, three different elements, and two longer arrays (six times the first value;
            // six values cycling through the domain) so per-iteration effects accumulate
            Some(vec![
                mk(vec![]),
                mk(vec![pick(1)]),
                mk(vec![pick(0), pick(e.len() - 1), pick(2)]),
                mk((0..6).map(|_| pick(0)).collect()),
                mk((0..6).map(pick).collect()),
            ])
        }
        _ => None,
    }
}

/// All argument vectors for a function whose user parameters are generated types (None otherwise).
pub fn input_vectors(p: &Program, f: &Function, small: bool, max_params: usize, max_vectors: usize) -> Option<Vec<Vec<Arg>>> {
    let user: Vec<&cairo_lang_sierra::ids::ConcreteTypeId> = f.signature.param_types.iter().filter(|t| !IMPLICITS.contains(&t.debug_name.as_ref().map(|s| s.as_str()).unwrap_or(""))).collect();
    if user.len() > max_params {
        return None;
    }
    // the runner supports implicits plus ONE returned value: functions with `ref` parameters (several
    // non-implicit returns) are outside what SierraCasmRunner::run_function can run
    let non_implicit_rets = f.signature.ret_types.iter().filter(|t| !IMPLICITS.contains(&t.debug_name.as_ref().map(|s| s.as_str()).unwrap_or(""))).count();
    if non_implicit_rets > 1 {
        return None;
    }
    // the runner's entry code also requires every builtin a function takes to come back among its return values
    // (a function that boxes or otherwise swallows a builtin is valid Sierra the runner cannot wrap: it asserts)
    let name_of = |t: &cairo_lang_sierra::ids::ConcreteTypeId| t.debug_name.as_ref().map(|s| s.to_string()).unwrap_or_default();
    for t in &f.signature.param_types {
        let n = name_of(t);
        if IMPLICITS.contains(&n.as_str()) && n != "BuiltinCosts" && !f.signature.ret_types.iter().any(|r| name_of(r) == n) {
            return None;
        }
    }
    let mut small = small;
    loop {
        let doms: Vec<Vec<Vec<Arg>>> = user.iter().map(|t| type_args(p, t, small, 0)).collect::<Option<_>>()?;
        let n: usize = doms.iter().map(|d| d.len()).product();
        if n <= max_vectors || small {
            let mut out: Vec<Vec<Arg>> = vec![];
            if doms.is_empty() {
                out.push(vec![]);
            } else {
                cross(&doms, |v| out.push(v.iter().flatten().cloned().collect()));
            }
            out.truncate(max_vectors);
            for v in result_directed(p, &user) {
                if !out.iter().any(|o| args_str(o) == args_str(&v)) {
                    out.push(v);
                }
            }
            return Some(out);
        }
        small = true;
    }
}

/// For two parameters of the same integer type: pairs whose quotient / remainder / sum / difference / product
/// sits on a boundary (a cross product of per-operand boundaries rarely produces one). At most 16 pairs.
fn result_directed(p: &Program, user: &[&cairo_lang_sierra::ids::ConcreteTypeId]) -> Vec<Vec<Arg>> {
    use num_bigint::BigInt;
    let [ta, tb] = user else { return vec![] };
    if ta != tb {
        return vec![];
    }
    let Some(d) = p.type_declarations.iter().find(|d| d.id == **ta) else { return vec![] };
    let (bits, signed) = match d.long_id.generic_id.0.as_str() {
        "u8" => (8u32, false),
        "u16" => (16, false),
        "u32" => (32, false),
        "u64" => (64, false),
        "u128" => (128, false),
        "i8" => (8, true),
        "i16" => (16, true),
        "i32" => (32, true),
        "i64" => (64, true),
        "i128" => (128, true),
        _ => return vec![],
    };
    let one = BigInt::from(1);
    let (min, max): (BigInt, BigInt) = if signed { (-(&one << (bits - 1)), (&one << (bits - 1)) - &one) } else { (BigInt::from(0), (&one << bits) - &one) };
    let half = &one << (bits / 2);
    let mut bs = vec![one.clone(), BigInt::from(2), BigInt::from(3), half.clone(), max.clone()];
    if signed {
        bs.extend([BigInt::from(-1), BigInt::from(-2), min.clone()]);
    }
    let mut out: Vec<(BigInt, BigInt)> = vec![];
    for b in &bs {
        for q in [one.clone(), &half - 1, &max / b] {
            for r in [BigInt::from(0), BigInt::from(b.magnitude().clone()) - 1] {
                out.push((&q * b + &r, b.clone()));
            }
        }
        out.extend([(&max - b, b.clone()), (&max - b + 1, b.clone()), (&min - b, b.clone()), (&min - b - 1, b.clone()), (b.clone(), b.clone()), (b - 1, b.clone()), (b + 1, b.clone())]);
    }
    out.retain(|(a, b)| *a >= min && *a <= max && *b >= min && *b <= max);
    out.sort();
    out.dedup();
    // spread the cap over the divisors
    let n = out.len();
    let step = n.div_ceil(16).max(1);
    out.into_iter().step_by(step).take(16).map(|(a, b)| vec![Arg::Value(Felt::from(&a)), Arg::Value(Felt::from(&b))]).collect()
}

pub fn args_str(v: &[Arg]) -> Vec<String> {
    v.iter()
        .map(|a| match a {
            Arg::Value(f) => short_felt(f),
            Arg::Array(x) => format!("[{}]", args_str(x).join(",")),
        })
        .collect()
}


pub fn value_json(v: &RunResultValue) -> Value {
    match v {
        RunResultValue::Success(f) => json!({"success": felts_str(f)}),
        RunResultValue::Panic(f) => json!({"panic": felts_str(f)}),
    }
}

fn builtin_price(name: &str) -> Option<i64> {
    Some(match name {
        "range_check" => 70,
        "pedersen" => token_gas_cost(CostTokenType::Pedersen) as i64,
        "poseidon" => token_gas_cost(CostTokenType::Poseidon) as i64,
        "bitwise" => token_gas_cost(CostTokenType::Bitwise) as i64,
        "ec_op" => token_gas_cost(CostTokenType::EcOp) as i64,
        "add_mod" => token_gas_cost(CostTokenType::AddMod) as i64,
        "mul_mod" => token_gas_cost(CostTokenType::MulMod) as i64,
        // ConstCost::cost() prices a 96-bit range check at 56 ("priced by the same table")
        "range_check96" => 56,
        "segment_arena" | "output" => 0,
        _ => return None,
    })
}

#[derive(Clone, Copy)]
pub struct Monitors {
    pub vm: bool,
    pub gas: bool,
    pub ap: bool,
}

/// Runs one (function, args, gas) and applies the enabled monitors. Returns the observable value.
#[allow(clippy::too_many_arguments)]
pub fn run_monitored(
    ctx: &mut Ctx,
    mon: Monitors,
    c: &Compiled,
    builder: Option<&RunnableBuilder>,
    f: &Function,
    args: &[Arg],
    gas: usize,
    case: &dyn Fn() -> Value,
) -> Option<RunResultValue> {
    ctx.count("evaluations", 1);
    let a = args.to_vec();
    let (out, full) = run(c, f, &a, Some(gas));
    match out {
        Outcome::InputError(e) => {
            ctx.outcome(&format!("input-error:{}", e.chars().take(30).collect::<String>()));
            None
        }
        Outcome::VmError(e) => {
            ctx.outcome("vm-error");
            if mon.vm {
                let kind: String = e.split(['\n']).next().unwrap_or("").chars().filter(|c| !c.is_ascii_digit()).take(80).collect();
                ctx.violation(format!("vm-failure:{kind}"), format!("accepted program fails in the VM: {}", e.chars().take(300).collect::<String>()), case());
            }
            None
        }
        Outcome::Value(v, gas_left) => {
            ctx.outcome(match &v {
                RunResultValue::Success(_) => "success",
                RunResultValue::Panic(_) => "panic",
            });
            let full = full.unwrap();
            if mon.gas || mon.ap {
                let Some(builder) = builder else { return Some(v) };
                let Some(raw) = run_trace(c, f, &a, Some(gas)) else {
                    ctx.count("trace_run_failed", 1);
                    return Some(v);
                };
                let casm = builder.casm_program();
                let info = &casm.debug_info.sierra_statement_info;
                let tr = &raw.relocated_trace;
                let header_end = tr.last().unwrap().pc;
                let load = header_end + 1;
                let prog_len: usize = info.last().map(|s| s.end_offset).unwrap_or(0);
                let in_prog = |pc: usize| pc >= load && pc < load + prog_len;
                if mon.gas {
                    // steps of the function = the whole trace minus the entry-code header before it and the footer
                    // after it (exactly how the runner computes n_steps); code the compiler appends after the last
                    // statement (e.g. shared circuit routines) is executed on the program's behalf and counts
                    let lead = tr.iter().position(|e| e.pc > header_end).unwrap_or(tr.len());
                    let trail = tr.iter().rev().position(|e| e.pc > header_end).unwrap_or(0);
                    let steps = (tr.len() - lead - trail) as i64;
                    ctx.count("steps_outside_statement_ranges", steps - tr.iter().filter(|e| in_prog(e.pc)).count() as i64);
                    let mut cost = 100 * steps;
                    for (b, n) in full.used_resources.basic_resources.builtin_instance_counter.iter() {
                        let nm = format!("{b:?}");
                        match builtin_price(&nm) {
                            Some(p) => cost += p * *n as i64,
                            None => ctx.note(format!("unpriced builtin {nm}")),
                        }
                    }
                    let charged: i64 = match gas_left {
                        Some(gl) => gas as i64 - gl.to_bigint().to_string().parse::<i64>().unwrap_or(i64::MAX),
                        None => c.runner.initial_required_gas(f).unwrap_or(0) as i64,
                    };
                    let slack = charged + 100 - cost;
                    if std::env::var("VERIF_DEBUG_GAS").is_ok() {
                        eprintln!("GAS {} steps {steps} cost {cost} charged {charged} slack {slack}", case());
                    }
                    ctx.min("gas_slack_min", slack);
                    ctx.count("gas_checks", 1);
                    if slack == 0 {
                        ctx.count("gas_tight_runs", 1);
                    }
                    if slack < 0 {
                        ctx.violation(
                            "gas-undercharged",
                            format!("trace cost {cost} (steps {steps}) exceeds gas charged {charged} + 100"),
                            json!({"case": case(), "steps": steps, "cost": cost, "charged": charged, "builtins": format!("{:?}", full.used_resources.basic_resources.builtin_instance_counter)}),
                        );
                    }
                    if gas_left.is_some() && steps > (gas as i64) / 100 + 1 {
                        ctx.violation("steps-exceed-gas", format!("{steps} steps with only {gas} gas"), case());
                    }
                }
                if mon.ap {
                    let md = builder.metadata();
                    let program = &c.program;
                    let mut stack: Vec<(usize, usize, usize)> = vec![];
                    for (k, e) in tr.iter().enumerate() {
                        if !in_prog(e.pc) {
                            continue;
                        }
                        ctx.count("trace_pcs_checked", 1);
                        let off = e.pc - load;
                        let si = info.partition_point(|x| x.start_offset <= off);
                        if si == 0 {
                            ctx.violation("pc-outside-statement-ranges", format!("pc offset {off} precedes every statement range"), case());
                            continue;
                        }
                        let si = si - 1;
                        if !(info[si].start_offset <= off && off < info[si].end_offset) {
                            ctx.violation("pc-outside-statement-ranges", format!("pc offset {off} is not inside the recorded range {}..{} of statement {si}", info[si].start_offset, info[si].end_offset), case());
                            continue;
                        }
                        let s = &info[si];
                        let mut o = s.start_offset;
                        let mut ii = s.instruction_idx;
                        while o < off && ii < casm.instructions.len() {
                            o += casm.instructions[ii].body.op_size();
                            ii += 1;
                        }
                        if o != off {
                            ctx.violation("pc-not-at-instruction-start", format!("pc offset {off} is not an instruction boundary of statement {si}"), case());
                            continue;
                        }
                        match &casm.instructions[ii].body {
                            InstructionBody::Call(_) => {
                                if let Some(n) = tr.get(k + 1) {
                                    if in_prog(n.pc) {
                                        stack.push((n.pc - load, n.ap, n.fp));
                                    }
                                }
                            }
                            InstructionBody::Ret(_) => {
                                if let Some(&(entry, ap0, fp0)) = stack.last() {
                                    if fp0 == e.fp {
                                        stack.pop();
                                        ctx.count("dynamic_calls_checked", 1);
                                        // (a function without code - its body is a match on an empty enum - shares its offset with the
                                        // function laid out after it and can never be the one called)
                                        if let Some(fun) = program.funcs.iter().filter(|fun| info[fun.entry_point.0].start_offset == entry).max_by_key(|fun| fun.entry_point.0) {
                                            if let Some(k) = md.ap_change_info.function_ap_change.get(&fun.id) {
                                                ctx.count("dynamic_calls_with_known_ap_change", 1);
                                                if e.ap - ap0 != *k {
                                                    ctx.violation(
                                                        "ap-change-mismatch",
                                                        format!("function {} declares ap change {k} but moved ap by {}", fname(fun), e.ap - ap0),
                                                        json!({"case": case(), "callee": fname(fun), "declared": k, "actual": e.ap - ap0}),
                                                    );
                                                }
                                            }
                                        }
                                    }
                                }
                            }
                            _ => {}
                        }
                    }
                }
            }
            Some(v)
        }
    }
}

/// Statement ranges tile the code segment (static part of C17).
pub fn check_statement_tiling(ctx: &mut Ctx, builder: &RunnableBuilder, case: &dyn Fn() -> Value) {
    let casm = builder.casm_program();
    let info = &casm.debug_info.sierra_statement_info;
    let mut pos = 0usize;
    let mut ii = 0usize;
    for (i, s) in info.iter().enumerate() {
        if s.start_offset != pos || s.end_offset < s.start_offset || s.instruction_idx != ii {
            ctx.violation("statement-ranges-do-not-tile", format!("statement {i} has range {}..{} / instruction {} but the previous one ended at {pos} / instruction {ii}", s.start_offset, s.end_offset, s.instruction_idx), case());
            return;
        }
        // advance instructions - by the number of words each one really assembles to (not by `op_size()`, the
        // toolchain's own assumption, which is what the recorded ranges are built from)
        let mut o = pos;
        while o < s.end_offset && ii < casm.instructions.len() {
            let words = casm.instructions[ii].assemble().encode().len();
            if words != casm.instructions[ii].body.op_size() {
                ctx.violation("instruction-size-assumption-wrong", format!("`{}` assembles to {words} words, the toolchain lays code out assuming {}", casm.instructions[ii], casm.instructions[ii].body.op_size()), case());
                return;
            }
            o += words;
            ii += 1;
        }
        if o != s.end_offset {
            ctx.violation("statement-range-splits-instruction", format!("statement {i} ends at {} inside an instruction", s.end_offset), case());
            return;
        }
        pos = s.end_offset;
    }
    let total: usize = casm.instructions.iter().map(|i| i.assemble().encode().len()).sum();
    if pos > total {
        ctx.violation("statement-ranges-exceed-code", format!("statement ranges end at {pos}, code has {total} words"), case());
    }
    ctx.count("programs_tiling_checked", 1);
}
