//! The shared execution space: corpus / generated Cairo snippets x configurations x boundary inputs x gas,
//! with the monitors of C02 (VM failures), C04 (gas covers cost), C17 (ap change / statement ranges) and the
//! differential oracle of C05.

use std::collections::HashMap;

use cairo_lang_casm::instructions::InstructionBody;
use cairo_lang_compiler::db::RootDatabase;
use cairo_lang_runnable_utils::builder::RunnableBuilder;
use cairo_lang_runner::{Arg, RunResultValue, token_gas_cost};
use cairo_lang_sierra::extensions::gas::CostTokenType;
use cairo_lang_sierra::program::{Function, Program};
use serde_json::{Value, json};
use starknet_types_core::felt::Felt;

use crate::core::{Ctx, Tier};
use crate::pipe::*;

pub struct Snip {
    pub name: String,
    pub code: String,
}

/// E2E-CAIRO snippets + the hand-written extra programs (loops, recursion, dicts, locals across calls).
pub fn snippets(tier: Tier) -> Vec<Snip> {
    let mut v: Vec<Snip> = e2e_cairo().into_iter().map(|(name, code)| Snip { name: format!("e2e:{name}"), code }).collect();
    for (name, code) in crate::progs::extra_programs(tier) {
        v.push(Snip { name, code });
    }
    v
}

/// One database per front-end configuration, reused across snippets (incremental path).
#[derive(Default)]
pub struct Dbs {
    map: HashMap<String, (RootDatabase, usize)>,
}
impl Dbs {
    pub fn compile(&mut self, cfg: &Cfg, code: &str) -> Result<Program, String> {
        let key = Cfg { linear: true, ..*cfg }.name();
        let fresh = match self.map.get(&key) {
            Some((_, n)) => *n > 400,
            None => true,
        };
        if fresh {
            self.map.insert(key.clone(), (new_db(cfg), 0));
        }
        let (db, n) = self.map.get_mut(&key).unwrap();
        *n += 1;
        let ci = set_src(db, "test", code);
        let (diag, has_err) = diagnostics(db, &ci);
        if has_err {
            return Err(format!("diagnostics: {}", diag.chars().take(300).collect::<String>()));
        }
        sierra(db, &ci)
    }
    /// Full diagnostics text of `code` under `cfg` (untruncated).
    pub fn full_diagnostics(&mut self, cfg: &Cfg, code: &str) -> String {
        let key = Cfg { linear: true, ..*cfg }.name();
        if !self.map.contains_key(&key) {
            self.map.insert(key.clone(), (new_db(cfg), 0));
        }
        let (db, _) = self.map.get_mut(&key).unwrap();
        let ci = set_src(db, "test", code);
        diagnostics(db, &ci).0
    }
    pub fn forget(&mut self, cfg: &Cfg) {
        self.map.remove(&Cfg { linear: true, ..*cfg }.name());
    }
}

/// All argument vectors for a function with scalar user parameters (None if it has other parameters).
pub fn input_vectors(f: &Function, small: bool, max_params: usize, max_vectors: usize) -> Option<Vec<Vec<Felt>>> {
    let params = user_params(f);
    if params.len() > max_params {
        return None;
    }
    let mut small = small;
    loop {
        let doms = param_domains(&params, small)?;
        let n: usize = doms.iter().map(|d| d.len()).product();
        if n <= max_vectors || small {
            let mut out = vec![];
            if doms.is_empty() {
                out.push(vec![]);
            } else {
                cross(&doms, |v| out.push(v.to_vec()));
            }
            out.truncate(max_vectors);
            return Some(out);
        }
        small = true;
    }
}

pub fn to_args(v: &[Felt]) -> Vec<Arg> {
    v.iter().map(|f| Arg::Value(*f)).collect()
}

pub fn value_json(v: &RunResultValue) -> Value {
    match v {
        RunResultValue::Success(f) => json!({"success": felts_str(f)}),
        RunResultValue::Panic(f) => json!({"panic": felts_str(f)}),
    }
}

fn builtin_price(name: &str) -> Option<i64> {
    Some(match name {
        "range_check" => 70,
        "pedersen" => token_gas_cost(CostTokenType::Pedersen) as i64,
        "poseidon" => token_gas_cost(CostTokenType::Poseidon) as i64,
        "bitwise" => token_gas_cost(CostTokenType::Bitwise) as i64,
        "ec_op" => token_gas_cost(CostTokenType::EcOp) as i64,
        "add_mod" => token_gas_cost(CostTokenType::AddMod) as i64,
        "mul_mod" => token_gas_cost(CostTokenType::MulMod) as i64,
        // not in the property's formula: range_check96 / segment_arena / output carry no gas price
        "range_check96" | "segment_arena" | "output" => 0,
        _ => return None,
    })
}

#[derive(Clone, Copy)]
pub struct Monitors {
    pub vm: bool,
    pub gas: bool,
    pub ap: bool,
}

/// Runs one (function, args, gas) and applies the enabled monitors. Returns the observable value.
#[allow(clippy::too_many_arguments)]
pub fn run_monitored(
    ctx: &mut Ctx,
    mon: Monitors,
    c: &Compiled,
    builder: Option<&RunnableBuilder>,
    f: &Function,
    args: &[Felt],
    gas: usize,
    case: &dyn Fn() -> Value,
) -> Option<RunResultValue> {
    ctx.count("evaluations", 1);
    let a = to_args(args);
    let (out, full) = run(c, f, &a, Some(gas));
    match out {
        Outcome::InputError(e) => {
            ctx.outcome(&format!("input-error:{}", e.chars().take(30).collect::<String>()));
            None
        }
        Outcome::VmError(e) => {
            ctx.outcome("vm-error");
            if mon.vm {
                let kind: String = e.split(['\n']).next().unwrap_or("").chars().filter(|c| !c.is_ascii_digit()).take(80).collect();
                ctx.violation(format!("vm-failure:{kind}"), format!("accepted program fails in the VM: {}", e.chars().take(300).collect::<String>()), case());
            }
            None
        }
        Outcome::Value(v, gas_left) => {
            ctx.outcome(match &v {
                RunResultValue::Success(_) => "success",
                RunResultValue::Panic(_) => "panic",
            });
            let full = full.unwrap();
            if mon.gas || mon.ap {
                let Some(builder) = builder else { return Some(v) };
                let Some(raw) = run_trace(c, f, &a, Some(gas)) else {
                    ctx.count("trace_run_failed", 1);
                    return Some(v);
                };
                let casm = builder.casm_program();
                let info = &casm.debug_info.sierra_statement_info;
                let tr = &raw.relocated_trace;
                let header_end = tr.last().unwrap().pc;
                let load = header_end + 1;
                let prog_len: usize = info.last().map(|s| s.end_offset).unwrap_or(0);
                let in_prog = |pc: usize| pc >= load && pc < load + prog_len;
                if mon.gas {
                    let steps = tr.iter().filter(|e| in_prog(e.pc)).count() as i64;
                    let mut cost = 100 * steps;
                    for (b, n) in full.used_resources.basic_resources.builtin_instance_counter.iter() {
                        let nm = format!("{b:?}");
                        match builtin_price(&nm) {
                            Some(p) => cost += p * *n as i64,
                            None => ctx.note(format!("unpriced builtin {nm}")),
                        }
                    }
                    let charged: i64 = match gas_left {
                        Some(gl) => gas as i64 - gl.to_bigint().to_string().parse::<i64>().unwrap_or(i64::MAX),
                        None => c.runner.initial_required_gas(f).unwrap_or(0) as i64,
                    };
                    let slack = charged + 100 - cost;
                    ctx.min("gas_slack_min", slack);
                    ctx.count("gas_checks", 1);
                    if slack == 0 {
                        ctx.count("gas_tight_runs", 1);
                    }
                    if slack < 0 {
                        ctx.violation(
                            "gas-undercharged",
                            format!("trace cost {cost} (steps {steps}) exceeds gas charged {charged} + 100"),
                            json!({"case": case(), "steps": steps, "cost": cost, "charged": charged, "builtins": format!("{:?}", full.used_resources.basic_resources.builtin_instance_counter)}),
                        );
                    }
                    if gas_left.is_some() && steps > (gas as i64) / 100 + 1 {
                        ctx.violation("steps-exceed-gas", format!("{steps} steps with only {gas} gas"), case());
                    }
                }
                if mon.ap {
                    let md = builder.metadata();
                    let program = &c.program;
                    let mut stack: Vec<(usize, usize, usize)> = vec![];
                    for (k, e) in tr.iter().enumerate() {
                        if !in_prog(e.pc) {
                            continue;
                        }
                        ctx.count("trace_pcs_checked", 1);
                        let off = e.pc - load;
                        let si = info.partition_point(|x| x.start_offset <= off);
                        if si == 0 {
                            ctx.violation("pc-outside-statement-ranges", format!("pc offset {off} precedes every statement range"), case());
                            continue;
                        }
                        let si = si - 1;
                        if !(info[si].start_offset <= off && off < info[si].end_offset) {
                            ctx.violation("pc-outside-statement-ranges", format!("pc offset {off} is not inside the recorded range {}..{} of statement {si}", info[si].start_offset, info[si].end_offset), case());
                            continue;
                        }
                        let s = &info[si];
                        let mut o = s.start_offset;
                        let mut ii = s.instruction_idx;
                        while o < off && ii < casm.instructions.len() {
                            o += casm.instructions[ii].body.op_size();
                            ii += 1;
                        }
                        if o != off {
                            ctx.violation("pc-not-at-instruction-start", format!("pc offset {off} is not an instruction boundary of statement {si}"), case());
                            continue;
                        }
                        match &casm.instructions[ii].body {
                            InstructionBody::Call(_) => {
                                if let Some(n) = tr.get(k + 1) {
                                    if in_prog(n.pc) {
                                        stack.push((n.pc - load, n.ap, n.fp));
                                    }
                                }
                            }
                            InstructionBody::Ret(_) => {
                                if let Some(&(entry, ap0, fp0)) = stack.last() {
                                    if fp0 == e.fp {
                                        stack.pop();
                                        ctx.count("dynamic_calls_checked", 1);
                                        if let Some(fun) = program.funcs.iter().find(|fun| info[fun.entry_point.0].start_offset == entry) {
                                            if let Some(k) = md.ap_change_info.function_ap_change.get(&fun.id) {
                                                ctx.count("dynamic_calls_with_known_ap_change", 1);
                                                if e.ap - ap0 != *k {
                                                    ctx.violation(
                                                        "ap-change-mismatch",
                                                        format!("function {} declares ap change {k} but moved ap by {}", fname(fun), e.ap - ap0),
                                                        json!({"case": case(), "callee": fname(fun), "declared": k, "actual": e.ap - ap0}),
                                                    );
                                                }
                                            }
                                        }
                                    }
                                }
                            }
                            _ => {}
                        }
                    }
                }
            }
            Some(v)
        }
    }
}

/// Statement ranges tile the code segment (static part of C17).
pub fn check_statement_tiling(ctx: &mut Ctx, builder: &RunnableBuilder, case: &dyn Fn() -> Value) {
    let casm = builder.casm_program();
    let info = &casm.debug_info.sierra_statement_info;
    let mut pos = 0usize;
    let mut ii = 0usize;
    for (i, s) in info.iter().enumerate() {
        if s.start_offset != pos || s.end_offset < s.start_offset || s.instruction_idx != ii {
            ctx.violation("statement-ranges-do-not-tile", format!("statement {i} has range {}..{} / instruction {} but the previous one ended at {pos} / instruction {ii}", s.start_offset, s.end_offset, s.instruction_idx), case());
            return;
        }
        // advance instructions
        let mut o = pos;
        while o < s.end_offset && ii < casm.instructions.len() {
            o += casm.instructions[ii].body.op_size();
            ii += 1;
        }
        if o != s.end_offset {
            ctx.violation("statement-range-splits-instruction", format!("statement {i} ends at {} inside an instruction", s.end_offset), case());
            return;
        }
        pos = s.end_offset;
    }
    let total: usize = casm.instructions.iter().map(|i| i.body.op_size()).sum();
    if pos > total {
        ctx.violation("statement-ranges-exceed-code", format!("statement ranges end at {pos}, code has {total} words"), case());
    }
    ctx.count("programs_tiling_checked", 1);
}
