//! C19 — a compiled Starknet class is consistent and reproducible from its Sierra.

use std::collections::BTreeSet;
use std::path::{Path, PathBuf};

use cairo_lang_compiler::CompilerConfig;
use cairo_lang_defs::ids::TopLevelLanguageElementId;
use cairo_lang_compiler::db::RootDatabase;
use cairo_lang_compiler::project::setup_project;
use cairo_lang_filesystem::db::init_dev_corelib;
use cairo_lang_filesystem::ids::CrateInput;
use cairo_lang_lowering::ids::ConcreteFunctionWithBodyId;
use cairo_lang_sierra::extensions::gas::CostTokenType;
use cairo_lang_sierra::program::Program;
use cairo_lang_sierra_generator::canonical_id_replacer::CanonicalReplacer;
use cairo_lang_sierra_generator::db::SierraGenGroup;
use cairo_lang_sierra_generator::replace_ids::SierraIdReplacer;
use cairo_lang_sierra_to_casm::compiler::{SierraToCasmConfig, compile};
use cairo_lang_sierra_to_casm::metadata::{MetadataComputationConfig, calc_metadata};
use cairo_lang_sierra_type_size::ProgramRegistryInfo;
use cairo_lang_starknet::compile::{compile_prepared_db, extract_semantic_entrypoints};
use cairo_lang_starknet::contract::find_contracts;
use cairo_lang_starknet::starknet_plugin_suite;
use cairo_lang_starknet_classes::NestedIntList;
use cairo_lang_starknet_classes::casm_contract_class::{CasmContractClass, ENTRY_POINT_COST};
use cairo_lang_starknet_classes::contract_class::ContractClass;
use num_bigint::BigUint;
use serde_json::{Value, json};

use crate::core::{CheckDef, Ctx, Tier, guarded, panic_sig};
use crate::pipe::CORELIB;

/// Protocol order of entry point builtins (Starknet OS), written independently of the implementation's table.
const PROTOCOL_ORDER: &[&str] = &["pedersen", "range_check", "bitwise", "ec_op", "poseidon", "segment_arena", "range_check96", "add_mod", "mul_mod"];

fn prime() -> BigUint {
    BigUint::parse_bytes(b"800000000000011000000000000000000000000000000000000000000000001", 16).unwrap()
}

fn snake(generic: &str) -> String {
    match generic {
        "RangeCheck" => "range_check".into(),
        "RangeCheck96" => "range_check96".into(),
        "EcOp" => "ec_op".into(),
        "SegmentArena" => "segment_arena".into(),
        "AddMod" => "add_mod".into(),
        "MulMod" => "mul_mod".into(),
        other => other.to_lowercase(),
    }
}

fn flatten(l: &NestedIntList, out: &mut Vec<usize>) {
    match l {
        NestedIntList::Leaf(n) => out.push(*n),
        NestedIntList::Node(v) => v.iter().for_each(|x| flatten(x, out)),
    }
}

/// Direct compilation of a Sierra program with the entry-point cost configuration of contract classes.
thread_local! {
    /// (end of code, start of every const segment) of the last `direct_bytecode` compile, computed by counting words:
    /// each const segment is one `ret` word followed by its values.
    static CONST_SEGMENTS: std::cell::RefCell<(usize, Vec<usize>)> = const { std::cell::RefCell::new((0, vec![])) };
}

fn direct_bytecode(p: &Program, entry_fn_idx: &[usize], linear: bool) -> Result<(Vec<BigUint>, BTreeSet<usize>, Vec<usize>), String> {
    let info = ProgramRegistryInfo::new(p).map_err(|e| format!("{e}"))?;
    let cfg = MetadataComputationConfig {
        function_set_costs: entry_fn_idx.iter().filter_map(|i| p.funcs.get(*i)).map(|f| (f.id.clone(), [(CostTokenType::Const, ENTRY_POINT_COST)].into_iter().collect())).collect(),
        linear_gas_solver: linear,
        linear_ap_change_solver: linear,
        skip_non_linear_solver_comparisons: false,
        compute_runtime_costs: false,
    };
    let md = calc_metadata(p, &info, cfg).map_err(|e| format!("{e}"))?;
    let c = compile(p, &info, &md, SierraToCasmConfig { gas_usage_check: true, max_bytecode_size: usize::MAX }).map_err(|e| format!("{e}"))?;
    let mut starts = BTreeSet::new();
    let mut o = 0usize;
    for i in &c.instructions {
        starts.insert(o);
        o += i.body.op_size();
    }
    let pr = prime();
    let asm = c.assemble();
    let bytecode = asm
        .bytecode
        .iter()
        .map(|b| {
            let m = b.magnitude() % &pr;
            if b.sign() == num_bigint::Sign::Minus && m != BigUint::from(0u8) { &pr - m } else { m }
        })
        .collect();
    let stmt_starts: Vec<usize> = c.debug_info.sierra_statement_info.iter().map(|s| s.start_offset).collect();
    let mut const_starts = vec![];
    let mut pos = o;
    for seg in c.consts_info.segments.values() {
        const_starts.push(pos);
        pos += 1 + seg.values.len();
    }
    CONST_SEGMENTS.with(|cs| *cs.borrow_mut() = (o, const_starts));
    Ok((bytecode, starts, stmt_starts))
}

/// All invariants on one published class. `in_memory`: the compiler's own program for that class, when known.
fn check_class(ctx: &mut Ctx, name: &str, class: &ContractClass, in_memory: Option<&Program>) {
    let case = |what: &str| json!({"contract": name, "invariant": what});
    if !ctx.sub(|| json!({"contract": name})) {
        return;
    }
    ctx.count("classes", 1);
    ctx.distinct(&(name, class.sierra_program.len()));
    let ext = match class.extract_sierra_program(false) {
        Ok(e) => e,
        Err(e) => {
            ctx.violation("extract-fails", format!("extract_sierra_program fails on a compiler-produced class: {e}"), case("extract"));
            return;
        }
    };
    let program = ext.program.clone();
    // classes that declare a Sierra version before 1.4.0 are compiled with the legacy solvers
    let v = &ext.sierra_version;
    let linear = (v.major, v.minor, v.patch) >= (1, 4, 0);
    if !linear {
        ctx.count("classes_with_legacy_solver_version", 1);
    }
    let mut results = vec![];
    for pythonic in [false, true] {
        ctx.count("evaluations", 1);
        let ext = class.extract_sierra_program(false).unwrap();
        let r = guarded(|| CasmContractClass::from_contract_class_with_debug_info(class.clone(), ext, pythonic, usize::MAX));
        match r {
            Err((loc, msg)) => {
                ctx.violation(panic_sig(&loc, &msg), format!("from_contract_class panicked: {msg}"), case("compile"));
                return;
            }
            Ok(Err(e)) => {
                ctx.count("classes_not_compilable", 1);
                ctx.note(format!("{name}: {e}").chars().take(160).collect());
                return;
            }
            Ok(Ok(x)) => results.push(x),
        }
    }
    let (casm, dbg) = &results[0];
    let (casm_py, _) = &results[1];
    if casm.bytecode != casm_py.bytecode || casm.entry_points_by_type != casm_py.entry_points_by_type || casm.hints != casm_py.hints {
        ctx.violation("pythonic-hints-change-class", "pythonic hints on/off changes bytecode, hints or entry points", case("pythonic"));
    }
    if casm.pythonic_hints.is_some() || casm_py.pythonic_hints.is_none() {
        ctx.violation("pythonic-hints-flag", "pythonic_hints presence does not follow the flag", case("pythonic"));
    }
    let all_eps: Vec<(&str, &cairo_lang_starknet_classes::casm_contract_class::CasmContractEntryPoint, usize)> = [
        ("external", &casm.entry_points_by_type.external, &class.entry_points_by_type.external),
        ("l1_handler", &casm.entry_points_by_type.l1_handler, &class.entry_points_by_type.l1_handler),
        ("constructor", &casm.entry_points_by_type.constructor, &class.entry_points_by_type.constructor),
    ]
    .into_iter()
    .flat_map(|(k, c, s)| c.iter().zip(s.iter()).map(move |(ce, se)| (k, ce, se.function_idx)))
    .collect();
    let entry_idx: Vec<usize> = all_eps.iter().map(|e| e.2).collect();
    // direct compilation of the extracted program: instruction starts
    let (direct, starts, stmt_starts) = match direct_bytecode(&program, &entry_idx, linear) {
        Ok(x) => x,
        Err(e) => {
            ctx.violation("direct-compile-fails", format!("direct compile of the extracted program fails although from_contract_class succeeded: {e}"), case("direct"));
            return;
        }
    };
    let bc: Vec<BigUint> = casm.bytecode.iter().map(|b| b.value.clone()).collect();
    if bc != direct {
        ctx.violation("bytecode-differs-from-direct-compile", "class bytecode differs from directly compiling the extracted Sierra with the same cost configuration", case("direct"));
    }
    let (code_end_words, const_starts) = CONST_SEGMENTS.with(|c| c.borrow().clone());
    if let Some(mem) = in_memory {
        ctx.count("classes_with_in_memory_program", 1);
        match direct_bytecode(mem, &entry_idx, linear) {
            Ok((d2, _, _)) => {
                if d2 != bc {
                    ctx.violation("published-class-differs-from-compiler-output", "CASM compiled from the published class differs from CASM compiled from the compiler's in-memory Sierra", case("in-memory"));
                }
            }
            Err(e) => ctx.violation("in-memory-compile-fails", format!("the compiler's own program does not compile: {e}"), case("in-memory")),
        }
        if crate::c18::strip(mem) != program {
            ctx.violation("published-sierra-differs-from-compiler-output", "extract_sierra_program(class) differs from the compiler's in-memory program", case("in-memory"));
        }
    }
    let p = prime();
    // entry points
    for (kind, ce, fidx) in &all_eps {
        let Some(f) = program.funcs.get(*fidx) else {
            ctx.violation("entry-point-function-missing", "entry point names a function index outside the program", case("entry"));
            continue;
        };
        let expect = dbg.sierra_statement_info.get(f.entry_point.0).map(|s| s.start_offset);
        if Some(ce.offset) != expect || Some(ce.offset) != stmt_starts.get(f.entry_point.0).copied() {
            ctx.violation("entry-offset-wrong", format!("{kind} entry point offset {} but its function starts at {expect:?}", ce.offset), case("entry"));
        }
        if !starts.contains(&ce.offset) {
            ctx.violation("entry-offset-not-instruction-start", format!("{kind} entry point offset {} is not the start of an instruction", ce.offset), case("entry"));
        }
        // builtins: the function's builtin parameters (everything before gas, system, calldata) in protocol order
        let names: Vec<String> = f
            .signature
            .param_types
            .iter()
            .filter_map(|t| program.type_declarations.iter().find(|d| d.id == *t).map(|d| d.long_id.generic_id.0.to_string()))
            .collect();
        let n = names.len();
        if n < 3 {
            ctx.violation("entry-signature", "entry point function has fewer than 3 parameters", case("entry"));
            continue;
        }
        let expected: Vec<String> = names[..n - 3].iter().map(|g| snake(g)).collect();
        if ce.builtins != expected {
            ctx.violation("entry-builtins-wrong", format!("{kind} entry point lists builtins {:?}, function takes {expected:?}", ce.builtins), case("entry"));
        }
        let mut it = PROTOCOL_ORDER.iter();
        if !ce.builtins.iter().all(|b| it.any(|o| o == b)) {
            ctx.violation("entry-builtins-order", format!("{kind} entry point builtins {:?} are not in protocol order", ce.builtins), case("entry"));
        }
        ctx.count("entry_points_checked", 1);
    }
    for (kind, v) in [("external", &casm.entry_points_by_type.external), ("l1_handler", &casm.entry_points_by_type.l1_handler), ("constructor", &casm.entry_points_by_type.constructor)] {
        if !v.windows(2).all(|w| w[0].selector < w[1].selector) {
            ctx.violation("entry-points-not-sorted", format!("{kind} entry points are not strictly sorted by selector"), case("entry"));
        }
    }
    if let Some((i, _)) = bc.iter().enumerate().find(|(_, w)| **w >= p) {
        ctx.violation("bytecode-word-not-canonical", format!("bytecode word {i} is >= P"), case("bytecode"));
    }
    for (off, _) in &casm.hints {
        if !starts.contains(off) {
            ctx.violation("hint-offset-not-instruction-start", format!("hint offset {off} is not the start of an instruction"), case("hints"));
            break;
        }
    }
    if !casm.hints.windows(2).all(|w| w[0].0 < w[1].0) {
        ctx.violation("hints-not-sorted", "hint offsets are not strictly increasing", case("hints"));
    }
    if let Some(l) = &casm.bytecode_segment_lengths {
        let mut flat = vec![];
        flatten(l, &mut flat);
        let total: usize = flat.iter().sum();
        if total != bc.len() {
            ctx.violation("segment-lengths-sum", format!("bytecode segment lengths sum to {total}, bytecode has {} words", bc.len()), case("segments"));
        }
        // cuts at function starts
        let fn_starts: BTreeSet<usize> = program.funcs.iter().filter_map(|f| stmt_starts.get(f.entry_point.0).copied()).collect();
        let mut pos = 0;
        for n in &flat[..flat.len().saturating_sub(1)] {
            pos += n;
            if !fn_starts.contains(&pos) && pos != *stmt_starts.last().unwrap_or(&0) && pos < direct.len() {
                // the final segment may hold the const segments after the code
                let code_end = starts.iter().next_back().copied().unwrap_or(0);
                if pos <= code_end {
                    ctx.violation("segment-cut-not-at-function-start", format!("bytecode segment boundary {pos} is not a function start"), case("segments"));
                    break;
                }
            }
        }
        // after the code: every const segment (a `ret` word followed by its values; entered by a call to that head)
        // must start a segment, and no cut may fall anywhere else
        let cuts: BTreeSet<usize> = flat[..flat.len().saturating_sub(1)].iter().scan(0usize, |acc, n| { *acc += n; Some(*acc) }).collect();
        for cs in &const_starts {
            if *cs > 0 && !cuts.contains(cs) {
                ctx.violation("const-segment-start-not-a-cut", format!("the const segment starting at word {cs} does not start a bytecode segment (cuts after the code: {:?})", cuts.iter().filter(|c| **c >= code_end_words).collect::<Vec<_>>()), case("segments"));
                break;
            }
        }
        if let Some(bad) = cuts.iter().find(|c| **c > code_end_words && !const_starts.contains(c)) {
            ctx.violation("segment-cut-inside-const-data", format!("bytecode segment boundary {bad} lies inside the const area but is not the start of a const segment {const_starts:?}"), case("segments"));
        }
        ctx.max("const_segments_max", const_starts.len() as i64);
    }
    // hashes stable under JSON round trips
    let h1 = casm.compiled_class_hash();
    let l1 = casm.legacy_compiled_class_hash();
    match serde_json::to_string(casm).map_err(|e| e.to_string()).and_then(|s| serde_json::from_str::<CasmContractClass>(&s).map_err(|e| e.to_string())) {
        Err(e) => ctx.violation("casm-json-roundtrip-fails", format!("CasmContractClass JSON round trip fails: {e}"), case("json")),
        Ok(c2) => {
            if c2 != *casm || c2.compiled_class_hash() != h1 || c2.legacy_compiled_class_hash() != l1 {
                ctx.violation("casm-json-roundtrip-differs", "CasmContractClass changes (or its hash changes) under a JSON round trip", case("json"));
            }
        }
    }
    match serde_json::to_string(class).map_err(|e| e.to_string()).and_then(|s| serde_json::from_str::<ContractClass>(&s).map_err(|e| e.to_string())) {
        Err(e) => ctx.violation("class-json-roundtrip-fails", format!("ContractClass JSON round trip fails: {e}"), case("json")),
        Ok(cl2) => {
            let ext2 = cl2.extract_sierra_program(false);
            match ext2 {
                Ok(e2) => match guarded(|| CasmContractClass::from_contract_class(cl2.clone(), e2, false, usize::MAX)) {
                    Ok(Ok(c3)) => {
                        if c3.compiled_class_hash() != h1 {
                            ctx.violation("class-json-roundtrip-changes-hash", "compiled class hash changes after a ContractClass JSON round trip", case("json"));
                        }
                    }
                    _ => ctx.violation("class-json-roundtrip-breaks-compile", "the JSON round-tripped class no longer compiles", case("json")),
                },
                Err(e) => ctx.violation("class-json-roundtrip-breaks-extract", format!("{e}"), case("json")),
            }
        }
    }
    // size limits: exact size passes, one less is a clean error
    for (limit, want_ok) in [(bc.len(), true), (bc.len().saturating_sub(1), false), (0, false)] {
        ctx.count("evaluations", 1);
        let ext = class.extract_sierra_program(false).unwrap();
        match guarded(|| CasmContractClass::from_contract_class(class.clone(), ext, false, limit)) {
            Err((loc, msg)) => ctx.violation(panic_sig(&loc, &msg), format!("from_contract_class panicked with max_bytecode_size={limit}: {msg}"), case("size-limit")),
            Ok(r) => {
                if r.is_ok() != want_ok && !bc.is_empty() {
                    ctx.violation(
                        "size-limit-not-enforced-exactly",
                        format!("bytecode has {} words; max_bytecode_size={limit} gives {}", bc.len(), if r.is_ok() { "Ok".to_string() } else { format!("Err({})", r.err().unwrap()) }),
                        case("size-limit"),
                    );
                }
            }
        }
    }
}

pub fn starknet_db() -> RootDatabase {
    let mut b = RootDatabase::builder();
    b.with_default_plugin_suite(starknet_plugin_suite());
    let mut db = b.build().expect("db");
    init_dev_corelib(&mut db, PathBuf::from(CORELIB));
    db
}

/// Compiles ALL contracts of a project directory with one `compile_prepared_db` call inside a rayon pool of
/// `threads` threads, in a fresh database. Returns "contract path => hash of the class JSON" lines in the
/// order of the returned vector (the caller pairs the i-th class with the i-th contract).
pub fn classes_by_pool(path: &Path, threads: usize) -> Result<Vec<String>, String> {
    let pool = rayon::ThreadPoolBuilder::new().num_threads(threads).build().map_err(|e| e.to_string())?;
    pool.install(|| {
        let mut db = starknet_db();
        let inputs = setup_project(&mut db, path).map_err(|e| format!("{e}"))?;
        let reporter = cairo_lang_compiler::diagnostics::DiagnosticsReporter::ignoring().with_crates(&inputs).allow_warnings();
        let ids = CrateInput::into_crate_ids(&db, inputs);
        let contracts = find_contracts(&db, &ids);
        let refs: Vec<_> = contracts.iter().collect();
        let classes = compile_prepared_db(&db, &refs, CompilerConfig { replace_ids: true, diagnostics_reporter: reporter, ..Default::default() }).map_err(|e| format!("{e}"))?;
        Ok(contracts
            .iter()
            .zip(classes)
            .map(|(c, class)| format!("{} => {:016x}", c.submodule_id.full_path(&db), crate::core::hash_of(&serde_json::to_string(&class).unwrap_or_default())))
            .collect())
    })
}

/// Compiles every contract of a project directory; returns (name, class, in-memory canonical program).
fn compile_contracts(db: &mut RootDatabase, path: &Path) -> Result<Vec<(String, ContractClass, Option<Program>)>, String> {
    let inputs = setup_project(db, path).map_err(|e| format!("{e}"))?;
    let reporter = cairo_lang_compiler::diagnostics::DiagnosticsReporter::ignoring().with_crates(&inputs).allow_warnings();
    let ids = CrateInput::into_crate_ids(db, inputs);
    let contracts = find_contracts(db, &ids);
    let refs: Vec<_> = contracts.iter().collect();
    let classes = compile_prepared_db(db, &refs, CompilerConfig { replace_ids: true, diagnostics_reporter: reporter, ..Default::default() })
        .map_err(|e| format!("{e}: {}", cairo_lang_compiler::diagnostics::get_diagnostics_as_string(db, Some(ids.clone())).chars().take(600).collect::<String>()))?;
    let mut out = vec![];
    for (c, class) in contracts.iter().zip(classes) {
        let name = c.submodule_id.full_path(db);
        let mem = extract_semantic_entrypoints(db, c).ok().and_then(|eps| {
            let fids: Vec<ConcreteFunctionWithBodyId<'_>> = eps.external.iter().chain(&eps.l1_handler).chain(&eps.constructor).map(|f| f.value).collect();
            let p = db.get_sierra_program_for_functions(fids).ok()?;
            let named = cairo_lang_sierra_generator::replace_ids::replace_sierra_ids_in_program(db, &p.program);
            Some(CanonicalReplacer::from_program(&named).apply(&named))
        });
        out.push((name, class, mem));
    }
    Ok(out)
}

/// The generated family: entry-point subsets of a 6-function menu, constructor / l1_handler on or off.
fn generated_contract(subset: u32, ctor: bool, l1: bool) -> String {
    let menu = [
        "        #[external(v0)]\n        fn e_plain(ref self: ContractState, a: felt252) -> felt252 { a + 1 }\n",
        "        #[external(v0)]\n        fn e_pedersen(ref self: ContractState, a: felt252) -> felt252 { core::pedersen::pedersen(a, 1) }\n",
        "        #[external(v0)]\n        fn e_poseidon(ref self: ContractState, a: felt252) -> felt252 { let (x, _, _) = core::poseidon::hades_permutation(a, 1, 2); x }\n",
        "        #[external(v0)]\n        fn e_bitwise(ref self: ContractState, a: u128) -> u128 { a & 0xff }\n",
        "        #[external(v0)]\n        fn e_ec(ref self: ContractState, a: felt252) -> bool { core::ec::EcPointTrait::new_from_x(a).is_some() }\n",
        "        #[external(v0)]\n        fn e_dict(ref self: ContractState, a: u8) -> u8 { let mut d: Felt252Dict<u8> = Default::default(); d.insert(1, a); d.get(1) + self.v.read() }\n",
    ];
    let mut s = String::from("#[starknet::contract]\nmod gen_contract {\n    use starknet::storage::{StoragePointerReadAccess, StoragePointerWriteAccess};\n    #[storage]\n    struct Storage { v: u8 }\n");
    if ctor {
        s.push_str("        #[constructor]\n        fn constructor(ref self: ContractState, x: u8) { self.v.write(x); }\n");
    }
    if l1 {
        s.push_str("        #[l1_handler]\n        fn handle(ref self: ContractState, from_address: felt252, x: u8) { self.v.write(x); }\n");
    }
    for (i, m) in menu.iter().enumerate() {
        if subset & (1 << i) != 0 {
            s.push_str(m);
        }
    }
    s.push_str("}\n");
    s
}

/// Compiles a generated contract source in a fresh Starknet database and runs the class oracle on every
/// contract in it; `expect` = (external, constructor, l1_handler) entry point counts.
fn check_generated(ctx: &mut Ctx, label: &str, src: &str, expect: Option<(usize, usize, usize)>) {
    let mut db = starknet_db();
    let ci = crate::pipe::set_src(&mut db, "gen", src);
    let reporter = cairo_lang_compiler::diagnostics::DiagnosticsReporter::ignoring().with_crates(std::slice::from_ref(&ci)).allow_warnings();
    let ids = CrateInput::into_crate_ids(&db, vec![ci]);
    let contracts = find_contracts(&db, &ids);
    let refs: Vec<_> = contracts.iter().collect();
    match compile_prepared_db(&db, &refs, CompilerConfig { replace_ids: true, diagnostics_reporter: reporter, ..Default::default() }) {
        Err(e) => {
            ctx.count("generated_not_compiled", 1);
            ctx.note(format!("{label}: {e}: {}", cairo_lang_compiler::diagnostics::get_diagnostics_as_string(&db, Some(ids.clone()))).chars().take(700).collect());
        }
        Ok(classes) => {
            for (c, class) in contracts.iter().zip(classes) {
                let mem = extract_semantic_entrypoints(&db, c).ok().and_then(|eps| {
                    let fids: Vec<ConcreteFunctionWithBodyId<'_>> = eps.external.iter().chain(&eps.l1_handler).chain(&eps.constructor).map(|f| f.value).collect();
                    let p = db.get_sierra_program_for_functions(fids).ok()?;
                    let named = cairo_lang_sierra_generator::replace_ids::replace_sierra_ids_in_program(&db, &p.program);
                    Some(CanonicalReplacer::from_program(&named).apply(&named))
                });
                if let Some((ne, nc, nl)) = expect {
                    if class.entry_points_by_type.external.len() != ne || class.entry_points_by_type.constructor.len() != nc || class.entry_points_by_type.l1_handler.len() != nl {
                        ctx.violation("generated-entry-point-count", "the class does not list exactly the declared entry points", json!({"contract":label,"source":src}));
                    }
                }
                // where the unpacked length stands relative to the packing width (residue 0 = last felt exactly full)
                let felts: Vec<BigUint> = class.sierra_program.iter().map(|f| f.value.clone()).collect();
                if let Some((w, n)) = felts.get(6..).and_then(crate::c14::packing_shape) {
                    ctx.outcome(&format!("unpacked-length-residue:{}/{w}", n % w));
                }
                check_class(ctx, label, &class, mem.as_ref());
            }
        }
    }
}

/// The length ladder: one external function appending k constants, so that the felt-serialized program takes
/// every length residue (the compression packs a fixed number of values per felt; the last felt is exactly
/// full for about one program in 31).
fn ladder_contract(k: usize) -> String {
    let mut s = String::from("#[starknet::contract]\nmod c {\n    #[storage]\n    struct Storage {}\n    #[external(v0)]\n    fn fill(ref self: ContractState, first: felt252) -> Array<felt252> {\n        let mut arr = array![first];\n");
    for i in 0..k {
        s.push_str(&format!("        arr.append({});\n", 1000 + i));
    }
    s.push_str("        arr\n    }\n}\n");
    s
}

/// The const-segment ladder: a boxed constant (const segment #0, through `const_as_box`) and k different circuits
/// (one const segment each, through `get_circuit_descriptor`): 0..=6 trailing const segments of varying sizes.
fn const_segments_contract(k: usize, boxed: bool) -> String {
    let circuits: [&str; 5] = [
        "circuit_inverse(circuit_add(in1, in2))",
        "circuit_inverse(circuit_add(circuit_mul(circuit_mul(circuit_add(in1, in2), in2), circuit_add(in1, in2)), in1))",
        "circuit_mul(in1, in2)",
        "circuit_add(circuit_mul(in1, in1), circuit_mul(in2, in2))",
        "circuit_mul(circuit_add(circuit_add(in1, in2), in1), circuit_inverse(in2))",
    ];
    let mut s = String::from(
        "#[starknet::contract]\nmod c {\n    use core::circuit::{AddInputResultTrait, CircuitElement, CircuitInput, CircuitInputs, CircuitModulus, EvalCircuitTrait, circuit_add, circuit_inverse, circuit_mul};\n    #[storage]\n    struct Storage {}\n",
    );
    if boxed {
        s.push_str("    #[inline(never)]\n    fn first(values: Box<[felt252; 2]>) -> felt252 { let [a, _b] = values.unbox(); a }\n    #[external(v0)]\n    fn boxed_const(self: @ContractState) -> felt252 { first(BoxTrait::new([17, 18])) }\n");
    }
    for (i, c) in circuits.iter().enumerate().take(k) {
        s.push_str(&format!(
            "    #[external(v0)]\n    fn circuit{i}(ref self: ContractState) -> felt252 {{\n        let in1 = CircuitElement::<CircuitInput<0>> {{}};\n        let in2 = CircuitElement::<CircuitInput<1>> {{}};\n        let out = {c};\n        let modulus = TryInto::<_, CircuitModulus>::try_into([{}, 0, 0, 0]).unwrap();\n        match (out,).new_inputs().next([3, 0, 0, 0]).next([6, 0, 0, 0]).done().eval(modulus) {{ Ok(_) => 1, Err(_) => 0 }}\n    }}\n",
            7 + 4 * i
        ));
    }
    s.push_str("}\n");
    s
}

/// Parameter / return shapes: each drives different (de)serialization code, builtins and gas in the wrapper.
const SHAPES: &[(&str, &str, &str)] = &[
    ("none", "", "1"),
    ("felt", "a: felt252", "a"),
    ("u8", "a: u8", "a"),
    ("u256", "a: u256", "a"),
    ("i128", "a: i128", "a"),
    ("bool", "a: bool", "a"),
    ("array", "a: Array<felt252>", "a"),
    ("span-u8", "a: Span<u8>", "a.len()"),
    ("tuple", "a: (u8, felt252, u256)", "a"),
    ("option", "a: Option<u64>", "a"),
    ("bytearray", "a: ByteArray", "a"),
    ("many", "a: felt252, b: u8, c: u16, d: u32, e: u64, f: u128, g: bool, h: felt252", "(a, b, c, d, e, f, g, h)"),
    ("address", "a: starknet::ContractAddress", "a"),
    ("nested-array", "a: Array<Array<u8>>", "a.len()"),
];
fn shape_contract(i: usize) -> String {
    let (_, params, ret) = SHAPES[i];
    let sep = if params.is_empty() { "" } else { ", " };
    format!("#[starknet::contract]\nmod c {{\n    #[storage]\n    struct Storage {{}}\n    #[external(v0)]\n    fn e(ref self: ContractState{sep}{params}) {{ let _r = {ret}; }}\n    #[external(v0)]\n    fn r(self: @ContractState{sep}{params}) -> felt252 {{ let _r = {ret}; 7 }}\n}}\n")
}

fn run(ctx: &mut Ctx) {
    let tier = ctx.tier;
    // (1) the published classes in the repository's test data
    let dir = Path::new("/repo/crates/cairo-lang-starknet/test_data");
    let mut files: Vec<PathBuf> = std::fs::read_dir(dir).map(|rd| rd.filter_map(|e| e.ok().map(|e| e.path())).collect()).unwrap_or_default();
    files.sort();
    for f in files.iter().filter(|f| f.to_string_lossy().ends_with(".contract_class.json") && !f.to_string_lossy().contains("compiled_contract_class")) {
        let name = f.file_name().unwrap().to_string_lossy().to_string();
        ctx.case(
            || json!({"space":"published-classes","file":name}),
            |ctx| {
                let Ok(text) = std::fs::read_to_string(f) else { return };
                let Ok(class) = serde_json::from_str::<ContractClass>(&text) else {
                    ctx.count("unreadable_class_files", 1);
                    return;
                };
                ctx.sample(|| json!({"file": name, "sierra_felts": class.sierra_program.len()}));
                check_class(ctx, &name, &class, None);
            },
        );
    }
    // (2) contracts compiled in-process, compared with the compiler's in-memory program
    for project in ["/repo/crates/cairo-lang-starknet/cairo_level_tests"] {
        ctx.case(
            || json!({"space":"compiled-project","project":project}),
            |ctx| {
                let mut db = starknet_db();
                match compile_contracts(&mut db, Path::new(project)) {
                    Err(e) => {
                        ctx.count("projects_not_compiled", 1);
                        ctx.note(format!("{project}: {e}").chars().take(200).collect());
                    }
                    Ok(v) => {
                        for (name, class, mem) in &v {
                            check_class(ctx, &format!("{project}::{name}"), class, mem.as_ref());
                        }
                    }
                }
            },
        );
    }
    // (3) generated family
    let subsets: Vec<u32> = match tier {
        Tier::Quick => (0..64u32).filter(|s| s.count_ones() <= 1 || *s == 63).collect(),
        Tier::Thorough => (0..64u32).collect(),
    };
    for subset in subsets {
        for (ctor, l1) in [(false, false), (true, false), (false, true), (true, true)] {
            if tier == Tier::Quick && ctor != l1 && subset != 0 {
                continue;
            }
            ctx.case(
                || json!({"space":"generated-contracts","subset":subset,"constructor":ctor,"l1_handler":l1}),
                |ctx| {
                    let src = generated_contract(subset, ctor, l1);
                    check_generated(ctx, &format!("generated:{subset}:{ctor}:{l1}"), &src, Some((subset.count_ones() as usize, ctor as usize, l1 as usize)));
                },
            );
        }
    }
    // (4) the length ladder and (5) parameter shapes
    for k in 0..tier.pick(8usize, 70) {
        ctx.case(|| json!({"space":"length-ladder","appended_constants":k}), |ctx| check_generated(ctx, &format!("ladder:{k}"), &ladder_contract(k), Some((1, 0, 0))));
    }
    for k in 0..=5usize {
        for boxed in [true, false] {
            if tier == Tier::Quick && !(boxed && (k == 0 || k == 2 || k == 3 || k == 5)) && !(k == 3 && !boxed) {
                continue;
            }
            ctx.case(
                || json!({"space":"const-segment-ladder","circuits":k,"boxed_const":boxed}),
                |ctx| check_generated(ctx, &format!("const-segments:{k}:{boxed}"), &const_segments_contract(k, boxed), Some((k + boxed as usize, 0, 0))),
            );
        }
    }
    for i in 0..SHAPES.len() {
        ctx.case(|| json!({"space":"parameter-shapes","shape":SHAPES[i].0}), |ctx| check_generated(ctx, &format!("shape:{}", SHAPES[i].0), &shape_contract(i), Some((2, 0, 0))));
        if tier == Tier::Thorough {
            // the same shapes as constructor and l1_handler parameters (their wrappers deserialize differently:
            // the handler's first parameter is the sender address)
            let (_, params, ret) = SHAPES[i];
            let sep = if params.is_empty() { "" } else { ", " };
            let src = format!("#[starknet::contract]\nmod c {{\n    #[storage]\n    struct Storage {{}}\n    #[constructor]\n    fn constructor(ref self: ContractState{sep}{params}) {{ let _r = {ret}; }}\n    #[l1_handler]\n    fn handle(ref self: ContractState, from_address: felt252{sep}{params}) {{ let _r = {ret}; }}\n    #[external(v0)]\n    fn e(ref self: ContractState{sep}{params}) -> felt252 {{ let _r = {ret}; 1 }}\n}}\n");
            ctx.case(|| json!({"space":"parameter-shapes-ctor-l1","shape":SHAPES[i].0}), |ctx| check_generated(ctx, &format!("shape-ctor-l1:{}", SHAPES[i].0), &src, Some((1, 1, 1))));
        }
    }
}

#[allow(dead_code)]
fn _v(_: Value) {}

pub static C19: CheckDef = CheckDef {
    id: "C19",
    level: "exploration",
    rule: "Enumerated: (1) every *.contract_class.json under crates/cairo-lang-starknet/test_data; (2) every contract of cairo_level_tests/ and test_data/ compiled in-process (compared with the compiler's own in-memory Sierra for that contract); (3) generated contracts: entry-point subsets of a 6-function menu using different builtins (none, pedersen, poseidon, bitwise, ec_op, dict+storage) x constructor {y,n} x l1_handler {y,n} (quick: subsets of size <=1 and the full set; thorough: all 64 x 4); (4) a length ladder: one external function appending k constants, k < 8 (thorough 70), so the felt-serialized program takes every length residue of the vector compression (observed residues mod 31 are listed in observed_outcomes); (5) 14 parameter / return shapes (none, felt, ints, u256, bool, arrays, spans, tuples, options, ByteArray, 8 parameters, addresses, nested arrays) each as a mutable and a view entry point (thorough: also as constructor and l1_handler parameters); each x {pythonic hints on/off} x max_bytecode_size {exact, exact-1, 0}. Oracle on CasmContractClass::from_contract_class(extract(class)): bytecode == direct compile of the extracted program == direct compile of the compiler's in-memory program; extracted Sierra == in-memory Sierra; every entry offset == start of the function's entry statement and an instruction start; builtins == the function's builtin parameters, in protocol order (independent table); entry points strictly sorted by selector; every word < P; hint offsets are instruction starts, increasing; segment lengths sum to the bytecode length, cut at function starts inside the code, and after the code exactly at the starts of the const segments (computed by counting words: a `ret` head plus the values of each segment) - over a ladder of contracts with 0..6 trailing const segments (a boxed constant and up to 5 different circuits); compiled class hashes and the class itself stable under JSON round trips; size limit exact passes / exact-1 is a clean error, never a panic.",
    assumptions: &["the protocol builtin order is the Starknet OS order pedersen, range_check, bitwise, ec_op, poseidon, segment_arena, range_check96, add_mod, mul_mod"],
    run,
    stack_mb: 32,
    item_timeout_s: 300,
    wall_cap_s: (55, 1500),
    shards: 0,
};
