//! C09 (d): semantic + lowering diagnostics (plugins, inline macros, defs, semantic, lowering) are total.

use serde_json::json;

use crate::core::{Ctx, Tier, panic_sig};
use crate::pipe::{Cfg, diagnostics, new_db, set_src};
use crate::text::*;

pub const SEEDS: &[(&str, &str)] = &[
    ("fn_arith", "fn f(a: u8, b: u8) -> u8 { let c = a + b; if c > 3 { c - 1 } else { c * 2 } }\n"),
    ("struct_impl", "#[derive(Copy, Drop, PartialEq, Serde)]\nstruct S { a: u8, b: felt252 }\ntrait T<X> { fn g(self: X) -> u8; }\nimpl I of T<S> { fn g(self: S) -> u8 { self.a } }\nfn f(s: S) -> u8 { s.g() }\n"),
    ("enum_match", "#[derive(Drop)]\nenum E { A: u8, B: (u8, u8), C }\nfn f(e: E) -> u8 { match e { E::A(x) => x, E::B((x, _)) => x, E::C => 0 } }\n"),
    ("array_loop", "fn f(n: u32) -> Array<u32> { let mut a = array![]; let mut i = 0; while i != n { a.append(i); i += 1; } a }\n"),
    ("generic_mod", "mod m { pub fn id<T, +Drop<T>>(x: T) -> T { x } }\nuse m::id;\nconst K: u8 = 3;\nfn f() -> u8 { id::<u8>(K) }\n"),
    ("macro_str", "fn f(x: felt252) -> ByteArray { let s = format!(\"{}-{:?}\", x, x); assert!(x != 0, \"bad {}\", x); s }\n"),
    ("closure_opt", "fn f(o: Option<u8>) -> u8 { let g = |x: u8| x + 1; match o { Some(v) => g(v), None => 0 } }\n"),
    ("dict_ref", "fn h(ref d: Felt252Dict<u8>, k: felt252) -> u8 { let v = d.get(k); d.insert(k, v + 1); v }\n"),
    ("let_else", "fn f(o: Option<u8>) -> u8 { let Some(x) = o else { return 0; }; x }\n"),
    ("for_span", "fn f(s: Span<u8>) -> u8 { let mut t = 0; for x in s { t += *x; } t }\n"),
    ("trait_ty", "trait A { type X; const C: u8; fn m() -> Self::X; }\nimpl B of A { type X = u8; const C: u8 = 2; fn m() -> u8 { Self::C } }\n"),
    ("plugins", "#[panic_with('e', bar)]\nfn foo(a: felt252, ref b: u8) -> Option<felt252> { Option::Some(a) }\n#[generate_trait(trait_attrs(doc(hidden)))]\nimpl A of B { fn m(self: @u8) -> u8 { *self } }\n#[derive(Drop, Clone, PartialEq, Serde, Default, Debug, Hash, Destruct, PanicDestruct)]\nstruct D { a: u8, b: felt252 }\n#[derive(Copy, Drop, Default)]\nenum E { #[default] X, Y: u8 }\n#[cfg(test)]\nmod t { #[test] #[should_panic(expected: ('x',))] #[available_gas(100)] fn tt() { assert(false, 'x'); } }\n#[feature(\"f\")]\n#[inline(always)]\n#[must_use]\nfn g() -> u8 { consteval_int!(1 + 2) }\n"),
    ("starknet_like", "#[derive(Drop, Serde)]\nstruct P { x: u128 }\n#[generate_trait]\nimpl PI of PT { fn dbl(self: @P) -> u128 { *self.x * 2 } }\n"),
];

pub fn run(ctx: &mut Ctx) {
    run_edition(ctx, 0);
    // thorough: the same spaces with the latest edition and the experimental features on (different prelude,
    // visibility and member-access rules, more syntax accepted by the semantic stage)
    if ctx.tier == Tier::Thorough {
        run_edition(ctx, 4);
    }
}

fn run_edition(ctx: &mut Ctx, edition: u8) {
    let tier = ctx.tier;
    let opts = crate::pipe::CrateOpts { edition, experimental: edition > 0 };
    // one database per worker, contents replaced per text (the incremental path the LS uses)
    let mut db = None;
    let mut texts_in_db = 0usize;
    let mut check = |ctx: &mut Ctx, src: &str, origin: serde_json::Value| {
        if db.is_none() || texts_in_db > 1500 {
            db = Some(new_db(&Cfg::DEFAULT));
            texts_in_db = 0;
        }
        texts_in_db += 1;
        let d = db.as_mut().unwrap();
        if !ctx.sub(|| json!({"text": src, "origin": origin.clone(), "edition": edition, "stage": "semantic+lowering diagnostics"})) {
            return;
        }
        ctx.count("evaluations", 1);
        ctx.count("semantic_texts", 1);
        ctx.distinct(&("sem", edition, src));
        let r = ctx.guarded(|| {
            let ci = crate::pipe::set_src_deps_opts(d, "t", src, &[], None, opts);
            diagnostics(d, &ci)
        });
        match r {
            Ok((_, has_err)) => ctx.outcome(if has_err { "sem:errors" } else { "sem:clean" }),
            Err((loc, msg)) => {
                // a panic leaves the salsa database in an unknown state: start a fresh one
                db = None;
                ctx.violation(panic_sig(&loc, &msg), format!("diagnostics computation panicked at {loc}: {msg}"), json!({"text": src, "origin": origin, "edition": edition, "stage": "semantic+lowering diagnostics"}));
            }
        }
    };
    // SIGMA strings of length <= 2 (quick: length 1 and pairs over SIGMA2)
    let pair_alpha: &[&str] = tier.pick(SIGMA2, SIGMA);
    for chunk in SIGMA.chunks(8) {
        ctx.case(|| json!({"space":"sem-strings1","tokens":chunk}), |ctx| {
            for t in chunk {
                check(ctx, t, json!({"tokens":[t]}));
            }
        });
    }
    for a in pair_alpha {
        ctx.case(|| json!({"space":"sem-strings2","first":a}), |ctx| {
            for b in pair_alpha {
                for sep in [" ", ""] {
                    check(ctx, &format!("{a}{sep}{b}"), json!({"tokens":[a,b],"sep":sep}));
                }
            }
        });
    }
    // the literal lattice: tricky literal lexemes in every position where a literal is evaluated
    let lits = crate::text::literal_texts();
    for (ci, chunk) in lits.chunks(60).enumerate() {
        ctx.case(|| json!({"space":"sem-literals","chunk":ci,"first":chunk[0].0}), |ctx| {
            for (name, text) in chunk {
                check(ctx, text, json!({"literal-in-context":name}));
            }
        });
    }
    // format strings: every format-string macro x placeholder shapes (positional indices at and beyond the
    // integer ranges, names, specs, unbalanced and escaped braces, non-ASCII) x argument lists
    let placeholders: &[&str] = &[
        "{}", "{0}", "{1}", "{2}", "{a}", "{b}", "{a}{}", "{}{}", "{0}{}", "{", "}", "{{", "}}", "{{}", "{}}", "{{}}", "{{0}}", "{:?}", "{0:?}", "{a:?}", "{:x}", "{:}", "{:?", "{ }", "{0 }", "{ 0}", "{-1}",
        "{+1}", "{00}", "{01}", "{4294967295}", "{4294967296}", "{18446744073709551615}", "{18446744073709551616}", "{340282366920938463463374607431768211456}", "{99999999999999999999999999999999999999999999}",
        "{3a}", "{a3}", "{_}", "{a.b}", "{a::b}", "{é}", "{\u{e9}}", "{\\n}", "{0}{1}{2}{3}", "{a}{a}", "{0:?}{0}", "{:?}{:?}", "x{}y{}z", "",
    ];
    let macro_calls: &[(&str, &str)] = &[
        ("format", "fn f(a: u8, b: felt252) -> ByteArray { format!(\"$S\"$ARGS) }"),
        ("write", "fn f(a: u8, b: felt252, ref fm: core::fmt::Formatter) -> Result<(), core::fmt::Error> { write!(fm, \"$S\"$ARGS) }"),
        ("writeln", "fn f(a: u8, b: felt252, ref fm: core::fmt::Formatter) -> Result<(), core::fmt::Error> { writeln!(fm, \"$S\"$ARGS) }"),
        ("print", "fn f(a: u8, b: felt252) { print!(\"$S\"$ARGS) }"),
        ("println", "fn f(a: u8, b: felt252) { println!(\"$S\"$ARGS); }"),
        ("panic", "fn f(a: u8, b: felt252) { panic!(\"$S\"$ARGS) }"),
        ("assert", "fn f(a: u8, b: felt252) { assert!(a == 1, \"$S\"$ARGS); }"),
        ("assert_eq", "fn f(a: u8, b: felt252) { assert_eq!(a, 1, \"$S\"$ARGS); }"),
    ];
    let arg_lists: &[&str] = &["", ", a", ", a, b", ", a, b, a", ", a = a", ", x = b, a", ","];
    for (mname, tpl) in macro_calls {
        ctx.case(|| json!({"space":"sem-format-strings","macro":mname}), |ctx| {
            for ph in placeholders {
                for args in arg_lists {
                    let text = tpl.replace("$S", ph).replace("$ARGS", args);
                    check(ctx, &text, json!({"macro": mname, "format_string": ph, "args": args}));
                }
            }
        });
    }
    // nesting
    let depths: Vec<usize> = match tier {
        Tier::Quick => vec![1, 2, 5, 20, 60],
        Tier::Thorough => (1..=40).chain([60, 80, 100, 150, 200]).collect(),
    };
    for (name, f) in nesting_families() {
        for &d in &depths {
            ctx.case(|| json!({"space":"sem-nesting","family":name,"depth":d}), |ctx| {
                check(ctx, &f(d), json!({"family":name,"depth":d}));
            });
        }
    }
    // gap fillers: text that is trivia or skipped tokens for the parser but may leak into what plugins and later
    // stages build from the nodes around it (`$x$` is the placeholder syntax of the plugin code templates)
    const FILLERS: &[&str] = &[" $x$ ", " // $x$\n", " /* c */ ", " $ ", " \u{c} ", " é ", " #[a] ", " 'q ", " @ "];
    let nseeds_f = tier.pick(SEEDS.len(), SEEDS.len());
    for (name, src) in SEEDS.iter().take(nseeds_f) {
        let pdb = crate::text::new_db();
        let (root, _) = pdb.parse_virtual_with_diagnostics(*src);
        let toks = token_ranges(&pdb, root);
        let mut gaps: Vec<usize> = toks.iter().map(|(s, _, _)| *s).collect();
        gaps.push(src.len());
        let step = tier.pick(if SEEDS.iter().position(|(n, _)| n == name).unwrap_or(0) < 2 || *name == "plugins" { 1 } else { 3 }, 1);
        let texts: Vec<(usize, &str, String)> = gaps.iter().step_by(step).flat_map(|g| FILLERS.iter().map(move |f| (*g, *f, format!("{}{}{}", &src[..*g], f, &src[*g..])))).collect();
        for (ci, chunk) in texts.chunks(60).enumerate() {
            ctx.case(|| json!({"space":"sem-gap-fillers","seed":name,"chunk":ci}), |ctx| {
                for (g, f, m) in chunk {
                    check(ctx, m, json!({"seed":name,"filler":f,"at_byte":g}));
                }
            });
        }
    }
    // the same gap fillers on a Starknet contract (component, storage nodes, events, interface, embedded impls,
    // constructor / l1_handler / external) in a database with the Starknet plugin suite, whose plugins build most
    // of their output from code templates
    {
        let src: &str = include_str!("data/starknet_seed.cairo");
        let pdb = crate::text::new_db();
        let (root, _) = pdb.parse_virtual_with_diagnostics(src);
        let toks = token_ranges(&pdb, root);
        let mut gaps: Vec<usize> = toks.iter().map(|(s, _, _)| *s).collect();
        gaps.push(src.len());
        let step = tier.pick(3, 1);
        let mut texts: Vec<(usize, &str, String)> = vec![(0, "", src.to_string())];
        texts.extend(gaps.iter().step_by(step).flat_map(|g| FILLERS.iter().map(move |f| (*g, *f, format!("{}{}{}", &src[..*g], f, &src[*g..])))));
        let mut sdb: Option<cairo_lang_compiler::db::RootDatabase> = None;
        let mut n_in_db = 0usize;
        for (ci, chunk) in texts.chunks(40).enumerate() {
            ctx.case(|| json!({"space":"sem-gap-fillers-starknet","chunk":ci}), |ctx| {
                for (g, f, m) in chunk {
                    if !ctx.sub(|| json!({"text": m, "origin": {"seed":"starknet","filler":f,"at_byte":g}, "stage": "semantic+lowering diagnostics (Starknet plugins)"})) {
                        continue;
                    }
                    if sdb.is_none() || n_in_db > 300 {
                        sdb = Some(crate::c19::starknet_db());
                        n_in_db = 0;
                    }
                    n_in_db += 1;
                    let d = sdb.as_mut().unwrap();
                    ctx.count("evaluations", 1);
                    ctx.count("semantic_texts", 1);
                    ctx.distinct(&("sem-starknet", edition, m));
                    let r = ctx.guarded(|| {
                        let ci = crate::pipe::set_src_deps_opts(d, "t", m, &[], None, opts);
                        diagnostics(d, &ci)
                    });
                    match r {
                        Ok((_, has_err)) => ctx.outcome(if has_err { "sem-starknet:errors" } else { "sem-starknet:clean" }),
                        Err((loc, msg)) => {
                            sdb = None;
                            ctx.violation(panic_sig(&loc, &msg), format!("diagnostics computation (Starknet plugins) panicked at {loc}: {msg}"), json!({"text": m, "origin": {"seed":"starknet","filler":f,"at_byte":g}}));
                        }
                    }
                }
            });
        }
    }
    // single-token mutants of seed programs
    let nseeds = tier.pick(4, SEEDS.len());
    for (name, src) in SEEDS.iter().take(nseeds) {
        let pdb = crate::text::new_db();
        let (root, _) = pdb.parse_virtual_with_diagnostics(*src);
        let toks = token_ranges(&pdb, root);
        let mut mutants: Vec<(String, String)> = vec![("none".into(), src.to_string())];
        text_mutants(src, &toks, false, |k, m| {
            if tier == Tier::Thorough || k != "trunc" {
                mutants.push((k.to_string(), m))
            }
        });
        for (ci, chunk) in mutants.chunks(40).enumerate() {
            ctx.case(|| json!({"space":"sem-seed-mutants","seed":name,"chunk":ci}), |ctx| {
                for (k, m) in chunk {
                    check(ctx, m, json!({"seed":name,"mutation":k}));
                }
            });
        }
    }
}
