//! Canonical, address-free rendering of a returned value: pointers (arrays, boxes, nullables, spans) are
//! dereferenced through the relocated memory so that results can be compared across configurations.

use cairo_lang_sierra::ids::ConcreteTypeId;
use cairo_lang_sierra::program::{GenericArg, Program};
use cairo_lang_sierra_type_size::TypeSizeMap;
use num_traits::ToPrimitive;
use starknet_types_core::felt::Felt;

use crate::pipe::short_felt;

const PLAIN: &[&str] = &[
    "felt252", "u8", "u16", "u32", "u64", "u128", "i8", "i16", "i32", "i64", "i128", "bytes31", "NonZero", "BoundedInt", "EcPoint", "ContractAddress", "ClassHash", "StorageAddress",
    "StorageBaseAddress", "IntRange", "U128MulGuarantee", "qm31",
];

fn types_of(d: &cairo_lang_sierra::program::TypeDeclaration) -> Vec<&ConcreteTypeId> {
    d.long_id.generic_args.iter().filter_map(|a| if let GenericArg::Type(t) = a { Some(t) } else { None }).collect()
}

/// Renders `cells` (the memory image of a value of type `t`) without addresses. None = not canonicalisable
/// (dicts, builtins, enums with >2 variants holding pointers, dangling pointers ...).
pub fn canon(p: &Program, sizes: &TypeSizeMap, t: &ConcreteTypeId, cells: &[Felt], mem: &[Option<Felt>], depth: usize) -> Option<String> {
    if depth > 12 {
        return None;
    }
    let d = p.type_declarations.iter().find(|d| d.id == *t)?;
    let g = d.long_id.generic_id.0.as_str();
    let size = |t: &ConcreteTypeId| -> Option<usize> { sizes.get(t).map(|s| *s as usize) };
    let load = |ptr: &Felt, n: usize| -> Option<Vec<Felt>> {
        let a = ptr.to_bigint().to_usize()?;
        (a..a + n).map(|i| mem.get(i).cloned().flatten()).collect()
    };
    if PLAIN.contains(&g) {
        return Some(cells.iter().map(short_felt).collect::<Vec<_>>().join(","));
    }
    match g {
        "Snapshot" => canon(p, sizes, types_of(d).first()?, cells, mem, depth + 1),
        "Struct" => {
            let mut out = vec![];
            let mut pos = 0;
            for m in types_of(d) {
                let n = size(m)?;
                out.push(canon(p, sizes, m, cells.get(pos..pos + n)?, mem, depth + 1)?);
                pos += n;
            }
            (pos == cells.len()).then(|| format!("({})", out.join(";")))
        }
        "Array" => {
            let e = *types_of(d).first()?;
            let n = size(e)?;
            let (s, en) = (cells.first()?.to_bigint().to_usize()?, cells.get(1)?.to_bigint().to_usize()?);
            if en < s || n == 0 && en != s {
                return None;
            }
            let mut out = vec![];
            let mut a = s;
            while n > 0 && a + n <= en {
                let el: Vec<Felt> = (a..a + n).map(|i| mem.get(i).cloned().flatten()).collect::<Option<_>>()?;
                out.push(canon(p, sizes, e, &el, mem, depth + 1)?);
                a += n;
            }
            Some(format!("[{}]", out.join(";")))
        }
        "Box" => {
            let e = *types_of(d).first()?;
            let el = load(cells.first()?, size(e)?)?;
            Some(format!("box({})", canon(p, sizes, e, &el, mem, depth + 1)?))
        }
        "Nullable" => {
            if *cells.first()? == Felt::ZERO {
                return Some("null".into());
            }
            let e = *types_of(d).first()?;
            let el = load(cells.first()?, size(e)?)?;
            Some(format!("nullable({})", canon(p, sizes, e, &el, mem, depth + 1)?))
        }
        "Enum" => {
            let vs = types_of(d);
            if vs.len() <= 2 {
                let idx = cells.first()?.to_bigint().to_usize()?;
                let v = *vs.get(idx)?;
                let n = size(v)?;
                let payload = cells.get(cells.len().checked_sub(n)?..)?;
                Some(format!("v{idx}({})", canon(p, sizes, v, payload, mem, depth + 1)?))
            } else if vs.iter().all(|v| crate::cexec::pointer_free(p, v, 1)) {
                // selector encoding of larger enums is an implementation detail, but it is the same function of
                // the variant in every configuration; without pointers the raw cells are comparable
                Some(cells.iter().map(short_felt).collect::<Vec<_>>().join(","))
            } else {
                None
            }
        }
        "Uninitialized" => Some("uninit".into()),
        _ => None,
    }
}
