mod c09sem;
mod c01;
mod c01probes;
mod c02mut;
mod c03;
mod divrem;
mod bounded;
mod mini;
mod c05corelib;
mod c06;
mod c07;
mod c08;
mod c10;
mod c11;
mod c12;
mod c13;
mod hist;
mod cexec;
mod exec;
mod progs;
mod c14;
mod c14inst;
mod c15;
mod c16;
mod c18;
mod c19;
mod c20;
mod cairo_corpus;
mod canon;
mod sierra;
mod core;
mod pipe;
mod text;
mod wrap;

use crate::core::{CheckDef, Tier};

fn defs() -> Vec<&'static CheckDef> {
    vec![&c01::C01, &cexec::C02, &c03::C03, &cexec::C04, &cexec::C05, &c06::C06, &c07::C07, &c08::C08, &c10::C09, &c10::C10, &c11::C11, &c12::C12, &c13::C13, &c14::C14, &c15::C15, &c16::C16, &cexec::C17, &c18::C18, &c19::C19, &c20::C20]
}

fn main() {
    let args: Vec<String> = std::env::args().skip(1).collect();
    let defs = defs();
    let find = |id: &str| -> &'static CheckDef {
        defs.iter().copied().find(|d| d.id == id).unwrap_or_else(|| {
            eprintln!("unknown property {id}");
            std::process::exit(2)
        })
    };
    let tier_of = |s: Option<&String>| match s.map(|s| s.as_str()) {
        Some("thorough") => Tier::Thorough,
        Some("quick") | None => Tier::Quick,
        Some(o) => {
            eprintln!("unknown tier {o}");
            std::process::exit(2)
        }
    };
    match args.first().map(|s| s.as_str()) {
        Some("worker") => {
            let def = find(&args[1]);
            let tier = tier_of(args.get(2));
            core::worker_main(def, tier, args[3].parse().unwrap(), args[4].parse().unwrap());
        }
        Some("--replay") | Some("replay") => {
            let path = args.get(1).expect("replay file");
            let v: serde_json::Value = serde_json::from_str(&std::fs::read_to_string(path).expect("replay file")).expect("json");
            let def = find(v["property"].as_str().unwrap());
            let tier = if v["tier"] == "thorough" { Tier::Thorough } else { Tier::Quick };
            let idx = v["idx"].as_u64().unwrap();
            match core::replay_idx(def, tier, idx) {
                None => {
                    eprintln!("machinery: replay worker failed");
                    std::process::exit(2)
                }
                Some(vs) if vs.is_empty() => {
                    println!("replay of {} item {idx}: no violation", def.id);
                }
                Some(vs) => {
                    for x in &vs {
                        println!("VIOLATION property={} replay={path}\n  signature: {}\n  what: {}", def.id, x.sig, x.what);
                    }
                    std::process::exit(1)
                }
            }
        }
        Some("dump-tree") => {
            let src = args[1].clone();
            let db = text::new_db();
            let (root, diags) = db.parse_virtual_with_diagnostics(&src);
            fn walk<'a>(db: &'a dyn salsa::Database, n: cairo_lang_syntax::node::SyntaxNode<'a>, depth: usize) {
                let sp = n.span(db);
                println!("{}{:?} {}..{} {:?}", "  ".repeat(depth), n.kind(db), sp.start.as_u32(), sp.end.as_u32(), n.text(db).map(|t| t.long(db).to_string()));
                for c in n.get_children(db) {
                    walk(db, *c, depth + 1);
                }
            }
            walk(&db, root, 0);
            for d in diags.get_all() {
                println!("diag {:?} {}..{}", d.kind, d.span.start.as_u32(), d.span.end.as_u32());
            }
            println!("lossless: {:?}", c10::lossless_violation(&db, root, &src));
        }
        Some("dump-examples-sierra") => {
            for (_, p) in cairo_corpus::compiled_examples() {
                println!("{p}");
            }
        }
        Some("debug-c03") => {
            c03::debug_time(&args[1], args[2].parse().unwrap());
        }
        Some("debug-two-crates") => {
            let mut db = pipe::new_db(&pipe::Cfg::DEFAULT);
            let _l = pipe::set_src(&mut db, "mylib", "pub fn twice<T, +Add<T>, +Copy<T>, +Drop<T>>(x: T) -> T { x + x }\npub const K: u8 = 7;\n#[derive(Copy, Drop, PartialEq)]\npub struct Pt { pub x: u8, pub y: u8 }\n");
            let t = pipe::set_src_deps(&mut db, "test", "use mylib::{twice, K, Pt};\nfn f(a: u8) -> u8 { let p = Pt { x: a, y: K }; twice(p.x) + p.y }\n", &["mylib"], None);
            println!("{:?}", pipe::diagnostics(&db, &t));
            println!("{}", pipe::sierra(&db, &t).map(|p| p.to_string().len().to_string()).unwrap_or_else(|e| e));
        }
        Some("debug-inst") => c14inst::debug(&args[1], args.get(2).map(|s| s.as_str()).unwrap_or("")),
        Some("debug-inst-count") => { for a in [true,false] { let v = exec::inst_snippets(Tier::Quick, a); println!("audited={a}: {}", v.len()); } }
        Some("debug-inst-skipped") => {
            for sn in exec::inst_snippets(Tier::Quick, false) {
                let p = sn.sierra.as_ref().unwrap();
                let f = &p.funcs[0];
                if exec::input_vectors(p, f, true, 3, 64).is_none() {
                    println!("{} :: {}", sn.name, f.signature.param_types.iter().map(|t| t.to_string()).collect::<Vec<_>>().join(" | "));
                }
            }
        }
        Some("c12-fresh") => c12::fresh_main(args[1].parse().unwrap()),
        Some("debug-sierra") => {
            let text = std::fs::read_to_string(&args[1]).unwrap();
            let p = cairo_lang_sierra::ProgramParser::new().parse(&text).expect("parse");
            for linear in [true, false] {
                match crate::core::guarded(|| c14::pipeline(&p, linear)) {
                    Ok(st) => println!("linear={linear}: {:?}", st),
                    Err((loc, msg)) => println!("linear={linear}: PANIC at {loc}: {}", msg.chars().take(300).collect::<String>()),
                }
            }
        }
        Some("debug-c12-diff") => c12::debug_diff(),
        Some("debug-c13-seeds") => c13::debug_seeds(),
        Some("debug-c20") => c20::debug_dependents(),
        Some("dump-mini") => { for c in c01::all_cases(Tier::Thorough) { if c.name == args[1] { println!("{}", c.source()); } } }
        Some("count-mini") => {
            for tier in [Tier::Quick, Tier::Thorough] {
                let mut m: std::collections::BTreeMap<String, usize> = Default::default();
                for c in c01::all_cases(tier) { *m.entry(c.name.split([':', '#']).next().unwrap().to_string()).or_default() += 1; }
                println!("{tier:?}: {m:?}");
            }
        }
        Some("debug-corelib") => c05corelib::debug(&args[1]),
        Some("dump-snip") => {
            for s in exec::snippets(Tier::Thorough) {
                if s.name == args[1] {
                    println!("{}", s.code);
                }
            }
        }
        Some("debug-casm") => {
            let code = std::fs::read_to_string(&args[1]).unwrap();
            let mut dbs = exec::Dbs::default();
            let cfg = if std::env::var("VERIF_CFG").as_deref() == Ok("disabled") { pipe::Cfg::BASELINE } else { pipe::Cfg::DEFAULT };
            let prog = dbs.compile(&cfg, &code).unwrap();
            if args.len() > 2 { println!("{prog}"); }
            match pipe::make_runner(prog.clone(), &cfg) { Ok(_) => println!("casm ok"), Err(e) => println!("casm err {e}") }
        }
        Some("debug-compile") => {
            let code = std::fs::read_to_string(&args[1]).unwrap();
            let mut db = pipe::new_db(&pipe::Cfg::DEFAULT);
            let ed: u8 = std::env::var("VERIF_EDITION").ok().and_then(|s| s.parse().ok()).unwrap_or(0);
            let ci = pipe::set_src_deps_opts(&mut db, "test", &code, &[], None, pipe::CrateOpts { edition: ed, experimental: ed > 0 });
            println!("{}", pipe::diagnostics(&db, &ci).0);
            match pipe::sierra(&db, &ci) { Ok(p) => println!("sierra ok: {} funcs", p.funcs.len()), Err(e) => println!("{e}") }
        }
        Some("debug-gas") => {
            let code = std::fs::read_to_string(&args[1]).unwrap();
            let mut dbs = exec::Dbs::default();
            let cfg = match std::env::var("VERIF_CFG").as_deref() {
                Ok("disabled") => pipe::Cfg::BASELINE,
                Ok(name) => pipe::Cfg::full().into_iter().find(|c| c.name() == name).expect("config name"),
                _ => pipe::Cfg::DEFAULT,
            };
            let prog = dbs.compile(&cfg, &code).unwrap();
            let c = pipe::make_runner(prog.clone(), &cfg).unwrap();
            for f in &prog.funcs {
                let Some(inputs) = exec::input_vectors(&prog, f, true, 3, 64) else { println!("{}: no inputs", pipe::fname(f)); continue };
                for a in &inputs {
                    let (o, full) = pipe::run(&c, f, a, Some(5_000_000));
                    if let (pipe::Outcome::Value(v, g), Some(full)) = (o, full) {
                        println!("{} {:?} -> {:?} gas_left {:?} steps {} builtins {:?}", pipe::fname(f), exec::args_str(a), v, g.map(|g| pipe::short_felt(&g)), full.used_resources.basic_resources.n_steps, full.used_resources.basic_resources.builtin_instance_counter);
                    }
                }
            }
        }
        Some("list") => {
            for d in defs {
                println!("{}", d.id);
            }
        }
        Some(id) => {
            let def = find(id);
            let tier = match std::env::var("VERIF_TIER").ok().as_deref() {
                Some("thorough") if args.get(1).is_none() => Tier::Thorough,
                _ => tier_of(args.get(1)),
            };
            std::process::exit(core::run_check(def, tier));
        }
        None => {
            eprintln!("usage: verif <ID> [quick|thorough] | --replay <file> | list");
            std::process::exit(2)
        }
    }
}
