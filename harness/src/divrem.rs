//! The `bounded_int_div_rem` lattice: dividend ranges x divisor ranges around the thresholds of the three
//! verification schemes (known-small divisor, known-small quotient, known-small dividend), with the
//! operand pairs at which the *relation* between quotient, divisor and the scheme's constants changes.
//!
//! The generated code of the known-small-dividend scheme proves `min(q, b) < root` for a constant
//! `root = ceil(sqrt(lhs_upper))`; the known-small-quotient one range-checks `q` against its type bound. The
//! boundary of such a relation is not a boundary of either operand type, so the per-type boundary domains
//! of the execution space never hit it: the pairs are derived here from the parameters of the instantiation.

use cairo_lang_runner::{Arg, RunResultValue};
use num_bigint::BigUint;
use num_traits::{One, Zero};
use serde_json::json;
use starknet_types_core::felt::Felt;

use crate::core::{Ctx, Tier, guarded};
use crate::exec::Dbs;
use crate::pipe::*;

pub struct Case {
    pub name: String,
    pub lmax: BigUint,
    pub dmin: BigUint,
    pub dmax: BigUint,
    pub code: String,
}

fn two(k: u32) -> BigUint {
    BigUint::one() << k
}

/// T = (P - 1) / 2^128 = 2^123 + 17 * 2^64: the largest x with x * 2^128 < P
fn t_limit() -> BigUint {
    two(123) + BigUint::from(17u8) * two(64)
}

/// `extended`: also dividend maxima that are perfect squares, one less and one more than a perfect square
/// (of a root that is not a power of two) and a decimal maximum.
pub fn cases(extended: bool) -> Vec<Case> {
    let t = t_limit();
    let one = BigUint::one();
    let mut lmaxs: Vec<(String, BigUint)> = vec![
        ("u8".into(), two(8) - &one),
        ("u128".into(), two(128) - &one),
        ("2^200".into(), two(200)),
        ("T*2^64".into(), &t * two(64)),
        ("2^246".into(), two(246)),
        ("2^250".into(), two(250)),
    ];
    if extended {
        let k = two(100) + BigUint::from(7u8);
        let k2 = two(122) + BigUint::from(12345u32);
        lmaxs.extend([
            ("10^38".into(), BigUint::from(10u8).pow(38)),
            ("10^38-1".into(), BigUint::from(10u8).pow(38) - &one),
            ("k^2".into(), &k * &k),
            ("k^2-1".into(), &k * &k - &one),
            ("k^2+1".into(), &k * &k + &one),
            ("m^2".into(), &k2 * &k2),
            ("m^2-1".into(), &k2 * &k2 - &one),
            ("2^246-1".into(), two(246) - &one),
            ("2^124".into(), two(124)),
            ("2^250-1".into(), two(250) - &one),
        ]);
    }
    let dranges: Vec<(String, BigUint, BigUint)> = vec![
        ("1..255".into(), one.clone(), BigUint::from(255u8)),
        ("1..T-2".into(), one.clone(), &t - 2u8),
        ("1..T-1".into(), one.clone(), &t - 1u8),
        ("1..T".into(), one.clone(), t.clone()),
        ("1..T+1".into(), one.clone(), &t + 1u8),
        ("1..2^124-1".into(), one.clone(), two(124) - &one),
        ("1..2^128-1".into(), one.clone(), two(128) - &one),
        ("1..2^128".into(), one.clone(), two(128)),
        ("2^64..2^128-1".into(), two(64), two(128) - &one),
        ("T..T".into(), t.clone(), t.clone()),
        ("2^123..2^124".into(), two(123), two(124)),
        ("2^127..2^128".into(), two(127), two(128)),
    ];
    let mut out = vec![];
    for (ln, lmax) in &lmaxs {
        let mut ranges = dranges.clone();
        if extended {
            // divisor ranges derived from the dividend range: the minimal divisor that puts the maximal
            // quotient at 2^128 - 1 (largest accepted), and at T + 1, T, T - 1 (the known-small-quotient
            // threshold), each with a maximal divisor below / at / above the known-small-divisor threshold
            for (qn, q) in [("2^128-1", two(128) - &one), ("T+1", &t + &one), ("T", t.clone()), ("T-1", &t - &one)] {
                for (k, dmin) in [lmax / &q, lmax / &q + &one].into_iter().enumerate() {
                    let dmin = dmin.max(one.clone());
                    for (xn, dmax) in [("T-1", &t - &one), ("T", t.clone()), ("2^128", two(128))] {
                        if dmax >= dmin && !ranges.iter().any(|(_, a, b)| *a == dmin && *b == dmax) {
                            ranges.push((format!("max/{qn}+{k}..{xn}"), dmin.clone(), dmax));
                        }
                    }
                }
            }
        }
        for (dn, dmin, dmax) in &ranges {
            let qmax = lmax / dmin;
            let lhs_ty = if ln == "u8" || ln == "u128" { ln.clone() } else { format!("BoundedInt<0, {lmax}>") };
            let code = format!(
                "#[feature(\"bounded-int-utils\")]\nuse core::internal::bounded_int::{{self, BoundedInt, DivRemHelper, upcast}};\ntype Divisor = BoundedInt<{dmin}, {dmax}>;\nimpl H of DivRemHelper<{lhs_ty}, Divisor> {{\n    type DivT = BoundedInt<0, {qmax}>;\n    type RemT = BoundedInt<0, {}>;\n}}\nfn f(a: {lhs_ty}, b: NonZero<Divisor>) -> (felt252, felt252) {{\n    let (q, r) = bounded_int::div_rem(a, b);\n    (upcast(q), upcast(r))\n}}\n",
                dmax - &one
            );
            out.push(Case { name: format!("hintx:divrem:{ln}/{dn}"), lmax: lmax.clone(), dmin: dmin.clone(), dmax: dmax.clone(), code });
        }
    }
    out
}

/// The verification scheme the compiler is expected to select (re-derived from the documented conditions;
/// used only to report how many instantiations of each scheme were executed).
fn scheme(c: &Case) -> &'static str {
    let p: BigUint = (BigUint::one() << 251) + BigUint::from(17u8) * (BigUint::one() << 192) + BigUint::one();
    let lim = two(128);
    let qmax = &c.lmax / &c.dmin;
    if qmax >= lim || c.dmax > lim {
        return "refused";
    }
    if (&c.dmax + BigUint::one()) * &lim < p {
        return "small-divisor";
    }
    if (&qmax + BigUint::one()) * &lim < p {
        return "small-quotient";
    }
    let up = &c.lmax + BigUint::one();
    let mut root = up.sqrt();
    if &root * &root != up {
        root += BigUint::one();
    }
    if &root * &lim < p && root < lim { "small-dividend" } else { "refused" }
}

/// Operand pairs (a, b) around every constant the verification schemes compare against.
pub fn relation_inputs(c: &Case) -> Vec<(BigUint, BigUint)> {
    let one = BigUint::one();
    let t = t_limit();
    let s = c.lmax.sqrt();
    let s1 = (&c.lmax + &one).sqrt();
    let mut bs: Vec<BigUint> = vec![c.dmin.clone(), &c.dmin + &one, c.dmax.clone(), (&c.dmin + &c.dmax) / 2u8, two(64), two(127), two(128), t.clone()];
    for x in [&s, &s1, &t, &two(64), &two(128), &c.dmax] {
        bs.push(x + &one);
        bs.push(x.clone());
        if !x.is_zero() {
            bs.push(x - &one);
        }
    }
    bs.retain(|b| *b >= c.dmin && *b <= c.dmax && !b.is_zero());
    bs.sort();
    bs.dedup();
    let mut out: Vec<(BigUint, BigUint)> = vec![];
    for b in &bs {
        let qmax = &c.lmax / b;
        let mut qs: Vec<BigUint> = vec![BigUint::zero(), one.clone(), qmax.clone(), two(64), two(128) - &one];
        for x in [&s, &s1, b, &qmax, &t] {
            qs.push(x + &one);
            qs.push(x.clone());
            if !x.is_zero() {
                qs.push(x - &one);
            }
        }
        qs.sort();
        qs.dedup();
        for q in &qs {
            for r in [BigUint::zero(), one.clone(), b - &one] {
                if r >= *b {
                    continue;
                }
                let a = q * b + &r;
                if a <= c.lmax {
                    out.push((a, b.clone()));
                }
            }
        }
        for a in [BigUint::zero(), one.clone(), &c.lmax - &one, c.lmax.clone()] {
            out.push((a, b.clone()));
        }
    }
    out.sort();
    out.dedup();
    out
}

/// The first `n` pairs of a priority order that starts at the square-root relation (for the hint-deviation
/// check, where every pair costs a full menu of deviated runs).
pub fn relation_inputs_small(c: &Case, n: usize) -> Vec<(BigUint, BigUint)> {
    let one = BigUint::one();
    let s = c.lmax.sqrt();
    let t = t_limit();
    let mut bs: Vec<BigUint> = vec![s.clone(), &s + &one, c.dmin.clone(), c.dmax.clone(), t.clone(), &t + &one, two(64)];
    if !s.is_zero() {
        bs.insert(2, &s - &one);
    }
    bs.retain(|b| *b >= c.dmin && *b <= c.dmax && !b.is_zero());
    let mut out: Vec<(BigUint, BigUint)> = vec![];
    for b in &bs {
        let qmax = &c.lmax / b;
        for q in [s.clone(), &s + &one, b.clone(), qmax.clone(), BigUint::zero(), t.clone()] {
            for r in [BigUint::zero(), b - &one] {
                let a = &q * b + &r;
                if a <= c.lmax && !out.contains(&(a.clone(), b.clone())) {
                    out.push((a, b.clone()));
                }
            }
        }
    }
    // interleave divisors so that a short prefix still visits each of them
    let mut by_b: Vec<Vec<(BigUint, BigUint)>> = bs.iter().map(|b| out.iter().filter(|(_, x)| x == b).cloned().collect()).collect();
    let mut res = vec![];
    while res.len() < n && by_b.iter().any(|v| !v.is_empty()) {
        for v in by_b.iter_mut() {
            if !v.is_empty() && res.len() < n {
                let x = v.remove(0);
                if !res.contains(&x) {
                    res.push(x);
                }
            }
        }
    }
    res
}

/// Runs every case on its relation inputs. `exact`: also compare quotient and remainder with a / b, a % b.
pub fn run_relation(ctx: &mut Ctx, exact: bool) {
    let tier = ctx.tier;
    let mut dbs = Dbs::default();
    let cfg = Cfg::DEFAULT;
    for c in cases(true) {
        // quick: every dividend range, the divisor ranges that select each scheme
        if tier == Tier::Quick && !["1..255", "1..T", "1..2^128-1", "2^123..2^124", "max/2^128-1+1..T", "max/2^128-1+1..2^128", "max/T+0..T", "max/T+0..2^128", "max/T+1+0..2^128"].iter().any(|d| c.name.ends_with(&format!("/{d}"))) {
            continue;
        }
        ctx.case(
            || json!({"space":"divrem-relation","program":c.name}),
            |ctx| {
                let prog = match guarded(|| dbs.compile(&cfg, &c.code)) {
                    Ok(Ok(p)) => p,
                    _ => {
                        // ranges for which no verification scheme exists are refused by the compiler
                        dbs.forget(&cfg);
                        ctx.count("divrem_instantiations_refused", 1);
                        return;
                    }
                };
                let Ok(Ok(comp)) = guarded(|| make_runner(prog.clone(), &cfg)) else {
                    ctx.count("runner_build_failed_or_panicked", 1);
                    return;
                };
                let Some(f) = prog.funcs.iter().find(|f| fname(f) == "test::f") else { return };
                ctx.count("divrem_instantiations_run", 1);
                ctx.count(&format!("divrem_scheme:{}", scheme(&c)), 1);
                for (a, b) in relation_inputs(&c) {
                    let case = || json!({"program": c.name, "a": a.to_string(), "b": b.to_string(), "source": c.code});
                    if !ctx.sub(case) {
                        continue;
                    }
                    ctx.count("evaluations", 1);
                    ctx.distinct(&(c.name.as_str(), a.to_string(), b.to_string()));
                    let args = [Arg::Value(Felt::from(&a)), Arg::Value(Felt::from(&b))];
                    match guarded(|| run(&comp, f, &args, Some(10_000_000)).0) {
                        Err((loc, msg)) => ctx.violation(format!("runner-panic:divrem:{loc}"), format!("runner panicked: {msg}"), case()),
                        Ok(Outcome::VmError(e)) => ctx.violation(
                            format!("vm-failure:divrem:{}", e.split(|ch: char| ch.is_ascii_digit()).next().unwrap_or("").trim().chars().take(60).collect::<String>()),
                            format!("bounded_int_div_rem({a}, {b}) ends in a VM failure: {}", e.chars().take(300).collect::<String>()),
                            case(),
                        ),
                        Ok(Outcome::InputError(_)) => ctx.count("input_errors", 1),
                        Ok(Outcome::Value(v, _)) => {
                            ctx.outcome("returns");
                            if exact {
                                let want = vec![Felt::from(&a / &b), Felt::from(&a % &b)];
                                match v {
                                    RunResultValue::Success(got) if got == want => {}
                                    other => ctx.violation("wrong-value:divrem", format!("bounded_int_div_rem({a}, {b}) = {:?}, expected ({}, {})", other, &a / &b, &a % &b), case()),
                                }
                            }
                        }
                    }
                }
            },
        );
    }
}
