//! C06 — primitive integer and felt252 operations are exact on every operand (exhaustive for 8-bit types).

use cairo_lang_runner::RunResultValue;
use num_bigint::BigInt;
use num_integer::Integer;
use num_traits::{One, Signed, Zero};
use serde_json::json;
use starknet_types_core::felt::Felt;

use crate::core::{CheckDef, Ctx, Tier, guarded};
use crate::exec::Dbs;
use crate::pipe::*;

#[derive(Clone, Copy, PartialEq, Debug)]
pub struct Ty {
    pub name: &'static str,
    pub bits: u32,
    pub signed: bool,
}
pub const TYPES: &[Ty] = &[
    Ty { name: "u8", bits: 8, signed: false },
    Ty { name: "u16", bits: 16, signed: false },
    Ty { name: "u32", bits: 32, signed: false },
    Ty { name: "u64", bits: 64, signed: false },
    Ty { name: "u128", bits: 128, signed: false },
    Ty { name: "i8", bits: 8, signed: true },
    Ty { name: "i16", bits: 16, signed: true },
    Ty { name: "i32", bits: 32, signed: true },
    Ty { name: "i64", bits: 64, signed: true },
    Ty { name: "i128", bits: 128, signed: true },
];
impl Ty {
    pub fn min(&self) -> BigInt {
        if self.signed { -(BigInt::one() << (self.bits - 1)) } else { BigInt::zero() }
    }
    pub fn max(&self) -> BigInt {
        if self.signed { (BigInt::one() << (self.bits - 1)) - 1 } else { (BigInt::one() << self.bits) - 1 }
    }
    pub fn fits(&self, v: &BigInt) -> bool {
        *v >= self.min() && *v <= self.max()
    }
    pub fn wrap(&self, v: &BigInt) -> BigInt {
        let m = BigInt::one() << self.bits;
        let r = v.mod_floor(&m);
        if self.signed && r > self.max() { r - m } else { r }
    }
    pub fn boundary(&self) -> Vec<BigInt> {
        let mut v = vec![self.min(), self.min() + 1, BigInt::from(-1), BigInt::zero(), BigInt::one(), BigInt::from(2), self.max() - 1, self.max()];
        for k in [7u32, 8, 15, 16, 31, 32, 63, 64, 127] {
            if k < self.bits {
                for d in [-1i32, 0, 1] {
                    v.push((BigInt::one() << k) + d);
                    v.push(-(BigInt::one() << k) + d);
                }
            }
        }
        v.retain(|x| self.fits(x));
        v.sort();
        v.dedup();
        v
    }
    pub fn all(&self) -> Vec<BigInt> {
        assert!(self.bits <= 16);
        let mut v = vec![];
        let mut x = self.min();
        while x <= self.max() {
            v.push(x.clone());
            x += 1;
        }
        v
    }
    pub fn wider(&self) -> Option<Ty> {
        TYPES.iter().copied().find(|t| t.signed == self.signed && t.bits == self.bits * 2)
    }
}

pub fn prime() -> BigInt {
    Felt::prime().to_string().parse().unwrap()
}
pub fn to_felt(v: &BigInt) -> Felt {
    Felt::from(v)
}
fn modp(v: &BigInt) -> BigInt {
    v.mod_floor(&prime())
}

/// Expected outcome: the flattened felts of the function's return value, or a panic.
#[derive(Debug, PartialEq)]
pub enum Expect {
    Value(Vec<BigInt>),
    Panic,
    /// operation not defined on these operands in the model (skipped)
    Skip,
}

pub struct Op {
    pub name: &'static str,
    pub arity: usize,
    /// Cairo body given type name; params are `a` and `b`; must evaluate to a felt252 tuple / felt252
    pub body: fn(&Ty) -> Option<String>,
    pub ret: &'static str,
    pub model: fn(&Ty, &BigInt, &BigInt) -> Expect,
    pub exhaustive8: bool,
}

fn val(t: &Ty, v: BigInt) -> Expect {
    if t.fits(&v) { Expect::Value(vec![v]) } else { Expect::Panic }
}
fn b(x: bool) -> BigInt {
    BigInt::from(x as u8)
}
/// Cairo's integer division truncates toward zero for signed types.
fn tdiv(a: &BigInt, d: &BigInt) -> (BigInt, BigInt) {
    let q = a.abs() / d.abs();
    let q = if (a.is_negative()) != (d.is_negative()) { -q } else { q };
    let r = a - &q * d;
    (q, r)
}
fn isqrt(a: &BigInt) -> BigInt {
    a.sqrt()
}

pub fn ops() -> Vec<Op> {
    let opt2 = "match r { Some(v) => (1, v.into()), None => (0, 0) }";
    let _ = opt2;
    vec![
        Op { name: "add", arity: 2, body: |_| Some("(a + b).into()".into()), ret: "felt252", model: |t, a, b| val(t, a + b), exhaustive8: true },
        Op { name: "sub", arity: 2, body: |_| Some("(a - b).into()".into()), ret: "felt252", model: |t, a, b| val(t, a - b), exhaustive8: true },
        Op { name: "mul", arity: 2, body: |_| Some("(a * b).into()".into()), ret: "felt252", model: |t, a, b| val(t, a * b), exhaustive8: true },
        Op {
            name: "div",
            arity: 2,
            body: |_| Some("(a / b).into()".into()),
            ret: "felt252",
            model: |t, a, d| if d.is_zero() { Expect::Panic } else { val(t, tdiv(a, d).0) },
            exhaustive8: true,
        },
        Op {
            name: "rem",
            arity: 2,
            body: |_| Some("(a % b).into()".into()),
            ret: "felt252",
            model: |t, a, d| if d.is_zero() { Expect::Panic } else if !t.fits(&tdiv(a, d).0) { Expect::Panic } else { val(t, tdiv(a, d).1) },
            exhaustive8: true,
        },
        Op { name: "lt", arity: 2, body: |_| Some("if a < b { 1 } else { 0 }".into()), ret: "felt252", model: |_, a, c| Expect::Value(vec![b(a < c)]), exhaustive8: true },
        Op { name: "le", arity: 2, body: |_| Some("if a <= b { 1 } else { 0 }".into()), ret: "felt252", model: |_, a, c| Expect::Value(vec![b(a <= c)]), exhaustive8: true },
        Op { name: "gt", arity: 2, body: |_| Some("if a > b { 1 } else { 0 }".into()), ret: "felt252", model: |_, a, c| Expect::Value(vec![b(a > c)]), exhaustive8: false },
        Op { name: "ge", arity: 2, body: |_| Some("if a >= b { 1 } else { 0 }".into()), ret: "felt252", model: |_, a, c| Expect::Value(vec![b(a >= c)]), exhaustive8: false },
        Op { name: "eq", arity: 2, body: |_| Some("if a == b { 1 } else { 0 }".into()), ret: "felt252", model: |_, a, c| Expect::Value(vec![b(a == c)]), exhaustive8: true },
        Op { name: "ne", arity: 2, body: |_| Some("if a != b { 1 } else { 0 }".into()), ret: "felt252", model: |_, a, c| Expect::Value(vec![b(a != c)]), exhaustive8: false },
        Op {
            name: "bitand",
            arity: 2,
            body: |t| (!t.signed).then(|| "(a & b).into()".into()),
            ret: "felt252",
            model: |_, a, c| Expect::Value(vec![a & c]),
            exhaustive8: true,
        },
        Op { name: "bitor", arity: 2, body: |t| (!t.signed).then(|| "(a | b).into()".into()), ret: "felt252", model: |_, a, c| Expect::Value(vec![a | c]), exhaustive8: true },
        Op { name: "bitxor", arity: 2, body: |t| (!t.signed).then(|| "(a ^ b).into()".into()), ret: "felt252", model: |_, a, c| Expect::Value(vec![a ^ c]), exhaustive8: true },
        Op { name: "bitnot", arity: 1, body: |t| (!t.signed).then(|| "(~a).into()".into()), ret: "felt252", model: |t, a, _| Expect::Value(vec![t.max() - a]), exhaustive8: true },
        Op { name: "neg", arity: 1, body: |t| t.signed.then(|| "(-a).into()".into()), ret: "felt252", model: |t, a, _| val(t, -a), exhaustive8: true },
        Op {
            name: "overflowing_add",
            arity: 2,
            body: |_| Some("{ let (r, o) = core::num::traits::OverflowingAdd::overflowing_add(a, b); (r.into(), if o { 1 } else { 0 }) }".into()),
            ret: "(felt252, felt252)",
            model: |t, a, c| Expect::Value(vec![t.wrap(&(a + c)), b(!t.fits(&(a + c)))]),
            exhaustive8: true,
        },
        Op {
            name: "overflowing_sub",
            arity: 2,
            body: |_| Some("{ let (r, o) = core::num::traits::OverflowingSub::overflowing_sub(a, b); (r.into(), if o { 1 } else { 0 }) }".into()),
            ret: "(felt252, felt252)",
            model: |t, a, c| Expect::Value(vec![t.wrap(&(a - c)), b(!t.fits(&(a - c)))]),
            exhaustive8: true,
        },
        Op {
            name: "overflowing_mul",
            arity: 2,
            body: |_| Some("{ let (r, o) = core::num::traits::OverflowingMul::overflowing_mul(a, b); (r.into(), if o { 1 } else { 0 }) }".into()),
            ret: "(felt252, felt252)",
            model: |t, a, c| Expect::Value(vec![t.wrap(&(a * c)), b(!t.fits(&(a * c)))]),
            exhaustive8: true,
        },
        Op { name: "wrapping_add", arity: 2, body: |_| Some("core::num::traits::WrappingAdd::wrapping_add(a, b).into()".into()), ret: "felt252", model: |t, a, c| Expect::Value(vec![t.wrap(&(a + c))]), exhaustive8: true },
        Op { name: "wrapping_sub", arity: 2, body: |_| Some("core::num::traits::WrappingSub::wrapping_sub(a, b).into()".into()), ret: "felt252", model: |t, a, c| Expect::Value(vec![t.wrap(&(a - c))]), exhaustive8: true },
        Op { name: "wrapping_mul", arity: 2, body: |_| Some("core::num::traits::WrappingMul::wrapping_mul(a, b).into()".into()), ret: "felt252", model: |t, a, c| Expect::Value(vec![t.wrap(&(a * c))]), exhaustive8: true },
        Op {
            name: "checked_add",
            arity: 2,
            body: |_| Some("match core::num::traits::CheckedAdd::checked_add(a, b) { Some(v) => (1, v.into()), None => (0, 0) }".into()),
            ret: "(felt252, felt252)",
            model: |t, a, c| if t.fits(&(a + c)) { Expect::Value(vec![BigInt::one(), a + c]) } else { Expect::Value(vec![BigInt::zero(), BigInt::zero()]) },
            exhaustive8: true,
        },
        Op {
            name: "checked_sub",
            arity: 2,
            body: |_| Some("match core::num::traits::CheckedSub::checked_sub(a, b) { Some(v) => (1, v.into()), None => (0, 0) }".into()),
            ret: "(felt252, felt252)",
            model: |t, a, c| if t.fits(&(a - c)) { Expect::Value(vec![BigInt::one(), a - c]) } else { Expect::Value(vec![BigInt::zero(), BigInt::zero()]) },
            exhaustive8: true,
        },
        Op {
            name: "checked_mul",
            arity: 2,
            body: |_| Some("match core::num::traits::CheckedMul::checked_mul(a, b) { Some(v) => (1, v.into()), None => (0, 0) }".into()),
            ret: "(felt252, felt252)",
            model: |t, a, c| if t.fits(&(a * c)) { Expect::Value(vec![BigInt::one(), a * c]) } else { Expect::Value(vec![BigInt::zero(), BigInt::zero()]) },
            exhaustive8: true,
        },
        Op {
            name: "saturating_add",
            arity: 2,
            body: |_| Some("core::num::traits::SaturatingAdd::saturating_add(a, b).into()".into()),
            ret: "felt252",
            model: |t, a, c| Expect::Value(vec![(a + c).clamp(t.min(), t.max())]),
            exhaustive8: true,
        },
        Op {
            name: "saturating_sub",
            arity: 2,
            body: |_| Some("core::num::traits::SaturatingSub::saturating_sub(a, b).into()".into()),
            ret: "felt252",
            model: |t, a, c| Expect::Value(vec![(a - c).clamp(t.min(), t.max())]),
            exhaustive8: true,
        },
        Op {
            name: "saturating_mul",
            arity: 2,
            body: |_| Some("core::num::traits::SaturatingMul::saturating_mul(a, b).into()".into()),
            ret: "felt252",
            model: |t, a, c| Expect::Value(vec![(a * c).clamp(t.min(), t.max())]),
            exhaustive8: true,
        },
        Op {
            name: "wide_mul",
            arity: 2,
            body: |t| t.wider().map(|_| "core::num::traits::WideMul::wide_mul(a, b).into()".into()),
            ret: "felt252",
            model: |_, a, c| Expect::Value(vec![a * c]),
            exhaustive8: true,
        },
        Op {
            name: "div_rem",
            arity: 2,
            body: |t| (!t.signed).then(|| "{ let (q, r) = DivRem::div_rem(a, b.try_into().unwrap()); (q.into(), r.into()) }".into()),
            ret: "(felt252, felt252)",
            model: |_, a, d| if d.is_zero() { Expect::Panic } else { Expect::Value(vec![a / d, a % d]) },
            exhaustive8: true,
        },
        Op { name: "sqrt", arity: 1, body: |t| (!t.signed).then(|| "core::num::traits::Sqrt::sqrt(a).into()".into()), ret: "felt252", model: |_, a, _| Expect::Value(vec![isqrt(a)]), exhaustive8: true },
        Op { name: "pow0", arity: 1, body: |_| Some("core::num::traits::Pow::pow(a, 0_u32).into()".into()), ret: "felt252", model: |t, a, _| val(t, num_traits::pow(a.clone(), 0)), exhaustive8: true },
        Op { name: "pow1", arity: 1, body: |_| Some("core::num::traits::Pow::pow(a, 1_u32).into()".into()), ret: "felt252", model: |t, a, _| val(t, num_traits::pow(a.clone(), 1)), exhaustive8: true },
        Op { name: "pow2", arity: 1, body: |_| Some("core::num::traits::Pow::pow(a, 2_u32).into()".into()), ret: "felt252", model: |t, a, _| val(t, num_traits::pow(a.clone(), 2)), exhaustive8: true },
        Op { name: "pow3", arity: 1, body: |_| Some("core::num::traits::Pow::pow(a, 3_u32).into()".into()), ret: "felt252", model: |t, a, _| val(t, num_traits::pow(a.clone(), 3)), exhaustive8: true },
        Op { name: "pow7", arity: 1, body: |_| Some("core::num::traits::Pow::pow(a, 7_u32).into()".into()), ret: "felt252", model: |t, a, _| val(t, num_traits::pow(a.clone(), 7)), exhaustive8: true },
        Op { name: "into_felt", arity: 1, body: |_| Some("a.into()".into()), ret: "felt252", model: |_, a, _| Expect::Value(vec![a.clone()]), exhaustive8: true },
        Op {
            name: "is_zero",
            arity: 1,
            body: |_| Some("if core::num::traits::Zero::is_zero(@a) { 1 } else { 0 }".into()),
            ret: "felt252",
            model: |_, a, _| Expect::Value(vec![b(a.is_zero())]),
            exhaustive8: true,
        },
        Op { name: "min", arity: 2, body: |_| Some("core::cmp::min(a, b).into()".into()), ret: "felt252", model: |_, a, c| Expect::Value(vec![a.min(c).clone()]), exhaustive8: false },
        Op { name: "max", arity: 2, body: |_| Some("core::cmp::max(a, b).into()".into()), ret: "felt252", model: |_, a, c| Expect::Value(vec![a.max(c).clone()]), exhaustive8: false },
    ]
}

fn source(t: &Ty, op: &Op) -> Option<String> {
    let body = (op.body)(t)?;
    let params = if op.arity == 2 { format!("a: {0}, b: {0}", t.name) } else { format!("a: {}", t.name) };
    let helper = String::new();
    Some(format!("{helper}fn f({params}) -> {} {{ {body} }}\n", op.ret))
}

/// Source of a cast function from S to T (try_into), returning (is_some, value).
fn cast_source(s: &str, t: &str) -> String {
    format!("fn f(a: {s}) -> (felt252, felt252) {{ let r: Option<{t}> = a.try_into(); match r {{ Some(v) => (1, v.into()), None => (0, 0) }} }}\n")
}

fn check_run(ctx: &mut Ctx, c: &Compiled, name: &str, args: &[BigInt], expect: Expect, src: &str) {
    check_run_fn(ctx, c, "f", name, args, expect, src)
}

fn check_run_fn(ctx: &mut Ctx, c: &Compiled, func: &str, name: &str, args: &[BigInt], expect: Expect, src: &str) {
    if expect == Expect::Skip {
        return;
    }
    let suffix = format!("::{func}");
    let f = &c.program.funcs.iter().find(|f| fname(f).ends_with(&suffix)).expect("function");
    let a: Vec<cairo_lang_runner::Arg> = args.iter().map(|v| cairo_lang_runner::Arg::Value(to_felt(v))).collect();
    ctx.count("evaluations", 1);
    let r = guarded(|| run(c, f, &a, Some(100_000_000)));
    let got = match r {
        Err((loc, msg)) => {
            ctx.violation(format!("runner-panic:{name}"), format!("panic at {loc}: {msg}"), json!({"op": name, "args": args.iter().map(|x| x.to_string()).collect::<Vec<_>>()}));
            return;
        }
        Ok((Outcome::Value(v, _), _)) => v,
        Ok((Outcome::VmError(e), _)) => {
            ctx.violation(format!("vm-error:{name}"), format!("VM failure: {}", e.chars().take(200).collect::<String>()), json!({"op": name, "args": args.iter().map(|x| x.to_string()).collect::<Vec<_>>(), "source": src}));
            return;
        }
        Ok((Outcome::InputError(e), _)) => {
            ctx.note(format!("input error {name}: {e}"));
            return;
        }
    };
    let ok = match (&expect, &got) {
        (Expect::Panic, RunResultValue::Panic(_)) => true,
        (Expect::Value(v), RunResultValue::Success(g)) => v.len() == g.len() && v.iter().zip(g).all(|(x, y)| to_felt(&modp(x)) == *y),
        _ => false,
    };
    ctx.outcome(match got {
        RunResultValue::Panic(_) => "panic",
        RunResultValue::Success(_) => "value",
    });
    if !ok {
        ctx.violation(
            format!("wrong-result:{name}"),
            format!("{name}({}) = {} but the mathematical result is {expect:?}", args.iter().map(|x| x.to_string()).collect::<Vec<_>>().join(", "), crate::exec::value_json(&got)),
            json!({"op": name, "args": args.iter().map(|x| x.to_string()).collect::<Vec<_>>(), "source": src}),
        );
    }
}

fn run_all(ctx: &mut Ctx) {
    let tier = ctx.tier;
    let mut dbs = Dbs::default();
    let cfg = Cfg::DEFAULT;
    // integer ops
    for t in TYPES {
        for op in ops() {
            let Some(src) = source(t, &op) else { continue };
            let exhaustive = t.bits == 8 && (op.exhaustive8 || tier == Tier::Thorough);
            let dom: Vec<BigInt> = if exhaustive { t.all() } else { t.boundary() };
            // one work item per (type, op, chunk of first operands)
            let chunk = if op.arity == 2 && exhaustive { 32 } else { dom.len().max(1) };
            for (ci, xs) in dom.chunks(chunk).enumerate() {
                let name = format!("{}::{}", t.name, op.name);
                ctx.case(
                    || json!({"space":"int-ops","type":t.name,"op":op.name,"chunk":ci,"exhaustive":exhaustive}),
                    |ctx| {
                        let prog = match dbs.compile(&cfg, &src) {
                            Ok(p) => p,
                            Err(e) => {
                                ctx.count("ops_not_compiling", 1);
                                ctx.note(format!("{name}: {}", e.chars().take(150).collect::<String>()));
                                return;
                            }
                        };
                        let Ok(c) = make_runner(prog, &cfg) else { return };
                        if ci == 0 {
                            ctx.count("functions", 1);
                            if exhaustive {
                                ctx.count("functions_exhaustive_8bit", 1);
                            }
                        }
                        for x in xs {
                            if op.arity == 1 {
                                ctx.distinct(&(name.as_str(), x.to_string()));
                                check_run(ctx, &c, &name, &[x.clone()], (op.model)(t, x, x), &src);
                            } else {
                                for y in &dom {
                                    ctx.distinct(&(name.as_str(), x.to_string(), y.to_string()));
                                    check_run(ctx, &c, &name, &[x.clone(), y.clone()], (op.model)(t, x, y), &src);
                                }
                            }
                        }
                        // result-directed pairs: operands chosen so that the RESULT (quotient, remainder, sum,
                        // difference, product) sits on a boundary, which a product of operand boundaries rarely does
                        if op.arity == 2 && !exhaustive && ci == 0 {
                            for (x, y) in result_directed_pairs(t, &dom) {
                                if ctx.distinct_new(&(name.as_str(), x.to_string(), y.to_string())) {
                                    ctx.count("result_directed_runs", 1);
                                    check_run(ctx, &c, &name, &[x.clone(), y.clone()], (op.model)(t, &x, &y), &src);
                                }
                            }
                        }
                        ctx.sample(|| json!({"function": name, "source": src}));
                    },
                );
            }
        }
    }
    // literal-operand variants: `a op LIT` and `LIT op a`. With one operand known at compile time the compiler
    // takes different paths (identity / absorbing-element rewrites, `x + 1` / `x - 1` -> the inc / dec helpers of
    // the corelib, specialised libfuncs with a constant operand); the operation must stay exact on them.
    for t in TYPES {
        let mut lits: Vec<BigInt> = vec![BigInt::zero(), BigInt::one(), BigInt::from(2), t.max(), t.max() - 1];
        if t.signed {
            lits.extend([BigInt::from(-1), t.min(), t.min() + 1]);
        }
        for op in ops() {
            if op.arity != 2 {
                continue;
            }
            let Some(body) = (op.body)(t) else { continue };
            let mut src = String::new();
            for (k, lit) in lits.iter().enumerate() {
                src.push_str(&format!("fn r{k}(a: {0}) -> {1} {{ let b: {0} = {lit}; {body} }}\nfn l{k}(b: {0}) -> {1} {{ let a: {0} = {lit}; {body} }}\n", t.name, op.ret));
            }
            let name = format!("{}::{}", t.name, op.name);
            ctx.case(
                || json!({"space":"int-ops-literal-operand","type":t.name,"op":op.name}),
                |ctx| {
                    let prog = match dbs.compile(&cfg, &src) {
                        Ok(p) => p,
                        Err(e) => {
                            ctx.count("ops_not_compiling", 1);
                            ctx.note(format!("{name} (literal operand): {}", e.chars().take(150).collect::<String>()));
                            return;
                        }
                    };
                    let Ok(c) = make_runner(prog, &cfg) else { return };
                    ctx.count("functions", 2 * lits.len() as i64);
                    let dom: Vec<BigInt> = if t.bits == 8 { t.all() } else { t.boundary() };
                    for (k, lit) in lits.iter().enumerate() {
                        for x in &dom {
                            ctx.distinct(&(name.as_str(), "r", lit.to_string(), x.to_string()));
                            check_run_fn(ctx, &c, &format!("r{k}"), &format!("{name}:rhs={lit}"), &[x.clone()], (op.model)(t, x, lit), &src);
                            ctx.distinct(&(name.as_str(), "l", lit.to_string(), x.to_string()));
                            check_run_fn(ctx, &c, &format!("l{k}"), &format!("{name}:lhs={lit}"), &[x.clone()], (op.model)(t, lit, x), &src);
                        }
                    }
                },
            );
        }
    }
    // casts: every ordered pair of integer types (+ felt252 source), exhaustive for 8/16-bit sources
    let mut srcs: Vec<(String, Vec<BigInt>, bool)> = TYPES
        .iter()
        .map(|t| {
            let ex = t.bits <= if tier == Tier::Thorough { 16 } else { 8 };
            (t.name.to_string(), if ex { t.all() } else { t.boundary() }, ex)
        })
        .collect();
    let p = prime();
    let mut felt_dom: Vec<BigInt> = vec![BigInt::zero(), BigInt::one(), &p - 1, &p - 2, (&p - 1) / 2, (&p + 1) / 2];
    for t in TYPES {
        for v in [t.min() - 1, t.min(), t.max(), t.max() + 1] {
            felt_dom.push(modp(&v));
        }
    }
    felt_dom.sort();
    felt_dom.dedup();
    srcs.push(("felt252".into(), felt_dom, false));
    for (sname, dom, ex) in &srcs {
        for t in TYPES {
            if sname == t.name {
                continue;
            }
            let src = cast_source(sname, t.name);
            let name = format!("cast::{sname}->{}", t.name);
            ctx.case(
                || json!({"space":"casts","from":sname,"to":t.name,"exhaustive":ex}),
                |ctx| {
                    let prog = match dbs.compile(&cfg, &src) {
                        Ok(p) => p,
                        Err(e) => {
                            ctx.count("ops_not_compiling", 1);
                            ctx.note(format!("{name}: {}", e.chars().take(150).collect::<String>()));
                            return;
                        }
                    };
                    let Ok(c) = make_runner(prog, &cfg) else { return };
                    ctx.count("functions", 1);
                    for x in dom {
                        // a felt252 converted to a signed type is read through its signed representative in
                        // (-P/2, P/2] (how negative integers are stored); to an unsigned type as 0..P-1
                        let math = if sname == "felt252" && t.signed && *x > (&p - 1) / 2 { x - &p } else { x.clone() };
                        let e = if t.fits(&math) { Expect::Value(vec![BigInt::one(), math]) } else { Expect::Value(vec![BigInt::zero(), BigInt::zero()]) };
                        ctx.distinct(&(name.as_str(), x.to_string()));
                        check_run(ctx, &c, &name, &[x.clone()], e, &src);
                    }
                },
            );
        }
    }
    // felt252 field operations and u256
    let fdom: Vec<BigInt> = vec![BigInt::zero(), BigInt::one(), BigInt::from(2), BigInt::one() << 64, BigInt::one() << 128, (BigInt::one() << 128) - 1, BigInt::one() << 251, (&p - 1) / 2, &p - 2, &p - 1];
    type Model = fn(&BigInt, &BigInt) -> Expect;
    let felt_ops: Vec<(&str, &str, Model)> = vec![
        ("felt::add", "fn f(a: felt252, b: felt252) -> felt252 { a + b }\n", |a, c| Expect::Value(vec![a + c])),
        ("felt::sub", "fn f(a: felt252, b: felt252) -> felt252 { a - b }\n", |a, c| Expect::Value(vec![a - c])),
        ("felt::mul", "fn f(a: felt252, b: felt252) -> felt252 { a * b }\n", |a, c| Expect::Value(vec![a * c])),
        ("felt::neg", "fn f(a: felt252, b: felt252) -> felt252 { -a + b - b }\n", |a, _| Expect::Value(vec![-a])),
        ("felt::div", "fn f(a: felt252, b: felt252) -> felt252 { core::felt252_div(a, b.try_into().unwrap()) }\n", |a, c| {
            if c.is_zero() {
                Expect::Panic
            } else {
                let p = prime();
                Expect::Value(vec![a * c.modpow(&(&p - 2), &p)])
            }
        }),
        ("felt::eq", "fn f(a: felt252, b: felt252) -> felt252 { if a == b { 1 } else { 0 } }\n", |a, c| Expect::Value(vec![b(a == c)])),
        ("felt::to_u256", "fn f(a: felt252, b: felt252) -> (felt252, felt252) { let u: u256 = a.into(); (u.low.into(), u.high.into() + b - b) }\n", |a, _| Expect::Value(vec![a & ((BigInt::one() << 128) - 1), a >> 128])),
    ];
    for (name, src, model) in felt_ops {
        ctx.case(
            || json!({"space":"felt-ops","op":name}),
            |ctx| {
                let Ok(prog) = dbs.compile(&cfg, src) else {
                    ctx.count("ops_not_compiling", 1);
                    return;
                };
                let Ok(c) = make_runner(prog, &cfg) else { return };
                ctx.count("functions", 1);
                for x in &fdom {
                    for y in &fdom {
                        ctx.distinct(&(name, x.to_string(), y.to_string()));
                        check_run(ctx, &c, name, &[x.clone(), y.clone()], model(x, y), src);
                    }
                }
            },
        );
    }
    // u256: add/sub/mul/div/rem/comparisons/bit ops over boundary limbs
    let limb: Vec<BigInt> = vec![BigInt::zero(), BigInt::one(), BigInt::one() << 64, (BigInt::one() << 128) - 2, (BigInt::one() << 128) - 1];
    let m256 = || (BigInt::one() << 256) - 1;
    type Model4 = fn(&BigInt, &BigInt) -> Expect;
    let fit256 = |v: BigInt| -> Expect { if v >= BigInt::zero() && v <= (BigInt::one() << 256) - 1 { Expect::Value(vec![&v & ((BigInt::one() << 128) - 1), &v >> 128]) } else { Expect::Panic } };
    let _ = (m256, fit256);
    let u256_ops: Vec<(&str, &str, Model4)> = vec![
        ("u256::add", "a + b", |a, c| u256v(a + c)),
        ("u256::sub", "a - b", |a, c| u256v(a - c)),
        ("u256::mul", "a * b", |a, c| u256v(a * c)),
        ("u256::div", "a / b", |a, c| if c.is_zero() { Expect::Panic } else { u256v(a / c) }),
        ("u256::rem", "a % b", |a, c| if c.is_zero() { Expect::Panic } else { u256v(a % c) }),
        ("u256::and", "a & b", |a, c| u256v(a & c)),
        ("u256::or", "a | b", |a, c| u256v(a | c)),
        ("u256::xor", "a ^ b", |a, c| u256v(a ^ c)),
        ("u256::lt", "if a < b { 1_u256 } else { 0_u256 }", |a, c| u256v(b(a < c))),
        ("u256::le", "if a <= b { 1_u256 } else { 0_u256 }", |a, c| u256v(b(a <= c))),
        ("u256::eq", "if a == b { 1_u256 } else { 0_u256 }", |a, c| u256v(b(a == c))),
        ("u256::sqrt", "{ let r: u128 = core::num::traits::Sqrt::sqrt(a); let z = b - b; u256 { low: r, high: z.high } }", |a, _| u256v(isqrt(a))),
        ("u256::wrapping_add", "core::num::traits::WrappingAdd::wrapping_add(a, b)", |a, c| u256v((a + c) & ((BigInt::one() << 256) - 1))),
        ("u256::overflowing_mul", "{ let (r, o) = core::num::traits::OverflowingMul::overflowing_mul(a, b); if o { r } else { r } }", |a, c| u256v((a * c) & ((BigInt::one() << 256) - 1))),
    ];
    for (name, body, model) in u256_ops {
        let src = format!("fn f(a: u256, b: u256) -> u256 {{ {body} }}\n");
        ctx.case(
            || json!({"space":"u256-ops","op":name}),
            |ctx| {
                let prog = match dbs.compile(&cfg, &src) {
                    Ok(p) => p,
                    Err(e) => {
                        ctx.count("ops_not_compiling", 1);
                        ctx.note(format!("{name}: {}", e.chars().take(150).collect::<String>()));
                        return;
                    }
                };
                let Ok(c) = make_runner(prog, &cfg) else { return };
                ctx.count("functions", 1);
                for al in &limb {
                    for ah in &limb {
                        for bl in &limb {
                            for bh in &limb {
                                let (a, bb): (BigInt, BigInt) = (al + (ah << 128u32), bl + (bh << 128u32));
                                ctx.distinct(&(name, a.to_string(), bb.to_string()));
                                check_run(ctx, &c, name, &[al.clone(), ah.clone(), bl.clone(), bh.clone()], model(&a, &bb), &src);
                            }
                        }
                    }
                }
                let m128 = (BigInt::one() << 128) - 1;
                for (a, bb) in u256_result_directed_pairs() {
                    if ctx.distinct_new(&(name, a.to_string(), bb.to_string())) {
                        ctx.count("result_directed_runs", 1);
                        check_run(ctx, &c, name, &[&a & &m128, &a >> 128, &bb & &m128, &bb >> 128], model(&a, &bb), &src);
                    }
                }
            },
        );
    }
    // bounded_int_div_rem at the relation boundaries of its verification schemes (exact quotient and remainder)
    crate::divrem::run_relation(ctx, true);
    crate::bounded::run_lattice(ctx, true);
}

/// Operand pairs whose quotient / remainder / sum / difference / product lies on a boundary of the type.
fn result_directed_pairs(t: &Ty, dom: &[BigInt]) -> Vec<(BigInt, BigInt)> {
    let half = BigInt::one() << (t.bits / 2);
    let mut out = vec![];
    let d3 = [BigInt::from(-1), BigInt::zero(), BigInt::one()];
    for b in dom {
        // a = q * b + r with q and r on boundaries
        let mut qs: Vec<BigInt> = vec![BigInt::zero(), BigInt::one(), BigInt::from(2), BigInt::from(-1), &half - 1, half.clone(), &half + 1, t.max() - 1, t.max(), t.min(), b - 1, b.clone(), b + 1];
        qs.retain(|q| t.fits(q));
        for q in &qs {
            // remainders 0, 1, |b| - 1, and -1 / -(|b| - 1) for negative dividends
            let babs: BigInt = BigInt::from(b.magnitude().clone());
            let one = BigInt::one();
            let rs: Vec<BigInt> = vec![BigInt::zero(), one.clone(), -one.clone(), &babs - &one, &one - &babs];
            for r in rs {
                if r.magnitude() < b.magnitude() || (b.is_zero() && r.is_zero()) {
                    out.push((q * b + &r, b.clone()));
                }
            }
        }
        // sums, differences and products next to MIN and MAX
        for d in &d3 {
            out.push((t.max() - b + d, b.clone()));
            out.push((t.min() - b + d, b.clone()));
            out.push((b + t.max() + d, b.clone()));
            out.push((b + t.min() + d, b.clone()));
            if !b.is_zero() {
                out.push((t.max() / b + d, b.clone()));
                out.push((t.min() / b + d, b.clone()));
            }
        }
    }
    out.retain(|(a, b)| t.fits(a) && t.fits(b));
    out.sort();
    out.dedup();
    out
}

fn u256_result_directed_pairs() -> Vec<(BigInt, BigInt)> {
    let two = |k: u32| BigInt::one() << k;
    let max: BigInt = two(256) - BigInt::one();
    let qs: Vec<BigInt> = vec![BigInt::zero(), BigInt::one(), two(64), two(128) - 1, two(128), two(128) + 1, two(192), two(255), max.clone()];
    let bs: Vec<BigInt> = vec![BigInt::one(), BigInt::from(2), BigInt::from(3), two(64) - 1, two(64), two(64) + 1, two(127), two(128) - 1, two(128), two(128) + 1, two(129) - 1, two(192) + 1, two(255), max.clone()];
    let mut out = vec![];
    for b in &bs {
        for q in &qs {
            for r in [BigInt::zero(), BigInt::one(), b - 1] {
                if r < *b {
                    out.push((q * b + r, b.clone()));
                }
            }
        }
        for d in [-1, 0, 1] {
            out.push((&max - b + d, b.clone()));
            out.push((&max + 1 - b + d, b.clone()));
            out.push((b + d, b.clone()));
            out.push((&max / b + d, b.clone()));
        }
    }
    // square roots: s^2 - 1, s^2, s^2 + 1, (s + 1)^2 - 2, (s + 1)^2 - 1
    for s in [BigInt::zero(), BigInt::one(), two(32), two(64) - 1, two(64), two(127), two(127) + 1, two(128) - 2, two(128) - 1] {
        let s2 = &s * &s;
        for a in [&s2 - 1, s2.clone(), &s2 + 1, &s2 + 2 * &s - 1, &s2 + 2 * &s] {
            out.push((a, BigInt::one()));
        }
    }
    out.retain(|(a, b)| *a >= BigInt::zero() && *a <= max && *b >= BigInt::zero() && *b <= max);
    out.sort();
    out.dedup();
    out
}

fn u256v(v: BigInt) -> Expect {
    if v >= BigInt::zero() && v < (BigInt::one() << 256) { Expect::Value(vec![&v & ((BigInt::one() << 128) - 1), &v >> 128]) } else { Expect::Panic }
}

pub static C06: CheckDef = CheckDef {
    id: "C06",
    level: "exploration",
    rule: "Operation table generated from the corelib trait surface: for each of u8,u16,u32,u64,u128,i8,i16,i32,i64,i128: + - * / % < <= > >= == != & | ^ ~ neg, overflowing_/wrapping_/checked_/saturating_{add,sub,mul}, wide_mul, div_rem, sqrt, pow(small exponents), into felt252, is_zero, min, max; try_into between every ordered pair of integer types and from felt252; felt252 + - * / neg ==, felt252->u256; u256 + - * / % & | ^ < <= == sqrt wrapping_add overflowing_mul. Each (op,T) is a tiny Cairo function compiled alone and run through Cairo->Sierra->CASM->VM; the model is num-bigint. Operands: ALL 65 536 pairs (256 values for unary) for 8-bit types on the ops marked exhaustive (thorough: all ops; casts exhaustive from 8-bit sources, 16-bit in thorough); the full cross product of boundary sets {MIN,MIN+1,-1,0,1,2,MAX-1,MAX, +-2^k+-1 at k=7,8,15,16,31,32,63,64,127} for wider types; 5^4 limb combinations for u256. Every binary op also as `a op LIT` and `LIT op a` with LIT in {0, 1, 2, MAX-1, MAX} (signed: + -1, MIN, MIN+1): with one operand known the compiler takes other paths (identity rewrites, x+-1 -> the corelib inc / dec helpers, constant-operand libfuncs); operands: all 256 values for 8-bit types, the boundary set otherwise. Plus RESULT-DIRECTED pairs for every binary op of the wider types and of u256: a = q*b + r with the quotient q on a boundary (0, 1, 2, -1, 2^(bits/2) +-1, MAX-1, MAX, MIN, b +-1) and r in {0, +-1, +-(|b|-1)}; sums, differences and products next to MIN and MAX (a = MAX - b +-1, MIN - b +-1, b + MAX +-1, MAX / b +-1 ...); for u256 also a around s^2 and (s+1)^2 - 1 for boundary roots s. Oracle: value equality, and panic/None/overflow flag iff the mathematical result does not fit. distinct_nontrivial = distinct (function, operands). Plus bounded_int_div_rem over the divrem.rs lattice (16 dividend maxima incl. perfect squares and their neighbours x fixed and derived divisor ranges selecting each of the three verification schemes) on operand pairs derived from the instantiation (divisor and quotient at floor(sqrt(max)) +-1, at each other, T=(P-1)/2^128 +-1, 2^64, 2^128 +-1, range ends; remainders 0, 1, b-1): exact quotient and remainder. Plus the bounded-integer lattice of bounded.rs over 24 ranges (u8, i8, u64, [5,10], [-10,-5], [0,0], [7,7], u128, i128, [1,2^128], [-2^128+1,0], a 2^128-wide range straddling 0, ranges around 2^128 and +-2^250, [0,T-2], [0,T-1], [0,T], [0,2^200], [-2^200,2^200], felt252): downcast between every ordered pair the compiler accepts (all four cast types; from felt252 a value stands for x and x-P), bounded_int_constrain at the boundaries next to either end / middle / 0 / those making a half exactly 2^128 wide, trim_min / trim_max, bounded_int add / sub / mul with the tightest result range - on the values around every constant the generated code compares against (range ends, destination ends, +-2^128 shifts, 0, P-2^128, (P-1)/2): exact flag and value.",
    assumptions: &["signed division and remainder truncate toward zero (documented Cairo semantics)", "ample gas; default compiler configuration"],
    run: run_all,
    stack_mb: 16,
    item_timeout_s: 300,
    wall_cap_s: (55, 1500),
    shards: 0,
};
