//! Auto-wrappers: e2e snippets exercise one libfunc each, but many take boxes, enums, arrays, nullables ...
//! that the runner cannot receive as arguments. For each such function a wrapper with scalar parameters is
//! generated *in Cairo source* that constructs the values and calls it, so the libfunc is executed too.

use std::collections::BTreeMap;

#[derive(Clone, Debug)]
enum UserTy {
    Struct(Vec<(String, String)>),
    Enum(Vec<(String, String)>),
}

/// Splits at top-level commas (brackets balanced).
fn split_top(s: &str, sep: char) -> Vec<String> {
    let mut out = vec![];
    let mut depth = 0i32;
    let mut cur = String::new();
    for c in s.chars() {
        match c {
            '<' | '(' | '[' | '{' => depth += 1,
            '>' | ')' | ']' | '}' => depth -= 1,
            _ => {}
        }
        if c == sep && depth == 0 {
            out.push(cur.trim().to_string());
            cur.clear();
        } else {
            cur.push(c);
        }
    }
    if !cur.trim().is_empty() {
        out.push(cur.trim().to_string());
    }
    out
}

fn matching(s: &str, open_idx: usize, open: char, close: char) -> Option<usize> {
    let mut depth = 0;
    for (i, c) in s[open_idx..].char_indices() {
        if c == open {
            depth += 1;
        } else if c == close {
            depth -= 1;
            if depth == 0 {
                return Some(open_idx + i);
            }
        }
    }
    None
}

fn user_types(code: &str) -> BTreeMap<String, UserTy> {
    let mut out = BTreeMap::new();
    for (kw, is_struct) in [("struct ", true), ("enum ", false)] {
        let mut from = 0;
        while let Some(i) = code[from..].find(kw) {
            let start = from + i;
            from = start + kw.len();
            // must be at line start (after optional `pub `)
            let line_start = code[..start].rfind('\n').map(|p| p + 1).unwrap_or(0);
            let prefix = code[line_start..start].trim();
            if !(prefix.is_empty() || prefix == "pub") {
                continue;
            }
            let rest = &code[from..];
            let Some(brace) = rest.find('{') else { continue };
            let name = rest[..brace].trim().to_string();
            if name.contains('<') || name.contains(';') || name.is_empty() || name.contains(' ') {
                continue;
            }
            let Some(end) = matching(rest, brace, '{', '}') else { continue };
            let body = &rest[brace + 1..end];
            let mut members = vec![];
            for m in split_top(body, ',') {
                let m = m.lines().filter(|l| !l.trim_start().starts_with("//") && !l.trim_start().starts_with("#[")).collect::<Vec<_>>().join(" ");
                let m = m.trim().trim_start_matches("pub ").trim();
                if m.is_empty() {
                    continue;
                }
                match m.split_once(':') {
                    Some((n, t)) => members.push((n.trim().to_string(), t.trim().to_string())),
                    None => members.push((m.to_string(), "()".to_string())),
                }
            }
            out.insert(name, if is_struct { UserTy::Struct(members) } else { UserTy::Enum(members) });
        }
    }
    out
}

struct Gen<'a> {
    users: &'a BTreeMap<String, UserTy>,
    /// wrapper parameters created so far: (name, scalar type)
    params: Vec<(String, String)>,
}

const SCALARS: &[&str] = &["felt252", "u8", "u16", "u32", "u64", "u128", "i8", "i16", "i32", "i64", "i128", "bool", "u256"];

impl Gen<'_> {
    fn fresh(&mut self, ty: &str) -> String {
        let n = format!("vp{}", self.params.len());
        self.params.push((n.clone(), ty.to_string()));
        n
    }
    /// A Cairo expression of type `ty`; `variant` selects among alternatives (enum variants, array sizes).
    fn expr(&mut self, ty: &str, variant: usize, depth: usize) -> Option<String> {
        if depth > 5 || self.params.len() > 3 {
            return None;
        }
        let ty = ty.trim();
        let short = ty.rsplit("::").next().unwrap_or(ty);
        if SCALARS.contains(&ty) || SCALARS.contains(&short) && !ty.contains('<') {
            return Some(self.fresh(short));
        }
        if ty == "()" {
            return Some("()".into());
        }
        if let Some(inner) = ty.strip_prefix('@') {
            return Some(format!("@{}", self.expr(inner, variant, depth + 1)?));
        }
        if ty.starts_with('(') && ty.ends_with(')') {
            let parts = split_top(&ty[1..ty.len() - 1], ',');
            let mut es = vec![];
            for p in &parts {
                es.push(self.expr(p, variant, depth + 1)?);
            }
            return Some(if es.len() == 1 { format!("({},)", es[0]) } else { format!("({})", es.join(", ")) });
        }
        if let Some(lt) = ty.find('<') {
            let head = ty[..lt].rsplit("::").next().unwrap_or("").trim_end_matches("::");
            let args = split_top(&ty[lt + 1..ty.len() - 1], ',');
            let a0 = args.first().cloned().unwrap_or_default();
            return match head {
                "Box" => Some(format!("BoxTrait::new({})", self.expr(&a0, variant, depth + 1)?)),
                "Option" => {
                    if variant % 2 == 0 {
                        Some(format!("Option::Some({})", self.expr(&a0, variant / 2, depth + 1)?))
                    } else {
                        Some(format!("Option::<{a0}>::None"))
                    }
                }
                "Result" => {
                    let a1 = args.get(1).cloned().unwrap_or_default();
                    if variant % 2 == 0 { Some(format!("Result::<{a0}, {a1}>::Ok({})", self.expr(&a0, variant / 2, depth + 1)?)) } else { Some(format!("Result::<{a0}, {a1}>::Err({})", self.expr(&a1, variant / 2, depth + 1)?)) }
                }
                "Array" => {
                    if variant % 2 == 1 {
                        Some(format!("ArrayTrait::<{a0}>::new()"))
                    } else {
                        let e = self.expr(&a0, variant / 2, depth + 1)?;
                        // the same scalar parameter may be used twice only if copyable: use it once
                        Some(format!("array![{e}]"))
                    }
                }
                "Span" => {
                    if variant % 2 == 1 {
                        Some(format!("ArrayTrait::<{a0}>::new().span()"))
                    } else {
                        Some(format!("array![{}].span()", self.expr(&a0, variant / 2, depth + 1)?))
                    }
                }
                "Nullable" => {
                    if variant % 2 == 1 {
                        Some(format!("Default::<Nullable<{a0}>>::default()"))
                    } else {
                        Some(format!("NullableTrait::new({})", self.expr(&a0, variant / 2, depth + 1)?))
                    }
                }
                "NonZero" => Some(format!("TryInto::<{a0}, NonZero<{a0}>>::try_into({}).unwrap()", self.expr(&a0, variant, depth + 1)?)),
                "Felt252Dict" => Some(format!("Default::<Felt252Dict<{a0}>>::default()")),
                _ => None,
            };
        }
        match self.users.get(short) {
            Some(UserTy::Struct(ms)) => {
                let ms = ms.clone();
                let mut fs = vec![];
                for (n, t) in &ms {
                    fs.push(format!("{n}: {}", self.expr(t, variant, depth + 1)?));
                }
                Some(format!("{short} {{ {} }}", fs.join(", ")))
            }
            Some(UserTy::Enum(vs)) => {
                let vs = vs.clone();
                if vs.is_empty() {
                    return None;
                }
                let (n, t) = &vs[variant % vs.len()];
                if t == "()" {
                    Some(format!("{short}::{n}"))
                } else {
                    Some(format!("{short}::{n}({})", self.expr(t, variant / vs.len(), depth + 1)?))
                }
            }
            None => None,
        }
    }
}

/// Wrapper functions (Cairo source) for the top-level functions of `code` that have non-scalar parameters.
pub fn wrappers(code: &str) -> String {
    let users = user_types(code);
    let mut out = String::new();
    let mut from = 0;
    let mut wi = 0;
    while let Some(i) = code[from..].find("fn ") {
        let start = from + i;
        from = start + 3;
        let line_start = code[..start].rfind('\n').map(|p| p + 1).unwrap_or(0);
        let prefix = code[line_start..start].trim();
        if !(prefix.is_empty() || prefix == "pub") {
            continue;
        }
        let rest = &code[from..];
        let Some(paren) = rest.find('(') else { continue };
        let name = rest[..paren].trim();
        if name.is_empty() || name.contains('<') || name.contains(' ') {
            continue;
        }
        let Some(close) = matching(rest, paren, '(', ')') else { continue };
        let params = split_top(&rest[paren + 1..close], ',');
        let after = &rest[close + 1..];
        let body_or_semi = after.find(['{', ';']).unwrap_or(0);
        if after[..body_or_semi].contains("implicits") || after.as_bytes().get(body_or_semi) == Some(&b';') {
            // extern declarations are called through their own wrappers in the snippet
            continue;
        }
        let ret = after[..body_or_semi].trim().strip_prefix("->").map(|r| r.trim().trim_end_matches("nopanic").trim().to_string());
        let mut tys = vec![];
        let mut ok = !params.is_empty();
        for p in &params {
            if p.starts_with("ref ") || p.starts_with("mut ") {
                ok = false;
                break;
            }
            match p.split_once(':') {
                Some((_, t)) => tys.push(t.trim().to_string()),
                None => ok = false,
            }
        }
        if !ok || tys.iter().all(|t| SCALARS.contains(&t.as_str())) {
            continue;
        }
        for variant in 0..4usize {
            let mut g = Gen { users: &users, params: vec![] };
            let mut args = vec![];
            let mut good = true;
            for t in &tys {
                match g.expr(t, variant, 0) {
                    Some(e) => args.push(e),
                    None => {
                        good = false;
                        break;
                    }
                }
            }
            if !good {
                break;
            }
            let ps = g.params.iter().map(|(n, t)| format!("{n}: {t}")).collect::<Vec<_>>().join(", ");
            let r = ret.as_ref().map(|r| format!(" -> {r}")).unwrap_or_default();
            out.push_str(&format!("fn verif_w{wi}_{variant}({ps}){r} {{ {name}({}) }}\n", args.join(", ")));
        }
        wi += 1;
    }
    out
}
