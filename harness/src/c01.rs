//! C01 — compiled programs compute what the source means: MiniCairo families enumerated exhaustively,
//! compiled (default and optimisations-disabled), run on the boundary cross product, compared with the
//! reference evaluator (value or exact panic data).

use cairo_lang_runner::{Arg, RunResultValue};
use num_bigint::BigInt;
use serde_json::json;

use crate::c06::to_felt;
use crate::core::{CheckDef, Ctx, Tier, guarded};
use crate::exec::{Dbs, value_json};
use crate::mini::*;
use crate::pipe::*;

fn v(n: &str) -> Ex {
    Ex::Var(n.into())
}
fn l(t: &T, x: i64) -> Ex {
    Ex::Lit(t.clone(), BigInt::from(x))
}
fn bin(op: Op, a: Ex, b: Ex) -> Ex {
    Ex::Bin(op, Box::new(a), Box::new(b))
}
fn blk(sts: Vec<St>, tail: Option<Ex>) -> Ex {
    Ex::Block(sts, tail.map(Box::new))
}
fn into(e: Ex, t: T) -> Ex {
    Ex::Into(Box::new(e), t)
}

pub struct Case {
    pub name: String,
    pub prog: Prog,
    /// parameter types of the entry function `f`
    pub params: Vec<T>,
    /// the source text when it is not the (fully parenthesised) pretty-print of `prog`
    pub src: Option<String>,
}
impl Case {
    pub fn source(&self) -> String {
        self.src.clone().unwrap_or_else(|| pprog(&self.prog))
    }
}

fn dom(t: &T) -> Vec<BigInt> {
    let v: Vec<i64> = match t {
        T::U8 => vec![0, 1, 2, 127, 128, 254, 255],
        T::I8 => vec![-128, -127, -1, 0, 1, 126, 127],
        T::U32 => vec![0, 1, 65535, 65536, 4294967294, 4294967295],
        T::Felt => vec![0, 1, 2, -1, -2],
        T::Bool => vec![0, 1],
        _ => vec![0],
    };
    let mut out: Vec<BigInt> = v.into_iter().map(BigInt::from).collect();
    if *t == T::Felt {
        out.push(BigInt::from(1u8) << 128);
        out = out.into_iter().map(|x| num_integer::Integer::mod_floor(&x, &felt_prime())).collect();
    }
    if *t == T::U128 {
        out = vec![BigInt::from(0), BigInt::from(1), BigInt::from(u64::MAX), BigInt::from(u128::MAX - 1), BigInt::from(u128::MAX)];
    }
    out
}

// ---- G1: expression trees -------------------------------------------------------------------------

fn g1(tier: Tier) -> Vec<Case> {
    let mut out = vec![];
    let types: Vec<T> = tier.pick(vec![T::U8, T::I8, T::Felt], vec![T::U8, T::I8, T::Felt, T::U32, T::U128]);
    for t in types {
        let ops: Vec<Op> = if t == T::Felt { vec![Op::Add, Op::Sub, Op::Mul] } else { vec![Op::Add, Op::Sub, Op::Mul, Op::Div, Op::Rem] };
        let lits: Vec<i64> = match t {
            T::I8 => vec![3, -2],
            _ => vec![3, 100],
        };
        let leaves: Vec<Ex> = [v("a"), v("b")].into_iter().chain(lits.iter().map(|x| l(&t, *x))).collect();
        let mk = |name: String, e: Ex| Case {
            name,
            prog: Prog { funcs: vec![Func { name: "f".into(), params: vec![("a".into(), t.clone(), false), ("b".into(), t.clone(), false)], ret: t.clone(), body: blk(vec![], Some(e)) }] },
            params: vec![t.clone(), t.clone()],
            src: None,
        };
        let mut n = 0;
        // depth 1
        for op in &ops {
            for x in &leaves {
                for y in &leaves {
                    out.push(mk(format!("g1:{}:d1#{n}", t.name()), bin(*op, x.clone(), y.clone())));
                    n += 1;
                }
            }
        }
        // depth 2: (x op1 y) op2 z and z op2 (x op1 y); evaluation order is observable through which panic fires
        let sub_leaves: Vec<Ex> = tier.pick(vec![v("a"), v("b")], leaves.clone());
        let z_leaves: Vec<Ex> = tier.pick(vec![v("a"), v("b"), l(&t, lits[0])], leaves.clone());
        for op1 in &ops {
            for x in &sub_leaves {
                for y in &sub_leaves {
                    let sub = bin(*op1, x.clone(), y.clone());
                    for op2 in &ops {
                        for z in &z_leaves {
                            out.push(mk(format!("g1:{}:d2#{n}", t.name()), bin(*op2, sub.clone(), z.clone())));
                            n += 1;
                            out.push(mk(format!("g1:{}:d2#{n}", t.name()), bin(*op2, z.clone(), sub.clone())));
                            n += 1;
                        }
                    }
                }
            }
        }
        // comparisons and short-circuit logic guarding a panicking operand
        if t != T::Felt {
            for cmp in [Op::Lt, Op::Le, Op::Gt, Op::Ge, Op::Eq, Op::Ne] {
                for lg in [Op::And, Op::Or] {
                    for arith in [Op::Div, Op::Add, Op::Sub] {
                        let guard = bin(cmp, v("a"), v("b"));
                        let risky = bin(Op::Eq, bin(arith, v("a"), v("b")), v("a"));
                        let e = Ex::If(Box::new(bin(lg, guard.clone(), risky.clone())), Box::new(v("a")), Box::new(v("b")));
                        out.push(mk(format!("g1:{}:logic#{n}", t.name()), e));
                        n += 1;
                        let e = Ex::If(Box::new(bin(lg, risky, guard)), Box::new(v("b")), Box::new(v("a")));
                        out.push(mk(format!("g1:{}:logic#{n}", t.name()), e));
                        n += 1;
                    }
                }
            }
        }
    }
    out
}

// ---- G2: control skeletons ------------------------------------------------------------------------

fn g2(tier: Tier) -> Vec<Case> {
    let u32t = T::U32;
    // effects on the accumulator s (u32), chosen so overflow is possible only through `mul`
    let effects: Vec<(&str, Vec<St>)> = vec![
        ("acc", vec![St::AssignOp("s".into(), Op::Add, bin(Op::Add, bin(Op::Mul, v("i"), l(&u32t, 3)), l(&u32t, 1)))]),
        ("mix", vec![St::Assign("s".into(), bin(Op::Rem, bin(Op::Mul, v("s"), l(&u32t, 7)), l(&u32t, 1009)))]),
        ("append", vec![St::Append("arr".into(), v("s"))]),
        ("ret", vec![St::Return(bin(Op::Add, v("s"), l(&u32t, 1000)))]),
        ("panic", vec![St::Panic("boom")]),
        ("sub", vec![St::AssignOp("s".into(), Op::Sub, l(&u32t, 5))]),
    ];
    let conds: Vec<(&str, Ex)> = vec![
        ("a<b", bin(Op::Lt, v("a"), v("b"))),
        ("s-even", bin(Op::Eq, bin(Op::Rem, v("s"), l(&u32t, 2)), l(&u32t, 0))),
        ("i-last", bin(Op::Eq, bin(Op::Add, v("i"), l(&u32t, 1)), v("n"))),
        ("a=3", bin(Op::Eq, v("a"), l(&T::U8, 3))),
    ];
    // bodies(depth, in_loop): statement lists
    fn bodies(depth: usize, in_loop: bool, effects: &[(&str, Vec<St>)], conds: &[(&str, Ex)], tier: Tier) -> Vec<(String, Vec<St>)> {
        let u32t = T::U32;
        let mut out: Vec<(String, Vec<St>)> = effects.iter().map(|(n, s)| (n.to_string(), s.clone())).collect();
        if in_loop {
            out.push(("break".into(), vec![St::Break(None)]));
            out.push(("continue".into(), vec![St::Continue]));
        }
        if depth == 0 {
            return out;
        }
        let inner_noloop = bodies(depth - 1, in_loop, effects, conds, tier);
        let inner_loop = bodies(depth - 1, true, effects, conds, tier);
        let cs: Vec<&(&str, Ex)> = if depth >= 2 && tier == Tier::Quick { conds.iter().take(2).collect() } else { conds.iter().collect() };
        for (cn, c) in cs {
            for (an, a) in &inner_noloop {
                // if with an effect-only else keeps the product small
                for (bn, b) in inner_noloop.iter().take(if depth >= 2 { 2 } else { 3 }) {
                    out.push((format!("if({cn}){{{an}}}else{{{bn}}}"), vec![St::Expr(Ex::If(Box::new(c.clone()), Box::new(Ex::Block(a.clone(), None)), Box::new(Ex::Block(b.clone(), None))))]));
                }
            }
        }
        for (an, a) in &inner_loop {
            // while with the increment first (so `continue` cannot loop forever)
            let mut body = vec![St::AssignOp("i".into(), Op::Add, l(&u32t, 1))];
            body.extend(a.clone());
            out.push((format!("while{{{an}}}"), vec![St::Assign("i".into(), l(&u32t, 0)), St::While(bin(Op::Ne, v("i"), v("n")), body)]));
            // the loop variable is immutable: the mutable counter `i` mirrors it so inner loops may reuse `i`
            let mut fbody = vec![St::Assign("i".into(), v("k"))];
            fbody.extend(a.clone());
            out.push((format!("for{{{an}}}"), vec![St::For("k".into(), l(&u32t, 0), v("n"), fbody)]));
            let mut lbody = vec![St::Expr(Ex::If(Box::new(bin(Op::Eq, v("i"), v("n"))), Box::new(Ex::Block(vec![St::Break(None)], None)), Box::new(Ex::Block(vec![], None)))), St::AssignOp("i".into(), Op::Add, l(&u32t, 1))];
            lbody.extend(a.clone());
            out.push((format!("loop{{{an}}}"), vec![St::Assign("i".into(), l(&u32t, 0)), St::Expr(Ex::Loop(lbody))]));
        }
        // match on a small integer
        for (an, a) in inner_noloop.iter().take(4) {
            for (bn, b) in inner_noloop.iter().skip(1).take(2) {
                out.push((
                    format!("match{{{an}|{bn}}}"),
                    vec![St::Expr(Ex::MatchInt(
                        Box::new(bin(Op::Rem, v("a"), l(&T::U8, 3))),
                        vec![Ex::Block(a.clone(), None), Ex::Block(b.clone(), None)],
                        Box::new(Ex::Block(vec![St::AssignOp("s".into(), Op::Add, l(&u32t, 9))], None)),
                    ))],
                ));
            }
        }
        out
    }
    let depth = tier.pick(2, 2);
    let all = bodies(depth, false, &effects, &conds, tier);
    let mut out = vec![];
    for (k, (name, sts)) in all.into_iter().enumerate() {
        let mut body = vec![
            St::Let("s".into(), true, Some(T::U32), into(v("a"), T::U32)),
            St::Let("n".into(), false, Some(T::U32), into(bin(Op::Rem, v("b"), l(&T::U8, 4)), T::U32)),
            St::Let("i".into(), true, Some(T::U32), l(&T::U32, 0)),
            St::Let("arr".into(), true, None, Ex::ArrLit(T::U32, vec![l(&T::U32, 5)])),
        ];
        body.extend(sts);
        // observable: s, i and the array length
        let tail = bin(Op::Add, bin(Op::Add, v("s"), bin(Op::Mul, v("i"), l(&T::U32, 100000))), bin(Op::Mul, Ex::ArrLen("arr".into()), l(&T::U32, 10000000)));
        out.push(Case {
            name: format!("g2#{k}:{name}"),
            prog: Prog { funcs: vec![Func { name: "f".into(), params: vec![("a".into(), T::U8, false), ("b".into(), T::U8, false)], ret: T::U32, body: blk(body, Some(tail)) }] },
            params: vec![T::U8, T::U8],
            src: None,
        });
    }
    out
}

// ---- G3: data movement ----------------------------------------------------------------------------

fn g3(_tier: Tier) -> Vec<Case> {
    let mut out = vec![];
    let u8t = T::U8;
    // producers of a value of some shape, and consumers that reduce it to a u32
    let a = || v("a");
    let b = || v("b");
    let a32 = || into(v("a"), T::U32);
    let mk_e = || {
        Ex::If(
            Box::new(bin(Op::Lt, a(), b())),
            Box::new(Ex::MkE(0, vec![bin(Op::Sub, b(), a())])),
            Box::new(Ex::If(Box::new(bin(Op::Eq, a(), b())), Box::new(Ex::MkE(2, vec![])), Box::new(Ex::MkE(1, vec![a(), b()])))),
        )
    };
    let mk_opt = || Ex::If(Box::new(bin(Op::Gt, a(), l(&u8t, 100))), Box::new(Ex::NoneOf(T::U8)), Box::new(Ex::SomeOf(Box::new(bin(Op::Add, a(), l(&u8t, 100))))));
    let x = || v("x");
    let y = || v("y");
    let z = || v("z");
    let producers: Vec<(&str, T, Ex)> = vec![
        ("S", T::S, Ex::MkS(Box::new(a()), Box::new(bin(Op::Mul, a32(), l(&T::U32, 3))))),
        ("tuple", T::Tup(vec![T::U8, T::U8]), Ex::Tuple(vec![b(), a()])),
        ("E", T::E, mk_e()),
        ("Opt", T::Opt(Box::new(T::U8)), mk_opt()),
        ("nested", T::Tup(vec![T::S, T::Opt(Box::new(T::U8))]), Ex::Tuple(vec![Ex::MkS(Box::new(b()), Box::new(a32())), mk_opt()])),
        ("N", T::N, Ex::MkN(Box::new(Ex::ArrLit(T::U8, vec![a(), b(), l(&u8t, 7)])), Box::new(bin(Op::Div, a(), l(&u8t, 2))))),
    ];
    let mut n = 0;
    for (pn, pt, pe_) in &producers {
        // consumers: (name, statements using variable `p`, result expression of type u32)
        let consumers: Vec<(&str, Vec<St>, Ex)> = match pt {
            T::S => vec![
                ("field", vec![], bin(Op::Add, into(Ex::Field(Box::new(v("p")), "a"), T::U32), Ex::Field(Box::new(v("p")), "b"))),
                ("destructure", vec![St::LetS("m".into(), "k".into(), v("p"))], bin(Op::Add, into(v("m"), T::U32), v("k"))),
                ("copy-twice", vec![St::Let("q".into(), false, None, v("p"))], bin(Op::Add, Ex::Field(Box::new(v("p")), "b"), Ex::Field(Box::new(v("q")), "b"))),
                ("snap", vec![St::Let("q".into(), false, None, Ex::Snap(Box::new(v("p"))))], bin(Op::Add, Ex::Desnap(Box::new(Ex::Field(Box::new(v("q")), "b"))), Ex::Field(Box::new(v("p")), "b"))),
                ("through-call", vec![], Ex::Call("id_s_b".into(), vec![v("p")])),
            ],
            T::Tup(ts) if ts[0] == T::U8 => vec![
                ("destructure", vec![St::LetTup(vec!["m".into(), "k".into()], v("p"))], bin(Op::Add, into(v("m"), T::U32), bin(Op::Mul, into(v("k"), T::U32), l(&T::U32, 256)))),
                ("swap", vec![St::LetTup(vec!["m".into(), "k".into()], v("p")), St::Let("q".into(), false, None, Ex::Tuple(vec![v("k"), v("m")])), St::LetTup(vec!["m2".into(), "k2".into()], v("q"))], bin(Op::Add, into(v("m2"), T::U32), bin(Op::Mul, into(v("k2"), T::U32), l(&T::U32, 256)))),
            ],
            T::E => vec![
                ("match", vec![], Ex::MatchE(Box::new(v("p")), Box::new(into(x(), T::U32)), Box::new(bin(Op::Add, into(y(), T::U32), bin(Op::Mul, into(z(), T::U32), l(&T::U32, 256)))), Box::new(l(&T::U32, 77777)))),
                ("match-twice", vec![St::Let("q".into(), false, None, v("p"))], bin(Op::Add, Ex::MatchE(Box::new(v("p")), Box::new(into(x(), T::U32)), Box::new(into(y(), T::U32)), Box::new(l(&T::U32, 5))), Ex::MatchE(Box::new(v("q")), Box::new(l(&T::U32, 1000)), Box::new(into(z(), T::U32)), Box::new(l(&T::U32, 3000))))),
                ("through-call", vec![], Ex::Call("e_to_u32".into(), vec![v("p")])),
            ],
            T::Opt(_) => vec![
                ("match", vec![], Ex::MatchOpt(Box::new(v("p")), "w".into(), Box::new(into(v("w"), T::U32)), Box::new(l(&T::U32, 4242)))),
                ("unwrap", vec![], into(Ex::Unwrap(Box::new(v("p"))), T::U32)),
                ("rewrap", vec![St::Let("q".into(), false, None, Ex::MatchOpt(Box::new(v("p")), "w".into(), Box::new(Ex::SomeOf(Box::new(bin(Op::Sub, v("w"), l(&u8t, 1))))), Box::new(Ex::NoneOf(T::U8))))], Ex::MatchOpt(Box::new(v("q")), "w".into(), Box::new(into(v("w"), T::U32)), Box::new(l(&T::U32, 1)))),
            ],
            T::Tup(_) => vec![(
                "destructure-nested",
                vec![St::LetTup(vec!["m".into(), "k".into()], v("p"))],
                bin(Op::Add, Ex::Field(Box::new(v("m")), "b"), Ex::MatchOpt(Box::new(v("k")), "w".into(), Box::new(into(v("w"), T::U32)), Box::new(l(&T::U32, 999)))),
            )],
            T::N => vec![
                ("destructure-move", vec![St::LetN("m".into(), "k".into(), v("p"))], bin(Op::Add, bin(Op::Mul, Ex::ArrLen("m".into()), l(&T::U32, 1000)), bin(Op::Add, into(v("k"), T::U32), into(Ex::ArrAt("m".into(), Box::new(l(&T::U32, 1))), T::U32)))),
                ("move-through-call", vec![], Ex::Call("n_sum".into(), vec![v("p")])),
            ],
            _ => vec![],
        };
        for (cn, sts, res) in consumers {
            let mut body = vec![St::Let("p".into(), false, None, pe_.clone())];
            body.extend(sts);
            let helpers = vec![
                Func { name: "id_s_b".into(), params: vec![("s".into(), T::S, false)], ret: T::U32, body: blk(vec![], Some(Ex::Field(Box::new(v("s")), "b"))) },
                Func {
                    name: "e_to_u32".into(),
                    params: vec![("e".into(), T::E, false)],
                    ret: T::U32,
                    body: blk(vec![], Some(Ex::MatchE(Box::new(v("e")), Box::new(bin(Op::Add, into(x(), T::U32), l(&T::U32, 1))), Box::new(bin(Op::Mul, into(y(), T::U32), into(z(), T::U32))), Box::new(l(&T::U32, 31337))))),
                },
                Func {
                    name: "n_sum".into(),
                    params: vec![("n".into(), T::N, false)],
                    ret: T::U32,
                    body: blk(vec![St::LetN("arr".into(), "k".into(), v("n"))], Some(bin(Op::Add, into(v("k"), T::U32), bin(Op::Add, into(Ex::ArrAt("arr".into(), Box::new(l(&T::U32, 0))), T::U32), into(Ex::ArrAt("arr".into(), Box::new(l(&T::U32, 2))), T::U32))))),
                },
            ];
            let mut funcs = helpers;
            funcs.push(Func { name: "f".into(), params: vec![("a".into(), T::U8, false), ("b".into(), T::U8, false)], ret: T::U32, body: blk(body, Some(res)) });
            out.push(Case { name: format!("g3#{n}:{pn}:{cn}"), prog: Prog { funcs }, params: vec![T::U8, T::U8], src: None });
            n += 1;
        }
    }
    out
}

// ---- G4: collection operation sequences -----------------------------------------------------------

fn g4(tier: Tier) -> Vec<Case> {
    #[derive(Clone)]
    enum Cop {
        Append(i64),
        Pop,
        Get(i64),
        At(i64),
        Len,
        Ins(i64, i64),
        DGet(i64),
    }
    let vals: Vec<i64> = vec![0, 1, 2];
    let mut ops: Vec<(String, Cop)> = vec![("pop".into(), Cop::Pop), ("len".into(), Cop::Len)];
    for x in &vals {
        ops.push((format!("app{x}"), Cop::Append(*x + 10)));
        ops.push((format!("get{x}"), Cop::Get(*x)));
        ops.push((format!("at{x}"), Cop::At(*x)));
        ops.push((format!("dget{x}"), Cop::DGet(*x)));
        for y in [1i64, 2] {
            ops.push((format!("ins{x}={y}"), Cop::Ins(*x, y + 20)));
        }
    }
    let felt = T::Felt;
    let fold = |e: Ex| St::Assign("acc".into(), bin(Op::Add, bin(Op::Mul, v("acc"), l(&felt, 31)), e));
    let to_st = |c: &Cop| -> Vec<St> {
        match c {
            Cop::Append(x) => vec![St::Append("arr".into(), l(&T::U8, *x))],
            Cop::Pop => vec![fold(Ex::MatchOpt(Box::new(Ex::PopFront("arr".into())), "w".into(), Box::new(into(v("w"), T::Felt)), Box::new(l(&felt, 99))))],
            Cop::Get(i) => vec![fold(Ex::MatchOpt(Box::new(Ex::ArrGet("arr".into(), Box::new(l(&T::U32, *i)))), "w".into(), Box::new(into(v("w"), T::Felt)), Box::new(l(&felt, 98))))],
            Cop::At(i) => vec![fold(into(Ex::ArrAt("arr".into(), Box::new(l(&T::U32, *i))), T::Felt))],
            Cop::Len => vec![fold(into(Ex::ArrLen("arr".into()), T::Felt))],
            Cop::Ins(k, x) => vec![St::DictInsert("d".into(), l(&felt, *k), l(&T::U8, *x))],
            Cop::DGet(k) => vec![fold(into(Ex::DictGet("d".into(), Box::new(l(&felt, *k))), T::Felt))],
        }
    };
    let maxlen = tier.pick(2, 3);
    let mut out = vec![];
    let mut seqs: Vec<Vec<usize>> = vec![vec![]];
    for _ in 0..maxlen {
        let mut next = vec![];
        for s in &seqs {
            if s.len() + 1 > maxlen {
                continue;
            }
            for i in 0..ops.len() {
                let mut t = s.clone();
                t.push(i);
                next.push(t);
            }
        }
        for s in &next {
            let mut body = vec![
                St::Let("arr".into(), true, None, Ex::ArrLit(T::U8, vec![l(&T::U8, 5)])),
                St::Let("d".into(), true, Some(T::Dict), Ex::Call("Default::default".into(), vec![])),
                St::Let("acc".into(), true, Some(T::Felt), l(&felt, 1)),
            ];
            for i in s {
                body.extend(to_st(&ops[*i].1));
            }
            let name = s.iter().map(|i| ops[*i].0.clone()).collect::<Vec<_>>().join(",");
            out.push(Case { name: format!("g4:{name}"), prog: Prog { funcs: vec![Func { name: "f".into(), params: vec![], ret: T::Felt, body: blk(body, Some(v("acc"))) }] }, params: vec![], src: None });
        }
        seqs = next;
    }
    out
}

// ---- G5: liveness patterns ------------------------------------------------------------------------

fn g5(_tier: Tier) -> Vec<Case> {
    let mut out = vec![];
    let u32t = T::U32;
    let k = 4usize;
    let defs: Vec<St> = (0..k)
        .map(|i| St::Let(format!("v{i}"), false, Some(T::U32), bin(Op::Add, bin(Op::Mul, into(v(if i % 2 == 0 { "a" } else { "b" }), T::U32), l(&u32t, (i as i64 + 2) * 3)), l(&u32t, i as i64))))
        .collect();
    let helper = Func { name: "g".into(), params: vec![("x".into(), T::U32, false)], ret: T::U32, body: blk(vec![], Some(bin(Op::Add, bin(Op::Div, v("x"), l(&u32t, 2)), l(&u32t, 1)))) };
    let constructs: Vec<(&str, Vec<St>)> = vec![
        ("call", vec![St::Let("r".into(), false, Some(T::U32), Ex::Call("g".into(), vec![bin(Op::Add, v("v0"), v("v1"))]))]),
        (
            "merge",
            vec![St::Let(
                "r".into(),
                false,
                Some(T::U32),
                Ex::If(Box::new(bin(Op::Lt, v("a"), v("b"))), Box::new(blk(vec![], Some(Ex::Call("g".into(), vec![v("v2")])))), Box::new(blk(vec![], Some(bin(Op::Add, v("v3"), l(&u32t, 7)))))),
            )],
        ),
        (
            "loop",
            vec![
                St::Let("r".into(), true, Some(T::U32), l(&u32t, 0)),
                St::Let("i".into(), true, Some(T::U32), l(&u32t, 0)),
                St::While(bin(Op::Ne, v("i"), l(&u32t, 3)), vec![St::AssignOp("i".into(), Op::Add, l(&u32t, 1)), St::Assign("r".into(), bin(Op::Add, Ex::Call("g".into(), vec![v("r")]), v("v0")))]),
            ],
        ),
        ("two-calls", vec![St::Let("r0".into(), false, Some(T::U32), Ex::Call("g".into(), vec![v("v0")])), St::Let("r".into(), false, Some(T::U32), Ex::Call("g".into(), vec![bin(Op::Add, v("r0"), v("v1"))]))]),
    ];
    for (cn, csts) in &constructs {
        for mask in 0..(1u32 << k) {
            let mut body = defs.clone();
            body.extend(csts.clone());
            let mut tail = v("r");
            for i in 0..k {
                if mask & (1 << i) != 0 {
                    tail = bin(Op::Add, bin(Op::Mul, tail, l(&u32t, 3)), v(&format!("v{i}")));
                }
            }
            out.push(Case {
                name: format!("g5:{cn}:live={mask:04b}"),
                prog: Prog { funcs: vec![helper.clone(), Func { name: "f".into(), params: vec![("a".into(), T::U8, false), ("b".into(), T::U8, false)], ret: T::U32, body: blk(body, Some(tail)) }] },
                params: vec![T::U8, T::U8],
                src: None,
            });
        }
    }
    out
}

// ---- G6: member routing ---------------------------------------------------------------------------
// An aggregate is taken apart and an aggregate of the same type is rebuilt from the parts: every routing
// map positions -> source members (n^n maps for arity n, so all permutations and all duplications), in every
// context an optimisation could mistake for the identity: directly, behind one and two calls, in one arm of a
// branch whose other arm is the identity, nested, and through a struct with differently typed members.

fn g6(tier: Tier) -> Vec<Case> {
    let mut out = vec![];
    let names = ["x", "y", "z"];
    for n in [2usize, 3] {
        let ty = T::Tup(vec![T::U8; n]);
        let members = |third: Ex| -> Vec<Ex> { if n == 2 { vec![v("a"), v("b")] } else { vec![v("a"), v("b"), third] } };
        let total = n.pow(n as u32);
        for code in 0..total {
            let route: Vec<usize> = (0..n).map(|i| (code / n.pow(i as u32)) % n).collect();
            let rebuilt = || Ex::Tuple(route.iter().map(|r| v(names[*r])).collect());
            let identity = || Ex::Tuple((0..n).map(|r| v(names[r])).collect());
            let pat: Vec<String> = (0..n).map(|i| names[i].to_string()).collect();
            let third = || bin(Op::BitXor, v("a"), l(&T::U8, 85));
            let h = Func { name: "h".into(), params: vec![("p".into(), ty.clone(), false)], ret: ty.clone(), body: blk(vec![St::LetTup(pat.clone(), v("p"))], Some(rebuilt())) };
            let f = |body: Ex, ret: T| Func { name: "f".into(), params: vec![("a".into(), T::U8, false), ("b".into(), T::U8, false)], ret, body };
            let mk = || Ex::Tuple(members(third()));
            let rs = route.iter().map(|r| r.to_string()).collect::<String>();
            let mut contexts: Vec<(&str, Vec<Func>)> = vec![
                ("direct", vec![f(blk(vec![St::Let("p".into(), false, None, mk()), St::LetTup(pat.clone(), v("p"))], Some(rebuilt())), ty.clone())]),
                ("call", vec![h.clone(), f(blk(vec![], Some(Ex::Call("h".into(), vec![mk()]))), ty.clone())]),
                ("call-call", vec![h.clone(), f(blk(vec![], Some(Ex::Call("h".into(), vec![Ex::Call("h".into(), vec![mk()])]))), ty.clone())]),
                (
                    "branch",
                    vec![f(
                        blk(vec![St::Let("p".into(), false, None, mk()), St::LetTup(pat.clone(), v("p"))], Some(Ex::If(Box::new(bin(Op::Lt, v("a"), v("b"))), Box::new(blk(vec![], Some(rebuilt()))), Box::new(blk(vec![], Some(identity())))))),
                        ty.clone(),
                    )],
                ),
            ];
            if n == 2 || tier == Tier::Thorough {
                // nested: the routed aggregate is a member of an outer one that is rebuilt in place
                let outer = T::Tup(vec![ty.clone(), T::U8]);
                contexts.push((
                    "nested",
                    vec![f(
                        blk(
                            vec![St::Let("q".into(), false, None, Ex::Tuple(vec![mk(), v("b")])), St::LetTup(vec!["p".into(), "w".into()], v("q")), St::LetTup(pat.clone(), v("p"))],
                            Some(Ex::Tuple(vec![rebuilt(), v("w")])),
                        ),
                        outer,
                    )],
                ));
            }
            if n == 3 && tier == Tier::Quick {
                contexts.truncate(2);
            }
            for (cn, funcs) in contexts {
                out.push(Case { name: format!("g6:tuple{n}:{cn}:route={rs}"), prog: Prog { funcs }, params: vec![T::U8, T::U8], src: None });
            }
        }
    }
    // struct with differently typed members: rebuilt from its own fields, from swapped-and-converted fields,
    // and through a call (the only type-correct routings)
    let s_of = |a: Ex, b: Ex| Ex::MkS(Box::new(a), Box::new(b));
    let mk_s = || s_of(v("a"), into(v("b"), T::U32));
    let bodies: Vec<(&str, Ex)> = vec![
        ("identity", s_of(v("m"), v("k"))),
        ("fresh-a", s_of(v("b"), v("k"))),
        ("fresh-b", s_of(v("m"), into(v("m"), T::U32))),
        ("crossed", s_of(Ex::TryInto(Box::new(v("k")), T::U8), into(v("m"), T::U32))),
    ];
    for (bn, e) in bodies {
        let f = Func { name: "f".into(), params: vec![("a".into(), T::U8, false), ("b".into(), T::U8, false)], ret: T::S, body: blk(vec![St::Let("p".into(), false, None, mk_s()), St::LetS("m".into(), "k".into(), v("p"))], Some(e)) };
        out.push(Case { name: format!("g6:struct:{bn}"), prog: Prog { funcs: vec![f] }, params: vec![T::U8, T::U8], src: None });
    }
    out
}

// ---- G8: operator precedence and associativity -------------------------------------------------------
// Every other family prints each binary subexpression in parentheses, so how the parser groups operators is
// never exercised.  Here expressions are printed FLAT; the tree the source denotes is built by a precedence
// climber written from the language reference (unary > * / % > + - > & > ^ > | > comparisons > && > ||, binary
// operators left-associative) and evaluated by the reference evaluator.

fn prec(op: Op) -> u8 {
    match op {
        Op::Mul | Op::Div | Op::Rem => 10,
        Op::Add | Op::Sub => 9,
        Op::BitAnd => 8,
        Op::BitXor => 7,
        Op::BitOr => 6,
        Op::Lt | Op::Le | Op::Gt | Op::Ge | Op::Eq | Op::Ne => 5,
        Op::And => 4,
        Op::Or => 3,
    }
}

/// Builds the tree of `operands[0] ops[0] operands[1] ...` (precedence climbing, left-associative).
fn climb(operands: &[Ex], ops: &[Op]) -> Ex {
    fn go(operands: &[Ex], ops: &[Op], pos: &mut usize, min_prec: u8) -> Ex {
        let mut lhs = operands[*pos].clone();
        while *pos < ops.len() && prec(ops[*pos]) >= min_prec {
            let op = ops[*pos];
            *pos += 1;
            let rhs = go(operands, ops, pos, prec(op) + 1);
            lhs = bin(op, lhs, rhs);
        }
        lhs
    }
    let mut pos = 0;
    go(operands, ops, &mut pos, 0)
}

fn flat(operand_texts: &[String], ops: &[Op]) -> String {
    let mut s = operand_texts[0].clone();
    for (i, op) in ops.iter().enumerate() {
        s.push_str(&format!(" {} {}", op.sym(), operand_texts[i + 1]));
    }
    s
}

fn g8(tier: Tier) -> Vec<Case> {
    let mut out = vec![];
    let int_ops = [Op::Add, Op::Sub, Op::Mul, Op::Div, Op::Rem, Op::BitAnd, Op::BitOr, Op::BitXor];
    let cmp_ops = [Op::Lt, Op::Le, Op::Gt, Op::Ge, Op::Eq, Op::Ne];
    let bool_ops = [Op::And, Op::Or, Op::BitAnd, Op::BitOr, Op::BitXor];
    let u8t = T::U8;
    let mk = |name: String, ret: T, lets: Vec<St>, lets_text: &str, tree: Ex, text: String| {
        let prog = Prog { funcs: vec![Func { name: "f".into(), params: vec![("a".into(), T::U8, false), ("b".into(), T::U8, false)], ret: ret.clone(), body: blk(lets, Some(tree)) }] };
        // the printed program: the fully parenthesised one with the body replaced by the flat text
        let header = pprog(&Prog { funcs: vec![] });
        let src = format!("{header}fn f(a: u8, b: u8) -> {} {{ {lets_text}{text} }}\n", ret.name());
        Case { name, prog, params: vec![T::U8, T::U8], src: Some(src) }
    };
    let ints = |k: usize| -> (Vec<Ex>, Vec<String>) {
        let pool: Vec<(Ex, String)> = vec![(v("a"), "a".into()), (v("b"), "b".into()), (l(&u8t, 6), "6_u8".into()), (l(&u8t, 3), "3_u8".into())];
        (pool.iter().take(k).map(|p| p.0.clone()).collect(), pool.iter().take(k).map(|p| p.1.clone()).collect())
    };
    // two and three integer operators
    for o1 in int_ops {
        for o2 in int_ops {
            let (es, ts) = ints(3);
            out.push(mk(format!("g8:int2:{}{}", o1.sym(), o2.sym()), T::U8, vec![], "", climb(&es, &[o1, o2]), flat(&ts, &[o1, o2])));
            if tier == Tier::Thorough {
                for o3 in int_ops {
                    let (es, ts) = ints(4);
                    out.push(mk(format!("g8:int3:{}{}{}", o1.sym(), o2.sym(), o3.sym()), T::U8, vec![], "", climb(&es, &[o1, o2, o3]), flat(&ts, &[o1, o2, o3])));
                }
            }
        }
    }
    // an integer operator on either side of a comparison
    for o in int_ops {
        for c in cmp_ops {
            let (es, ts) = ints(3);
            out.push(mk(format!("g8:int-cmp:{}{}", o.sym(), c.sym()), T::Bool, vec![], "", climb(&es, &[o, c]), flat(&ts, &[o, c])));
            out.push(mk(format!("g8:cmp-int:{}{}", c.sym(), o.sym()), T::Bool, vec![], "", climb(&es, &[c, o]), flat(&ts, &[c, o])));
        }
    }
    // boolean operators over p, q, r (and negations), and comparisons joined by logical operators
    let lets = || vec![St::Let("p".into(), false, None, bin(Op::Lt, v("a"), v("b"))), St::Let("q".into(), false, None, bin(Op::Eq, v("a"), l(&u8t, 2))), St::Let("r".into(), false, None, bin(Op::Gt, v("b"), l(&u8t, 100)))];
    let lets_text = "let p = a < b; let q = a == 2_u8; let r = b > 100_u8; ";
    for o1 in bool_ops {
        for o2 in bool_ops {
            let es = vec![v("p"), v("q"), v("r")];
            let ts = vec!["p".to_string(), "q".into(), "r".into()];
            out.push(mk(format!("g8:bool2:{}{}", o1.sym(), o2.sym()), T::Bool, lets(), lets_text, climb(&es, &[o1, o2]), flat(&ts, &[o1, o2])));
            let es = vec![Ex::Not(Box::new(v("p"))), v("q"), Ex::Not(Box::new(v("r")))];
            let ts = vec!["!p".to_string(), "q".into(), "!r".into()];
            out.push(mk(format!("g8:bool2-not:{}{}", o1.sym(), o2.sym()), T::Bool, lets(), lets_text, climb(&es, &[o1, o2]), flat(&ts, &[o1, o2])));
        }
        // equality of booleans next to a boolean operator
        for e in [Op::Eq, Op::Ne] {
            let es = vec![v("p"), v("q"), v("r")];
            let ts = vec!["p".to_string(), "q".into(), "r".into()];
            out.push(mk(format!("g8:bool-eq:{}{}", o1.sym(), e.sym()), T::Bool, lets(), lets_text, climb(&es, &[o1, e]), flat(&ts, &[o1, e])));
            out.push(mk(format!("g8:eq-bool:{}{}", e.sym(), o1.sym()), T::Bool, lets(), lets_text, climb(&es, &[e, o1]), flat(&ts, &[e, o1])));
        }
    }
    for c1 in cmp_ops {
        for lg in [Op::And, Op::Or] {
            for c2 in [Op::Lt, Op::Eq, Op::Ge] {
                let es = vec![v("a"), v("b"), v("b"), l(&u8t, 6)];
                let ts = vec!["a".to_string(), "b".into(), "b".into(), "6_u8".into()];
                out.push(mk(format!("g8:cmp-logic-cmp:{}{}{}", c1.sym(), lg.sym(), c2.sym()), T::Bool, vec![], "", climb(&es, &[c1, lg, c2]), flat(&ts, &[c1, lg, c2])));
            }
        }
    }
    // a bitwise operator next to an equality (`a & b == 6` is `(a & b) == 6`)
    for o in [Op::BitAnd, Op::BitOr, Op::BitXor] {
        for e in [Op::Eq, Op::Ne, Op::Lt] {
            let (es, ts) = ints(3);
            out.push(mk(format!("g8:bit-eq:{}{}", o.sym(), e.sym()), T::Bool, vec![], "", climb(&es, &[o, e]), flat(&ts, &[o, e])));
        }
    }
    out
}

// ---- G9: the same expressions as `const` items (evaluated by the compiler, not by the program) --------

fn subst(e: &Ex, a: &str, b: &str) -> Ex {
    match e {
        Ex::Var(n) if n == "a" => Ex::Var(a.into()),
        Ex::Var(n) if n == "b" => Ex::Var(b.into()),
        Ex::Bin(op, x, y) => Ex::Bin(*op, Box::new(subst(x, a, b)), Box::new(subst(y, a, b))),
        Ex::Neg(x) => Ex::Neg(Box::new(subst(x, a, b))),
        other => other.clone(),
    }
}

/// For every G1 arithmetic expression: all operand pairs of B(T) x B(T) for which the reference evaluator
/// yields a value become `const A_i, B_i` and `const C_i: T = e[A_i, B_i]`; `f()` returns the tuple of the
/// `C_i` of one first operand. The value a `const` item denotes is the value of its expression: the
/// reference program evaluates the same expressions at "run time".
fn g9(tier: Tier) -> Vec<Case> {
    let mut out = vec![];
    for (k, case) in g1(tier).into_iter().enumerate() {
        // quick: the depth-1 expressions; thorough: those and every 10th depth-2 expression
        if case.name.contains(":logic#") || (!case.name.contains(":d1#") && (tier == Tier::Quick || k % 10 != 0)) {
            continue;
        }
        let t = case.params[0].clone();
        let Ex::Block(_, Some(e)) = &case.prog.funcs[0].body else { continue };
        let d = dom(&t);
        // thorough: one program per first operand; quick: first operands {MIN-ish, middle, MAX-ish}
        let firsts: Vec<&BigInt> = if tier == Tier::Quick { vec![&d[0], &d[d.len() / 2], &d[d.len() - 1]] } else { d.iter().collect() };
        for (ai, va) in firsts.into_iter().enumerate() {
            let mut consts = String::new();
            let mut names = vec![];
            let mut ref_elems = vec![];
            for (bi, vb) in d.iter().enumerate() {
                let mut ev = Evaluator { prog: &case.prog, steps: 0, max_steps: 10_000 };
                if ev.call("f", vec![to_v(&t, va), to_v(&t, vb)]).is_err() {
                    // a panicking expression must be refused at compile time: C07 judges that
                    continue;
                }
                let (an, bn, cn) = (format!("A{bi}"), format!("B{bi}"), format!("C{bi}"));
                let tn = t.name();
                consts.push_str(&format!("const {an}: {tn} = {};\nconst {bn}: {tn} = {};\nconst {cn}: {tn} = {};\n", pe(&Ex::Lit(t.clone(), va.clone())), pe(&Ex::Lit(t.clone(), vb.clone())), pe(&subst(e, &an, &bn))));
                names.push(cn);
                ref_elems.push(blk(vec![St::Let("a".into(), false, None, Ex::Lit(t.clone(), va.clone())), St::Let("b".into(), false, None, Ex::Lit(t.clone(), vb.clone()))], Some((**e).clone())));
            }
            if names.is_empty() {
                continue;
            }
            let ret = T::Tup(vec![t.clone(); names.len()]);
            let tuple_text = if names.len() == 1 { format!("({},)", names[0]) } else { format!("({})", names.join(", ")) };
            let src = format!("{consts}fn f() -> {} {{ {tuple_text} }}\n", ret.name());
            out.push(Case {
                name: format!("g9:{}#{ai}", case.name),
                prog: Prog { funcs: vec![Func { name: "f".into(), params: vec![], ret, body: blk(vec![], Some(Ex::Tuple(ref_elems))) }] },
                params: vec![],
                src: Some(src),
            });
        }
    }
    out
}

pub fn all_cases(tier: Tier) -> Vec<Case> {
    // smallest and most recently added families first: a capped run still covers them
    let mut v = vec![];
    v.extend(g8(tier));
    v.extend(g9(tier));
    v.extend(g6(tier));
    v.extend(g3(tier));
    v.extend(g5(tier));
    v.extend(g4(tier));
    // quick: every second program of the two big families (thorough: all)
    let stride = tier.pick(2, 1);
    v.extend(g2(tier).into_iter().step_by(stride));
    v.extend(g1(tier).into_iter().step_by(stride));
    v
}

fn to_v(t: &T, x: &BigInt) -> V {
    match t {
        T::Bool => V::Bool(!num_traits::Zero::is_zero(x)),
        _ => V::Int(t.clone(), x.clone()),
    }
}

fn run_all(ctx: &mut Ctx) {
    let tier = ctx.tier;
    let cases = all_cases(tier);
    let cfgs = [Cfg::DEFAULT, Cfg::BASELINE];
    let mut dbs = Dbs::default();
    for case in &cases {
        ctx.case(
            || json!({"space": "minicairo", "program": case.name}),
            |ctx| {
                let src = case.source();
                ctx.count("programs", 1);
                ctx.distinct(&src);
                ctx.sample(|| json!({"program": case.name, "source": src}));
                let doms: Vec<Vec<BigInt>> = case.params.iter().map(dom).collect();
                let mut inputs: Vec<Vec<BigInt>> = vec![];
                if doms.is_empty() {
                    inputs.push(vec![]);
                } else {
                    cross(&doms, |x| inputs.push(x.to_vec()));
                }
                // reference results
                let expected: Vec<Result<Vec<BigInt>, Vec<BigInt>>> = inputs
                    .iter()
                    .map(|inp| {
                        let mut ev = Evaluator { prog: &case.prog, steps: 0, max_steps: 200_000 };
                        let args = inp.iter().zip(&case.params).map(|(x, t)| to_v(t, x)).collect();
                        match ev.call("f", args) {
                            Ok(v) => {
                                let mut out = vec![];
                                flatten(&v, &mut out);
                                Ok(out)
                            }
                            Err(Flow::Panic(d)) => Err(d),
                            Err(_) => panic!("harness: stray control flow"),
                        }
                    })
                    .collect();
                for cfg in &cfgs {
                    let prog = match guarded(|| dbs.compile(cfg, &src)) {
                        Ok(Ok(p)) => p,
                        Ok(Err(e)) => {
                            ctx.violation(
                                "well-typed-program-rejected",
                                format!("a MiniCairo program (well-typed by construction) does not compile under {}: {}", cfg.name(), e.chars().take(300).collect::<String>()),
                                json!({"program": case.name, "cfg": cfg.name(), "source": src}),
                            );
                            return;
                        }
                        Err((loc, msg)) => {
                            dbs.forget(cfg);
                            ctx.violation(crate::core::panic_sig(&loc, &msg), format!("compiler panicked at {loc}: {msg}"), json!({"program": case.name, "cfg": cfg.name(), "source": src}));
                            return;
                        }
                    };
                    let Ok(c) = make_runner(prog, cfg) else {
                        ctx.violation("sierra-to-casm-rejected", "the generated Sierra does not compile to CASM", json!({"program": case.name, "cfg": cfg.name(), "source": src}));
                        return;
                    };
                    let Some(f) = c.program.funcs.iter().find(|f| fname(f) == "test::f") else { return };
                    for (inp, exp) in inputs.iter().zip(&expected) {
                        let desc = || json!({"program": case.name, "cfg": cfg.name(), "args": inp.iter().map(|x| x.to_string()).collect::<Vec<_>>(), "source": src});
                        if !ctx.sub(desc) {
                            continue;
                        }
                        ctx.count("evaluations", 1);
                        let args: Vec<Arg> = inp.iter().map(|x| Arg::Value(to_felt(x))).collect();
                        let got = match guarded(|| run(&c, f, &args, Some(100_000_000))) {
                            Ok((Outcome::Value(v, _), _)) => v,
                            Ok((Outcome::VmError(e), _)) => {
                                ctx.count("vm_errors_left_to_C02", 1);
                                let _ = e;
                                continue;
                            }
                            _ => continue,
                        };
                        let ok = match (&got, exp) {
                            (RunResultValue::Success(g), Ok(e)) => g.len() == e.len() && g.iter().zip(e).all(|(x, y)| *x == to_felt(y)),
                            (RunResultValue::Panic(g), Err(e)) => g.len() == e.len() && g.iter().zip(e).all(|(x, y)| *x == to_felt(y)),
                            _ => false,
                        };
                        ctx.outcome(match &got {
                            RunResultValue::Success(_) => "success",
                            RunResultValue::Panic(_) => "panic",
                        });
                        if !ok {
                            let fam = case.name.split([':', '#']).next().unwrap_or("").to_string();
                            let kind = match (&got, exp) {
                                (RunResultValue::Success(_), Ok(_)) => "wrong-value",
                                (RunResultValue::Panic(_), Err(_)) => "wrong-panic-data",
                                (RunResultValue::Panic(_), Ok(_)) => "panics-but-should-return",
                                _ => "returns-but-should-panic",
                            };
                            let exp_s = match exp {
                                Ok(e) => format!("success {:?}", e.iter().map(|x| x.to_string()).collect::<Vec<_>>()),
                                Err(e) => format!("panic {:?}", e.iter().map(|x| x.to_string()).collect::<Vec<_>>()),
                            };
                            ctx.violation(format!("{kind}:{fam}"), format!("compiled program yields {} but the source means {exp_s}", value_json(&got)), desc());
                        }
                    }
                }
            },
        );
    }
}

fn run_all_and_probes(ctx: &mut Ctx) {
    crate::c01probes::run_probes(ctx);
    run_all(ctx);
}

pub static C01: CheckDef = CheckDef {
    id: "C01",
    level: "exploration",
    rule: "MiniCairo families, each enumerated completely up to its bound (quick runs every second program of G1 and G2): G1 expression trees of depth <=2 over + - * / % on u8, i8, felt252 (thorough adds u32, u128) with leaves {a, b, literals}, plus comparison/short-circuit guards of a panicking operand (evaluation order is observable through which panic fires); G2 control skeletons: nestings of depth <=2 of if / match-on-integer / while / for / loop-with-break with a 4-condition menu and a 6-effect menu (accumulate, mix, array append, early return, panic, checked subtract) plus break/continue; G3 data movement: 6 producers (struct, tuple, enum, Option, nested tuple, non-copy struct with an array) x consumers (field access, destructuring, copy, snapshot/desnap, match, unwrap, through a call); G4 every sequence of length <=2 (thorough <=3) over 23 array/dict operations (append v, pop_front, get i, at i, len, dict insert k v, dict get k; v,k,i in {0,1,2}); G5 every subset of 4 variables live across a call / a branch merge / a loop back-edge / two calls; G6 member routing: a tuple of arity 2 / 3 is destructured and a tuple of the same type rebuilt from the parts under every routing map positions->members (4 / 27 maps: all permutations and duplications) in the contexts direct, behind one call, behind two calls, one arm of a branch whose other arm is the identity, nested in an outer tuple, plus the type-correct routings of a struct with differently typed members. G8 operator precedence and associativity: expressions printed WITHOUT parentheses - every pair (thorough: triple) of integer operators, an integer operator on either side of each comparison, every pair of boolean operators over plain and negated operands, equalities next to boolean / bitwise operators, comparisons joined by && / || - whose denoted tree is built by a precedence climber written from the language reference; G9 const items: every G1 arithmetic expression (quick: depth 1; thorough: plus every 10th of depth 2) with both operands replaced by `const` items over B(T) x B(T) for which the reference yields a value, read back through `const C_i: T = e[A_i, B_i]; fn f() -> (T, ...) { (C_0, C_1, ...) }` (pairs on which the reference panics must be compile errors: judged by C07); G7 25 feature probes outside the MiniCairo AST with hand-derived closed forms (derived PartialEq/Serde/Default/Clone, closures, if-let/while-let/let-else, ref parameters and member assignment, Option/Result combinators and `?`, evaluation order of arguments/tuple/struct members, loops with break values and continue, nested matches, shadowing/snapshots, trait dispatch with default methods, assertion panic data, ByteArray, early returns, generics, dict last-write-wins, spans, nested destructuring, compound assignment). Each program is compiled with the default configuration and with optimisations disabled and run on the full cross product of B(T) (u8: {0,1,2,127,128,254,255}; i8: {-128,-127,-1,0,1,126,127}; felt252: {0,1,2,-1,-2,2^128}). Oracle: result felts == reference evaluator's value, or panic data == the evaluator's panic data, exactly. distinct_nontrivial = distinct program texts.",
    assumptions: &["the reference evaluator (mini.rs) is the specification for the modelled subset: checked integer arithmetic with the corelib panic strings, left-to-right evaluation, short-circuit && ||, truncating signed division", "programs outside MiniCairo are only covered differentially (C05)"],
    run: run_all_and_probes,
    stack_mb: 32,
    item_timeout_s: 300,
    wall_cap_s: (55, 1700),
    shards: 0,
};
