//! Hand-written and generated Cairo programs that extend the e2e corpus: loops, recursion, locals kept
//! across calls and branch merges, dictionaries, arrays, enums, early returns, panics.

use crate::core::Tier;

pub const EXTRA: &[(&str, &str)] = &[
    ("loop_sum", "fn f(n: u8) -> u32 { let mut i: u32 = 0; let mut s: u32 = 0; let n: u32 = n.into() % 6; while i != n { s += i * 3 + 1; i += 1; } s }\n"),
    ("fib_rec", "fn fib(n: u32) -> felt252 { if n < 2 { n.into() } else { fib(n - 1) + fib(n - 2) } }\nfn f(n: u8) -> felt252 { fib((n % 8).into()) }\n"),
    ("locals_across_call", "fn g(x: u8) -> u8 { x / 2 }\nfn f(a: u8, b: u8) -> u8 { let c = a / 3; let d = g(b); let e = g(a); let h = c + d; if h > 10 { h - e } else { h + e / 2 } }\n"),
    ("dict_ops", "fn f(a: u8, b: u8) -> u8 { let mut d: Felt252Dict<u8> = Default::default(); d.insert(a.into(), b); d.insert(b.into(), a); let x = d.get(a.into()); let y = d.get(7); d.insert(a.into(), x / 2); d.get(a.into()) + y }\n"),
    ("array_ops", "fn f(a: u8, b: u8) -> u8 { let mut arr = array![a, b, 3]; let x = arr.pop_front().unwrap(); arr.append(x); let l: u8 = arr.len().try_into().unwrap(); *arr.at((b % 4).into()) + l }\n"),
    ("enum_match", "#[derive(Drop, Copy)]\nenum E { A: u8, B: (u8, u8), C }\nfn mk(a: u8, b: u8) -> E { if a < b { E::A(b - a) } else if a == b { E::C } else { E::B((a, b)) } }\nfn f(a: u8, b: u8) -> u8 { match mk(a, b) { E::A(x) => x, E::B((x, y)) => x / 2 + y / 2, E::C => 77 } }\n"),
    ("early_return", "fn f(a: u8, b: u8) -> u8 { if a == 0 { return b; } let mut i = 0_u8; loop { if i == 5 { break; } if i == b % 7 { return i + a / 2; } i += 1; }; a / 2 }\n"),
    ("panic_paths", "fn f(a: u8, b: u8) -> u8 { assert(a != 255, 'a is max'); let c = a + 1; if b == 0 { panic_with_felt252('b zero') } c / b }\n"),
    ("option_chain", "fn g(a: u8) -> Option<u8> { if a > 100 { None } else { Some(a * 2) } }\nfn f(a: u8, b: u8) -> u8 { let x = g(a); let y = g(b); match (x, y) { (Some(p), Some(q)) => p / 2 + q / 2, (Some(p), None) => p, (None, Some(q)) => q, (None, None) => 0 } }\n"),
    ("struct_move", "#[derive(Drop)]\nstruct S { a: u8, b: Array<u8>, c: u16 }\nfn mk(a: u8) -> S { S { a, b: array![a, 1], c: a.into() * 2 } }\nfn f(a: u8) -> u16 { let s = mk(a); let S { a: x, b: arr, c: z } = s; let l: u16 = arr.len().try_into().unwrap(); z + x.into() + l }\n"),
    ("snapshots", "fn sum(s: @Array<u8>) -> u16 { let mut t: u16 = 0; let mut i = 0; while i != s.len() { t += (*s.at(i)).into(); i += 1; } t }\nfn f(a: u8, b: u8) -> u16 { let arr = array![a, b, a]; let x = sum(@arr); let y = sum(@arr); x + y + arr.len().try_into().unwrap() }\n"),
    ("nested_loops", "fn f(a: u8) -> u32 { let n: u32 = (a % 4).into(); let mut t: u32 = 0; let mut i: u32 = 0; while i != n { let mut j: u32 = 0; while j != i + 1 { t += i * j + 1; j += 1; } i += 1; } t }\n"),
    ("u256_ops", "fn f(a: u128, b: u128) -> u256 { let x = u256 { low: a, high: 1 }; let y = u256 { low: b, high: 0 }; if y == 0 { x } else { x / y + x % y } }\n"),
    ("signed_ops", "fn f(a: i8, b: i8) -> i16 { let x: i16 = a.into(); let y: i16 = b.into(); let m = x * y; if m < 0 { m - x } else { m + y } }\n"),
    ("felt_ops", "fn f(a: felt252, b: felt252) -> felt252 { let c = a * b + 3; let d = c - a; if d == 0 { b } else { d * d } }\n"),
    ("match_int", "fn f(a: u8) -> u8 { match a % 6 { 0 => 10, 1 => 20, 2 => 30, 3 => 40, _ => 50 } }\n"),
    ("for_span", "fn f(a: u8, b: u8) -> u16 { let arr = array![a, b, 1, 2]; let mut t: u16 = 0; for x in arr.span() { t += (*x).into(); } t }\n"),
    ("byte_array", "fn f(a: u8) -> u32 { let mut s: ByteArray = \"ab\"; s.append_byte(a); s.append_word('xyz', 3); s.len() }\n"),
    ("box_nullable", "fn f(a: u8, b: u8) -> u8 { let x = BoxTrait::new((a, b)); let (p, q) = x.unbox(); let n: Nullable<u8> = NullableTrait::new(p); match core::nullable::match_nullable(n) { core::nullable::FromNullableResult::Null => q, core::nullable::FromNullableResult::NotNull(v) => v.unbox() / 2 + q / 2 } }\n"),
    ("gas_rec", "fn g(n: u32, acc: felt252) -> felt252 { if n == 0 { acc } else { g(n - 1, acc + n.into()) } }\nfn f(a: u8) -> felt252 { g((a % 16).into(), 0) }\n"),
    ("poseidon_pedersen", "fn f(a: felt252, b: felt252) -> felt252 { let h = core::pedersen::pedersen(a, b); let (x, _, _) = core::poseidon::hades_permutation(h, a, b); x }\n"),
    ("bitwise", "fn f(a: u32, b: u32) -> u32 { (a & b) | (a ^ 0xff) }\n"),
    ("closure", "fn f(a: u8, b: u8) -> u8 { let g = |x: u8| x / 2 + b / 2; g(a) / 2 + g(b) / 2 }\n"),
    ("circuit_inverse_loop", "use core::circuit::{AddInputResultTrait, CircuitElement, CircuitInput, CircuitInputs, CircuitModulus, EvalCircuitTrait, circuit_inverse, circuit_mul, circuit_add, u96};\nfn f(values: Array<u96>) -> felt252 { let mut count = 0; for v in values { let in0 = CircuitElement::<CircuitInput<0>> {}; let inv = circuit_inverse(in0); let modulus = TryInto::<_, CircuitModulus>::try_into([7, 0, 0, 0]).unwrap(); match (inv,).new_inputs().next([v, 0, 0, 0]).done().eval(modulus) { Ok(_) => { count += 1; }, Err(_) => {}, } } count }\n"),
    ("circuit_mixed", "use core::circuit::{AddInputResultTrait, CircuitElement, CircuitInput, CircuitInputs, CircuitModulus, EvalCircuitTrait, CircuitOutputsTrait, circuit_inverse, circuit_mul, circuit_add, circuit_sub, u96, u384};\nfn f(a: u96, b: u96) -> felt252 { let in0 = CircuitElement::<CircuitInput<0>> {}; let in1 = CircuitElement::<CircuitInput<1>> {}; let s = circuit_add(in0, in1); let m = circuit_mul(s, in1); let d = circuit_sub(m, in0); let i = circuit_inverse(d); let modulus = TryInto::<_, CircuitModulus>::try_into([11, 0, 0, 0]).unwrap(); match (i, m).new_inputs().next([a, 0, 0, 0]).next([b, 0, 0, 0]).done().eval(modulus) { Ok(outs) => { let r: u384 = outs.get_output(i); r.limb0.into() }, Err(_) => 99, } }\n"),
    ("circuit_inverse_first", "use core::circuit::{AddInputResultTrait, CircuitElement, CircuitInput, CircuitInputs, CircuitModulus, EvalCircuitTrait, circuit_inverse, circuit_mul, u96};\nfn f(a: u96, b: u96) -> felt252 { let in0 = CircuitElement::<CircuitInput<0>> {}; let in1 = CircuitElement::<CircuitInput<1>> {}; let i = circuit_inverse(in0); let m = circuit_mul(i, in1); let m2 = circuit_mul(m, m); let modulus = TryInto::<_, CircuitModulus>::try_into([6, 0, 0, 0]).unwrap(); let mut t = 0; let mut k: u8 = 0; while k != 2 { k += 1; match (m2,).new_inputs().next([a, 0, 0, 0]).next([b, 0, 0, 0]).done().eval(modulus) { Ok(_) => { t += 10; }, Err(_) => { t += 1; }, } } t }\n"),
    ("dict_big_keys", "fn f(a: felt252, b: felt252) -> u8 { let mut d: Felt252Dict<u8> = Default::default(); d.insert(a, 1); d.insert(b, 2); d.insert(a, 3); let x = d.get(a) + d.get(b) + d.get(0); d.insert(b + 1, x); d.get(b + 1) }\n"),
    ("dict_entry_api", "use core::dict::Felt252DictEntryTrait;\nfn f(a: felt252, b: u8) -> u8 { let mut d: Felt252Dict<u8> = Default::default(); let (e, prev) = d.entry(a); let mut d = e.finalize(prev + b / 2); let (e, prev) = d.entry(a); let mut d = e.finalize(prev / 2 + 1); let sq = d.squash(); let mut d2 = core::dict::SquashedFelt252DictTrait::into_entries(sq); match d2.pop_front() { Some((_k, first, last)) => first + last, None => 0 } }\n"),
    ("span_slices", "fn f(a: u8, b: u8) -> u32 { let arr = array![10_u32, 20, 30, 40]; let sp = arr.span(); let s: usize = (a % 6).into(); let l: usize = (b % 6).into(); if s + l > sp.len() { return 999; } let sl = sp.slice(s, l); let mut t = sl.len(); match sl.get(0) { Some(x) => { t += *x.unbox(); }, None => {} } t }\n"),
    ("span_pops", "fn f(a: u8) -> u32 { let arr = array![1_u32, 2, 3]; let mut sp = arr.span(); let mut t = 0_u32; let mut i = 0_u8; while i != a % 5 { i += 1; match sp.pop_back() { Some(x) => { t += *x; }, None => { t += 100; } } match sp.pop_front() { Some(x) => { t += *x * 10; }, None => { t += 1000; } } } t + sp.len() }\n"),
    ("multi_pop", "fn f(a: u8) -> u32 { let arr = array![1_u32, 2, 3, 4, 5]; let mut sp = arr.span(); let mut t = 0_u32; let mut i = 0_u8; while i != a % 4 { i += 1; match sp.multi_pop_front::<2>() { Some(x) => { let [p, q] = (*x).unbox(); t += p + q; }, None => { t += 100; } } } match sp.multi_pop_back::<3>() { Some(x) => { let [p, _q, r] = (*x).unbox(); t += p * r; }, None => { t += 7; } } t }\n"),
    ("qm31_const_ops", "#[feature(\"bounded-int-utils\")]\nuse core::internal::bounded_int::upcast;\nuse core::qm31::{qm31, qm31_const, QM31Trait, m31};\n#[inline(never)]\nfn seed(k: m31) -> qm31 { QM31Trait::new(k, 6, 7, 8) }\n#[inline(never)]\nfn square(a: qm31) -> qm31 { a * a }\nfn f(k: m31) -> (felt252, felt252) { let x = seed(k); let y = x + qm31_const::<1, 2, 3, 4>(); let z = square(y) - qm31_const::<0, 0, 0, 1>(); let w = z * qm31_const::<2, 0, 0, 0>(); let [a, b, _c, _d] = w.unpack(); (upcast(a), upcast(b)) }\n"),
    ("builtins_in_loops", "use core::ec::{EcStateTrait, EcPointTrait};\nfn bitwise_loop(n: u8) -> u128 { let mut acc: u128 = 0xff00ff; let mut i: u8 = 0; while i != n % 6 { acc = (acc & 0x0f0f0f) | (acc ^ i.into()); i += 1; } acc }\nfn hash_loop(n: u8) -> felt252 { let mut acc: felt252 = 7; let mut i: u8 = 0; while i != n % 5 { acc = core::pedersen::pedersen(acc, i.into()); let (x, _, _) = core::poseidon::hades_permutation(acc, 1, 2); acc = x; i += 1; } acc }\nfn ec_loop(n: u8) -> felt252 { let g = core::ec::EcPointTrait::new_from_x(1).unwrap(); let gnz: NonZero<core::ec::EcPoint> = g.try_into().unwrap(); let mut s = core::ec::EcStateTrait::init(); let mut i: u8 = 0; while i != n % 4 { s.add_mul(i.into() + 2, gnz); i += 1; } s.add(gnz); match s.finalize_nz() { Some(p) => { let (x, _) = core::ec::ec_point_unwrap(p); x }, None => 0 } }\nfn f(n: u8) -> felt252 { bitwise_loop(n).into() + hash_loop(n) + ec_loop(n) }\n"),
    ("while_let", "fn f(a: u8, b: u8) -> u16 { let mut arr = array![a, b, 9]; let mut t: u16 = 0; while let Some(x) = arr.pop_front() { t += x.into(); } t }\n"),
];

pub fn extra_programs(_tier: Tier) -> Vec<(String, String)> {
    let mut v: Vec<(String, String)> = EXTRA.iter().map(|(n, c)| (format!("extra:{n}"), c.to_string())).collect();
    v.extend(divergence_family());
    v.extend(specialization_family());
    v
}

/// Divergence placement: every diverging form (panic, return, never-typed call, match on an empty enum, break,
/// continue, endless loop) in every expression position (let initialiser, either operand, call argument,
/// condition, one arm, match arm, struct member, array element, tuple member, loop condition, block tail after a
/// call).  Unreachable-code handling in lowering and the back end is only exercised by such programs; each
/// either gets an error diagnostic or must compile and behave identically under every configuration.
pub fn divergence_family() -> Vec<(String, String)> {
    const PRELUDE: &str = "#[derive(Drop, Copy)]\nenum Never {}\n#[derive(Drop, Copy)]\nstruct S { a: u8, b: u8 }\n#[inline(never)]\nfn g(x: u8, y: u8) -> u8 { x / 2 + y / 2 }\n#[inline(never)]\nfn nv(a: u8) -> core::never { core::panic_with_felt252('nv') }\n#[inline(never)]\nfn opt(a: u8) -> Option<Never> { if a == 255 { Option::None } else { Option::None } }\n";
    // (name, diverging expression; `n` is a value of type Never where available)
    let forms: &[(&str, &str, bool)] = &[
        ("panic", "core::panic_with_felt252('d')", false),
        ("return", "{ return 9; }", false),
        ("never-call", "nv(a)", false),
        ("block-panic", "{ let t = g(a, 3); core::panic_with_felt252(t.into()) }", false),
        ("match-never", "match n {}", true),
        ("call-then-match-never", "{ let t = g(g(a, 1), g(a, 2)); let _u = t + 1; match n {} }", true),
    ];
    let positions: &[(&str, &str)] = &[
        ("let", "let x: u8 = $; x"),
        ("rhs", "a / 2 + $"),
        ("lhs", "$ + a / 2"),
        ("arg1", "g(a, $)"),
        ("arg0", "g($, a)"),
        ("cond", "if $ { 1 } else { 2 }"),
        ("arm", "if a == 7 { $ } else { a }"),
        ("match-arm", "match a { 0 => $, _ => a }"),
        ("member", "let s = S { a: $, b: 1 }; s.b"),
        ("element", "let arr = array![a, $]; arr.len().try_into().unwrap()"),
        ("tuple", "let (p, _q) = (a, $); p"),
        ("while-cond", "let mut i = 0_u8; while $ { i += 1; } i"),
        ("after-call", "let t = g(a, 5); if t == 3 { $ } else { t }"),
        ("in-loop", "let mut i = 0_u8; loop { if i == a % 4 { break; } if i == 2 { $; } i += 1; } i"),
    ];
    let mut out = vec![];
    for (fn_, fe, needs_never) in forms {
        for (pn, pe) in positions {
            let body = pe.replace('$', &format!("({fe})"));
            let code = if *needs_never {
                format!("{PRELUDE}fn f(a: u8) -> u8 {{ match opt(a) {{ Option::Some(n) => {{ {body} }}, Option::None => a / 3 }} }}\n")
            } else {
                format!("{PRELUDE}fn f(a: u8) -> u8 {{ {body} }}\n")
            };
            out.push((format!("extra:diverge:{fn_}:{pn}"), code));
        }
    }
    // loop-only forms
    for (fn_, fe) in [("break", "{ break; }"), ("continue", "{ continue; }"), ("break-value", "{ break 5_u8; }")] {
        for (pn, pe) in [("let", "let x: u8 = $; x"), ("rhs", "a / 2 + $"), ("arg1", "g(a, $)"), ("arm", "if i == 3 { $ } else { i }"), ("member", "let s = S { a: $, b: 1 }; s.b")] {
            let body = pe.replace('$', &format!("({fe})"));
            let tail = if fn_ == "break-value" { "" } else { "; i" };
            let code = format!("{PRELUDE}fn f(a: u8) -> u8 {{ let mut i = 0_u8; loop {{ i += 1; if i == a % 5 + 4 {{ break{}; }} let _y: u8 = {{ {body} }}; }}{tail} }}\n", if fn_ == "break-value" { " i" } else { "" });
            out.push((format!("extra:diverge:{fn_}:{pn}"), code));
        }
    }
    out
}

/// Call specialization: a recursive (never inlined) function that is much cheaper for `mode == 0` takes an
/// aggregate (struct, tuple, fixed-size array) whose members become known in two steps - some in a small wrapper
/// (inlined into its caller), the rest at the caller - so that an already specialized call is specialized again.
/// Every split of {a, b} between "known in the wrapper", "known at the caller" and "run-time value"; the function
/// is asymmetric in a and b, so any mix-up of the members shows in the result.
pub fn specialization_family() -> Vec<(String, String)> {
    let kinds: [(&str, &str, &str, &str); 3] = [
        ("struct", "#[derive(Drop, Copy)]\nstruct P { mode: felt252, a: felt252, b: felt252 }\n", "P", "P { mode: $m, a: $a, b: $b }"),
        ("tuple", "", "(felt252, felt252, felt252)", "($m, $a, $b)"),
        ("array", "", "[felt252; 3]", "[$m, $a, $b]"),
    ];
    let mut out = vec![];
    for (kn, decl, ty, ctor) in kinds {
        let open = match kn {
            "struct" => "let P { mode, a, b } = p;",
            "tuple" => "let (mode, a, b) = p;",
            _ => "let [mode, a, b] = p;",
        };
        let mk = |m: &str, a: &str, b: &str| ctor.replace("$m", m).replace("$a", a).replace("$b", b);
        let f = format!(
            "{decl}fn f(p: {ty}, n: felt252) -> felt252 {{\n    {open}\n    if n == 0 {{ return a - b * 3; }}\n    if mode == 0 {{ f(p, n - 1) + 1 }} else {{\n        let x = f({}, n - 1);\n        let y = f({}, n - 1);\n        x * y + x + y\n    }}\n}}\n",
            mk("mode - 1", "a * 3", "b * 5"),
            mk("mode - 1", "a * 7 + x", "b * 11")
        );
        // wrapper-known in {none, a, b}; caller-known subsets of the rest
        for wk in ["", "a", "b"] {
            let rest: Vec<&str> = ["a", "b"].into_iter().filter(|m| *m != wk).collect();
            for mask in 0..(1u32 << rest.len()) {
                let ck: Vec<&str> = rest.iter().enumerate().filter(|(i, _)| mask & (1 << i) != 0).map(|(_, m)| *m).collect();
                // the wrapper's parameters: the members it does not know
                let gparams: Vec<String> = rest.iter().map(|m| format!("{m}: felt252")).collect();
                let ga = if wk == "a" { "5" } else { "a" };
                let gb = if wk == "b" { "7" } else { "b" };
                let g = format!("fn g({}{}n: felt252) -> felt252 {{ f({}, n) }}\n", gparams.join(", "), if gparams.is_empty() { "" } else { ", " }, mk("0", ga, gb));
                // the caller: known members are literals, the others come from x / y
                let arg_of = |m: &str| -> String { if ck.contains(&m) { if m == "a" { "9".into() } else { "4".into() } } else if m == "a" { "x".into() } else { "y".into() } };
                let gargs: Vec<String> = rest.iter().map(|m| arg_of(m)).collect();
                let h = format!("fn h(x: felt252, y: felt252, k: u8) -> felt252 {{ g({}{}(k % 3).into()) }}\n", gargs.join(", "), if gargs.is_empty() { "" } else { ", " });
                out.push((format!("extra:spec:{kn}:wrapper-knows[{wk}]:caller-knows[{}]", ck.join(",")), format!("{f}{g}{h}")));
            }
        }
    }
    out
}
