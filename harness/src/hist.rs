//! Fork-snapshot exploration over live compiler databases (DESIGN §2.7): a salsa database cannot be
//! deep-copied, so a search node is a process image; each enabled action runs in a `fork()`ed child on its
//! copy-on-write image of the *real* database, and results bubble up through pipes as JSON lines.

use std::io::{Read, Write};
use std::os::fd::FromRawFd;

use cairo_lang_compiler::db::RootDatabase;
use cairo_lang_filesystem::db::{CrateConfiguration, FilesGroup};
use cairo_lang_filesystem::ids::{CrateId, CrateInput, Directory, FileLongId, SmolStrId};
use cairo_lang_filesystem::{override_file_content, set_crate_config};
use cairo_lang_utils::Intern;
use salsa::Database;
use serde_json::Value;

pub struct ChildResult {
    pub records: Vec<Value>,
    /// None = exited normally
    pub abnormal: Option<String>,
}

/// Runs `f` in a forked child. `f` gets a writer; every line it writes must be one JSON value. The parent
/// blocks until the child (and its descendants, which write through the same function) is done.
pub fn in_child(timeout_s: u32, f: impl FnOnce(&mut dyn Write)) -> ChildResult {
    let mut fds = [0i32; 2];
    unsafe {
        if libc::pipe(fds.as_mut_ptr()) != 0 {
            return ChildResult { records: vec![], abnormal: Some("pipe() failed".into()) };
        }
    }
    std::io::stdout().flush().ok();
    let pid = unsafe { libc::fork() };
    if pid < 0 {
        return ChildResult { records: vec![], abnormal: Some("fork() failed".into()) };
    }
    if pid == 0 {
        unsafe {
            libc::close(fds[0]);
            libc::alarm(timeout_s);
            // children must not be attributed by the worker's fatal-signal handler as "items"
            libc::signal(libc::SIGABRT, libc::SIG_DFL);
            libc::signal(libc::SIGSEGV, libc::SIG_DFL);
        }
        let mut w = unsafe { std::fs::File::from_raw_fd(fds[1]) };
        let r = std::panic::catch_unwind(std::panic::AssertUnwindSafe(|| f(&mut w)));
        if r.is_err() {
            let _ = writeln!(w, "{}", serde_json::json!({"t": "child-panic"}));
        }
        let _ = w.flush();
        drop(w);
        unsafe { libc::_exit(0) };
    }
    unsafe { libc::close(fds[1]) };
    let mut r = unsafe { std::fs::File::from_raw_fd(fds[0]) };
    let mut buf = String::new();
    let _ = r.read_to_string(&mut buf);
    let mut st = 0i32;
    unsafe { libc::waitpid(pid, &mut st, 0) };
    let abnormal = if libc::WIFEXITED(st) && libc::WEXITSTATUS(st) == 0 {
        None
    } else if libc::WIFSIGNALED(st) {
        Some(format!("child killed by signal {}", libc::WTERMSIG(st)))
    } else {
        Some(format!("child exit status {st}"))
    };
    let records = buf.lines().filter_map(|l| serde_json::from_str(l).ok()).collect();
    ChildResult { records, abnormal }
}

/// Sets (or unsets) the overriding content of `<crate root>/<rel>` of the in-memory crate `name`.
pub fn set_file(db: &mut RootDatabase, name: &str, rel: &str, content: Option<&str>) -> CrateInput {
    set_file_settings(db, name, rel, content, None)
}

/// As `set_file`, with explicit crate settings (None: the defaults).
pub fn set_file_settings(db: &mut RootDatabase, name: &str, rel: &str, content: Option<&str>, settings: Option<cairo_lang_filesystem::db::CrateSettings>) -> CrateInput {
    let root = std::path::PathBuf::from(format!("/verif_virtual/{name}"));
    let db_mut: &mut dyn Database = db;
    let crate_id = CrateId::plain(db_mut, SmolStrId::from(db_mut, name));
    let mut config = CrateConfiguration::default_for_root(Directory::Real(root.clone()));
    if let Some(st) = settings {
        config.settings = st;
    }
    set_crate_config!(db_mut, crate_id, Some(config));
    let file_id = FileLongId::OnDisk(root.join(rel)).intern(db_mut);
    override_file_content!(db_mut, file_id, content.map(|c| c.to_string().into()));
    let crate_id = CrateId::plain(db_mut, SmolStrId::from(db_mut, name));
    crate_id.long(db_mut).clone().into_crate_input(db_mut)
}
