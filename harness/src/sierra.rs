//! Sierra corpora and the single-point mutation space MUT(s) (DESIGN §2.6).

use std::collections::BTreeSet;
use std::path::PathBuf;

use cairo_lang_sierra::ProgramParser;
use cairo_lang_sierra::ids::{ConcreteLibfuncId, ConcreteTypeId, VarId};
use cairo_lang_sierra::program::{BranchTarget, GenStatement, GenericArg, Program, StatementIdx};
use num_bigint::BigInt;
use serde_json::{Value, json};

pub fn sierra_files() -> Vec<(String, String)> {
    let mut files = vec![];
    fn walk(d: &std::path::Path, out: &mut Vec<PathBuf>) {
        let Ok(rd) = std::fs::read_dir(d) else { return };
        let mut es: Vec<PathBuf> = rd.filter_map(|e| e.ok().map(|e| e.path())).collect();
        es.sort();
        for p in es {
            if p.is_dir() {
                if p.file_name().unwrap() != "target" {
                    walk(&p, out)
                }
            } else if p.extension().map(|x| x == "sierra").unwrap_or(false) {
                out.push(p);
            }
        }
    }
    for d in ["examples", "crates", "tests", "corelib"] {
        walk(&std::path::Path::new("/repo").join(d), &mut files);
    }
    files
        .into_iter()
        .filter_map(|p| {
            let s = std::fs::read_to_string(&p).ok()?;
            Some((p.strip_prefix("/repo").unwrap().to_string_lossy().trim_start_matches('/').to_string(), s))
        })
        .collect()
}

/// (name, program) for every parseable corpus program, sorted by statement count then name.
pub fn corpus(include_files: bool) -> Vec<(String, Program)> {
    let mut out = vec![];
    let parser = ProgramParser::new();
    for (name, text) in crate::pipe::e2e_sierra() {
        if let Ok(p) = parser.parse(&text) {
            out.push((format!("e2e:{name}"), p));
        }
    }
    if include_files {
        for (name, text) in sierra_files() {
            if let Ok(p) = parser.parse(&text) {
                out.push((format!("file:{name}"), p));
            }
        }
    }
    out.sort_by(|a, b| (a.1.statements.len(), &a.0).cmp(&(b.1.statements.len(), &b.0)));
    out
}

#[derive(Clone, Debug)]
pub enum Mutation {
    None,
    StmtDelete(usize),
    StmtDup(usize),
    StmtSwap(usize),
    Libfunc(usize, usize),
    Arg(usize, usize, u64),
    Result(usize, usize, usize, u64),
    Branch(usize, usize, Option<usize>),
    EntryPoint(usize, usize),
    ReturnSwap(usize, usize),
    ReturnTruncate(usize),
    ReturnExtend(usize, u64),
    TypeDeclDelete(usize),
    TypeDeclDup(usize),
    TypeDeclSwap(usize),
    TypeDeclToEnd(usize),
    LibfuncDeclDelete(usize),
    LibfuncDeclDup(usize),
    LibfuncDeclSwap(usize),
    LibfuncDeclToEnd(usize),
    FuncDelete(usize),
    FuncDup(usize),
    FuncSwap(usize),
    /// (is_libfunc_decl, decl index, arg index, replacement index)
    GenericArgEdit(bool, usize, usize, usize),
    GenericArgDrop(bool, usize, usize),
    GenericArgDupLast(bool, usize),
    SigParamType(usize, usize, usize),
    SigRetType(usize, usize, usize),
    ParamVar(usize, usize, u64),
    TypeInfoFlip(usize, usize),
}

impl Mutation {
    pub fn describe(&self) -> Value {
        json!(format!("{self:?}"))
    }
}

fn generic_arg_replacements(a: &GenericArg, types: &[ConcreteTypeId]) -> Vec<GenericArg> {
    let mut out = vec![];
    let vals = |v: &BigInt| -> Vec<BigInt> {
        vec![v + 1, v - 1, BigInt::from(0), BigInt::from(-1), BigInt::from(1u8) << 128u32, BigInt::from(1u8) << 251u32, -(BigInt::from(1u8) << 127u32), BigInt::from(u64::MAX), BigInt::from(i16::MAX as i64 + 1)]
    };
    match a {
        GenericArg::Value(v) => {
            for x in vals(v) {
                if &x != v {
                    out.push(GenericArg::Value(x));
                }
            }
            if let Some(t) = types.first() {
                out.push(GenericArg::Type(t.clone()));
            }
        }
        GenericArg::Type(t) => {
            for o in types {
                if o != t {
                    out.push(GenericArg::Type(o.clone()));
                }
            }
            out.push(GenericArg::Type(ConcreteTypeId::new(987654321)));
            out.push(GenericArg::Value(BigInt::from(0)));
        }
        GenericArg::UserType(_) => {
            out.push(GenericArg::Value(BigInt::from(0)));
            if let Some(t) = types.first() {
                out.push(GenericArg::Type(t.clone()));
            }
            out.push(GenericArg::UserType(cairo_lang_sierra::ids::UserTypeId::from_string("verif::Other")));
        }
        GenericArg::UserFunc(_) => {
            out.push(GenericArg::Value(BigInt::from(0)));
            out.push(GenericArg::UserFunc(cairo_lang_sierra::ids::FunctionId::new(987654321)));
        }
        GenericArg::Libfunc(_) => {
            out.push(GenericArg::Value(BigInt::from(0)));
            out.push(GenericArg::Libfunc(ConcreteLibfuncId::new(987654321)));
        }
    }
    out
}

/// Variable ids used for argument/result replacement: all ids occurring in the program (capped) + a fresh one.
fn var_pool(p: &Program, cap: usize) -> Vec<u64> {
    let mut s = BTreeSet::new();
    for f in &p.funcs {
        for q in &f.params {
            s.insert(q.id.id);
        }
    }
    for st in &p.statements {
        match st {
            GenStatement::Invocation(i) => {
                for a in &i.args {
                    s.insert(a.id);
                }
                for b in &i.branches {
                    for r in &b.results {
                        s.insert(r.id);
                    }
                }
            }
            GenStatement::Return(v) => {
                for a in v {
                    s.insert(a.id);
                }
            }
        }
    }
    let mut v: Vec<u64> = s.into_iter().take(cap).collect();
    let fresh = v.iter().max().map(|m| m + 1).unwrap_or(0);
    v.push(fresh);
    v
}

pub struct MutCfg {
    pub var_cap: usize,
    pub libfunc_cap: usize,
    pub target_cap: usize,
    pub type_cap: usize,
}
impl MutCfg {
    pub const FULL: MutCfg = MutCfg { var_cap: usize::MAX, libfunc_cap: usize::MAX, target_cap: usize::MAX, type_cap: usize::MAX };
}

/// Enumerates MUT(p) in a fixed order.
pub fn mutations(p: &Program, cfg: &MutCfg) -> Vec<Mutation> {
    let mut out = vec![Mutation::None];
    let n = p.statements.len();
    let vars = var_pool(p, cfg.var_cap);
    let types: Vec<ConcreteTypeId> = p.type_declarations.iter().map(|t| t.id.clone()).collect();
    let step = |len: usize, cap: usize| -> usize { if len <= cap { 1 } else { len.div_ceil(cap) } };
    for i in 0..n {
        out.push(Mutation::StmtDelete(i));
        out.push(Mutation::StmtDup(i));
        if i + 1 < n {
            out.push(Mutation::StmtSwap(i));
        }
        match &p.statements[i] {
            GenStatement::Invocation(inv) => {
                let ls = step(p.libfunc_declarations.len(), cfg.libfunc_cap);
                for (li, ld) in p.libfunc_declarations.iter().enumerate().step_by(ls) {
                    if ld.id != inv.libfunc_id {
                        out.push(Mutation::Libfunc(i, li));
                    }
                }
                for (ai, a) in inv.args.iter().enumerate() {
                    for v in &vars {
                        if *v != a.id {
                            out.push(Mutation::Arg(i, ai, *v));
                        }
                    }
                }
                for (bi, b) in inv.branches.iter().enumerate() {
                    for (ri, r) in b.results.iter().enumerate() {
                        for v in &vars {
                            if *v != r.id {
                                out.push(Mutation::Result(i, bi, ri, *v));
                            }
                        }
                    }
                    let ts = step(n + 1, cfg.target_cap);
                    for t in (0..=n).step_by(ts) {
                        if b.target != BranchTarget::Statement(StatementIdx(t)) {
                            out.push(Mutation::Branch(i, bi, Some(t)));
                        }
                    }
                    if b.target != BranchTarget::Fallthrough {
                        out.push(Mutation::Branch(i, bi, None));
                    }
                }
            }
            GenStatement::Return(vs) => {
                for k in 0..vs.len().saturating_sub(1) {
                    out.push(Mutation::ReturnSwap(i, k));
                }
                if !vs.is_empty() {
                    out.push(Mutation::ReturnTruncate(i));
                }
                for v in &vars {
                    out.push(Mutation::ReturnExtend(i, *v));
                }
            }
        }
    }
    for (fi, f) in p.funcs.iter().enumerate() {
        let ts = step(n + 1, cfg.target_cap);
        for t in (0..=n).step_by(ts) {
            if f.entry_point.0 != t {
                out.push(Mutation::EntryPoint(fi, t));
            }
        }
        out.push(Mutation::FuncDelete(fi));
        out.push(Mutation::FuncDup(fi));
        if fi + 1 < p.funcs.len() {
            out.push(Mutation::FuncSwap(fi));
        }
        let tstep = step(types.len(), cfg.type_cap);
        for (pi, pt) in f.signature.param_types.iter().enumerate() {
            for (ti, t) in types.iter().enumerate().step_by(tstep) {
                if t != pt {
                    out.push(Mutation::SigParamType(fi, pi, ti));
                }
            }
        }
        for (ri, rt) in f.signature.ret_types.iter().enumerate() {
            for (ti, t) in types.iter().enumerate().step_by(tstep) {
                if t != rt {
                    out.push(Mutation::SigRetType(fi, ri, ti));
                }
            }
        }
        for (pi, q) in f.params.iter().enumerate() {
            for v in &vars {
                if *v != q.id.id {
                    out.push(Mutation::ParamVar(fi, pi, *v));
                }
            }
        }
    }
    for ti in 0..p.type_declarations.len() {
        out.push(Mutation::TypeDeclDelete(ti));
        out.push(Mutation::TypeDeclDup(ti));
        if ti + 1 < p.type_declarations.len() {
            out.push(Mutation::TypeDeclSwap(ti));
            out.push(Mutation::TypeDeclToEnd(ti));
        }
        let d = &p.type_declarations[ti];
        for (ai, a) in d.long_id.generic_args.iter().enumerate() {
            for k in 0..generic_arg_replacements(a, &types).len() {
                out.push(Mutation::GenericArgEdit(false, ti, ai, k));
            }
            out.push(Mutation::GenericArgDrop(false, ti, ai));
        }
        out.push(Mutation::GenericArgDupLast(false, ti));
        if d.declared_type_info.is_some() {
            for bit in 0..4 {
                out.push(Mutation::TypeInfoFlip(ti, bit));
            }
        }
    }
    for li in 0..p.libfunc_declarations.len() {
        out.push(Mutation::LibfuncDeclDelete(li));
        out.push(Mutation::LibfuncDeclDup(li));
        if li + 1 < p.libfunc_declarations.len() {
            out.push(Mutation::LibfuncDeclSwap(li));
            out.push(Mutation::LibfuncDeclToEnd(li));
        }
        let d = &p.libfunc_declarations[li];
        for (ai, a) in d.long_id.generic_args.iter().enumerate() {
            for k in 0..generic_arg_replacements(a, &types).len() {
                out.push(Mutation::GenericArgEdit(true, li, ai, k));
            }
            out.push(Mutation::GenericArgDrop(true, li, ai));
        }
        out.push(Mutation::GenericArgDupLast(true, li));
    }
    out
}

pub fn apply(p: &Program, m: &Mutation) -> Program {
    let mut q = p.clone();
    let types: Vec<ConcreteTypeId> = p.type_declarations.iter().map(|t| t.id.clone()).collect();
    match m {
        Mutation::None => {}
        Mutation::StmtDelete(i) => {
            q.statements.remove(*i);
        }
        Mutation::StmtDup(i) => {
            let s = q.statements[*i].clone();
            q.statements.insert(*i, s);
        }
        Mutation::StmtSwap(i) => q.statements.swap(*i, i + 1),
        Mutation::Libfunc(i, li) => {
            if let GenStatement::Invocation(inv) = &mut q.statements[*i] {
                inv.libfunc_id = p.libfunc_declarations[*li].id.clone();
            }
        }
        Mutation::Arg(i, ai, v) => {
            if let GenStatement::Invocation(inv) = &mut q.statements[*i] {
                inv.args[*ai] = VarId::new(*v);
            }
        }
        Mutation::Result(i, bi, ri, v) => {
            if let GenStatement::Invocation(inv) = &mut q.statements[*i] {
                inv.branches[*bi].results[*ri] = VarId::new(*v);
            }
        }
        Mutation::Branch(i, bi, t) => {
            if let GenStatement::Invocation(inv) = &mut q.statements[*i] {
                inv.branches[*bi].target = match t {
                    Some(t) => BranchTarget::Statement(StatementIdx(*t)),
                    None => BranchTarget::Fallthrough,
                };
            }
        }
        Mutation::EntryPoint(fi, t) => q.funcs[*fi].entry_point = StatementIdx(*t),
        Mutation::ReturnSwap(i, k) => {
            if let GenStatement::Return(v) = &mut q.statements[*i] {
                v.swap(*k, k + 1);
            }
        }
        Mutation::ReturnTruncate(i) => {
            if let GenStatement::Return(v) = &mut q.statements[*i] {
                v.pop();
            }
        }
        Mutation::ReturnExtend(i, x) => {
            if let GenStatement::Return(v) = &mut q.statements[*i] {
                v.push(VarId::new(*x));
            }
        }
        Mutation::TypeDeclDelete(i) => {
            q.type_declarations.remove(*i);
        }
        Mutation::TypeDeclDup(i) => {
            let d = q.type_declarations[*i].clone();
            q.type_declarations.insert(*i, d);
        }
        Mutation::TypeDeclSwap(i) => q.type_declarations.swap(*i, i + 1),
        Mutation::TypeDeclToEnd(i) => {
            let d = q.type_declarations.remove(*i);
            q.type_declarations.push(d);
        }
        Mutation::LibfuncDeclDelete(i) => {
            q.libfunc_declarations.remove(*i);
        }
        Mutation::LibfuncDeclDup(i) => {
            let d = q.libfunc_declarations[*i].clone();
            q.libfunc_declarations.insert(*i, d);
        }
        Mutation::LibfuncDeclSwap(i) => q.libfunc_declarations.swap(*i, i + 1),
        Mutation::LibfuncDeclToEnd(i) => {
            let d = q.libfunc_declarations.remove(*i);
            q.libfunc_declarations.push(d);
        }
        Mutation::FuncDelete(i) => {
            q.funcs.remove(*i);
        }
        Mutation::FuncDup(i) => {
            let d = q.funcs[*i].clone();
            q.funcs.insert(*i, d);
        }
        Mutation::FuncSwap(i) => q.funcs.swap(*i, i + 1),
        Mutation::GenericArgEdit(is_lf, di, ai, k) => {
            let args = if *is_lf { &mut q.libfunc_declarations[*di].long_id.generic_args } else { &mut q.type_declarations[*di].long_id.generic_args };
            let r = generic_arg_replacements(&args[*ai], &types);
            args[*ai] = r[*k].clone();
        }
        Mutation::GenericArgDrop(is_lf, di, ai) => {
            let args = if *is_lf { &mut q.libfunc_declarations[*di].long_id.generic_args } else { &mut q.type_declarations[*di].long_id.generic_args };
            args.remove(*ai);
        }
        Mutation::GenericArgDupLast(is_lf, di) => {
            let args = if *is_lf { &mut q.libfunc_declarations[*di].long_id.generic_args } else { &mut q.type_declarations[*di].long_id.generic_args };
            match args.last().cloned() {
                Some(a) => args.push(a),
                None => args.push(GenericArg::Value(BigInt::from(0))),
            }
        }
        Mutation::SigParamType(fi, pi, ti) => {
            q.funcs[*fi].signature.param_types[*pi] = types[*ti].clone();
            if let Some(prm) = q.funcs[*fi].params.get_mut(*pi) {
                prm.ty = types[*ti].clone();
            }
        }
        Mutation::SigRetType(fi, ri, ti) => q.funcs[*fi].signature.ret_types[*ri] = types[*ti].clone(),
        Mutation::ParamVar(fi, pi, v) => q.funcs[*fi].params[*pi].id = VarId::new(*v),
        Mutation::TypeInfoFlip(ti, bit) => {
            if let Some(info) = &mut q.type_declarations[*ti].declared_type_info {
                match bit {
                    0 => info.storable = !info.storable,
                    1 => info.droppable = !info.droppable,
                    2 => info.duplicatable = !info.duplicatable,
                    _ => info.zero_sized = !info.zero_sized,
                }
            }
        }
    }
    q
}

/// Seeds and alphabets of the second-order space MUT(MUT(s)) (thorough tiers of C14 / C15): the smallest corpus
/// programs and every 9th instantiation-lattice wrapper, capped replacement alphabets.
pub const PAIR_CFG: MutCfg = MutCfg { var_cap: 4, libfunc_cap: 6, target_cap: 6, type_cap: 4 };
pub fn pair_seeds() -> Vec<(String, Program)> {
    let mut progs = corpus(false);
    progs.extend(crate::c14inst::compiled_wrappers(crate::core::Tier::Quick).into_iter().step_by(9));
    progs.into_iter().filter(|(_, p)| !p.statements.is_empty() && p.statements.len() <= 9).take(200).collect()
}
