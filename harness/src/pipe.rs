//! Cairo -> Sierra -> CASM -> VM driver on the public API, with the configuration lattice and monitors.

use std::path::PathBuf;

use cairo_lang_compiler::db::RootDatabase;
use cairo_lang_compiler::diagnostics::DiagnosticsReporter;
use cairo_lang_filesystem::db::{CrateConfiguration, FilesGroup, init_dev_corelib};
use cairo_lang_filesystem::flag::{Flag, FlagsGroup};
use cairo_lang_filesystem::ids::{CrateId, CrateInput, Directory, FileLongId, FlagLongId, SmolStrId};
use cairo_lang_filesystem::{override_file_content, set_crate_config};
use cairo_lang_lowering::optimizations::config::Optimizations;
use cairo_lang_lowering::utils::InliningStrategy;
use cairo_lang_runnable_utils::builder::RunnableBuilder;
use cairo_lang_runner::casm_run::{RunFunctionResult, run_function as raw_run};
use cairo_lang_runner::{Arg, RunResultStarknet, RunResultValue, RunnerError, SierraCasmRunner, StarknetState, initialize_vm};
use cairo_lang_sierra::program::{Function, Program};
use cairo_lang_sierra_generator::db::SierraGenGroup;
use cairo_lang_sierra_generator::replace_ids::replace_sierra_ids_in_program;
use cairo_lang_sierra_to_casm::metadata::MetadataComputationConfig;
use cairo_lang_utils::Intern;
use salsa::Database;
use starknet_types_core::felt::Felt;

pub const CORELIB: &str = "/repo/corelib/src";

#[derive(Clone, Copy, Debug, PartialEq, Eq, Hash)]
pub enum Opt {
    Disabled,
    Default,
    Avoid,
    Small(usize),
}

#[derive(Clone, Copy, Debug, PartialEq, Eq, Hash)]
pub struct Cfg {
    pub opt: Opt,
    pub skip_const_folding: bool,
    pub match_threshold: Option<usize>,
    pub add_withdraw_gas: bool,
    pub linear: bool,
}
impl Cfg {
    pub const DEFAULT: Cfg = Cfg { opt: Opt::Default, skip_const_folding: false, match_threshold: None, add_withdraw_gas: true, linear: true };
    pub const BASELINE: Cfg = Cfg { opt: Opt::Disabled, skip_const_folding: false, match_threshold: None, add_withdraw_gas: true, linear: true };
    pub fn name(&self) -> String {
        format!(
            "{:?}{}{}{}{}",
            self.opt,
            if self.skip_const_folding { "+nofold" } else { "" },
            self.match_threshold.map(|t| format!("+match{t}")).unwrap_or_default(),
            if self.add_withdraw_gas { "" } else { "+nowithdraw" },
            if self.linear { "" } else { "+lp" }
        )
    }
    /// The six corner configurations of the quick tier.
    pub fn corners() -> Vec<Cfg> {
        vec![
            Cfg::BASELINE,
            Cfg::DEFAULT,
            Cfg { opt: Opt::Avoid, ..Cfg::DEFAULT },
            Cfg { opt: Opt::Small(1000), match_threshold: Some(1), ..Cfg::DEFAULT },
            Cfg { opt: Opt::Small(0), skip_const_folding: true, match_threshold: Some(1000), ..Cfg::DEFAULT },
            Cfg { linear: false, match_threshold: Some(2), ..Cfg::DEFAULT },
        ]
    }
    /// The full lattice (front-end part only: linear is a back-end choice).
    pub fn full() -> Vec<Cfg> {
        let mut v = vec![];
        for opt in [Opt::Disabled, Opt::Default, Opt::Avoid, Opt::Small(0), Opt::Small(4), Opt::Small(1000)] {
            for skip in [false, true] {
                if opt == Opt::Disabled && skip {
                    continue;
                }
                for mt in [None, Some(1), Some(2), Some(1000)] {
                    for linear in [true, false] {
                        v.push(Cfg { opt, skip_const_folding: skip, match_threshold: mt, add_withdraw_gas: true, linear });
                    }
                }
            }
        }
        v
    }
    pub fn optimizations(&self) -> Optimizations {
        let strat = match self.opt {
            Opt::Disabled => return Optimizations::Disabled,
            Opt::Default => InliningStrategy::Default,
            Opt::Avoid => InliningStrategy::Avoid,
            Opt::Small(n) => InliningStrategy::InlineSmallFunctions(n),
        };
        match Optimizations::enabled_with_default_movable_functions(strat) {
            Optimizations::Enabled(c) => Optimizations::Enabled(c.with_skip_const_folding(self.skip_const_folding)),
            o => o,
        }
    }
    pub fn metadata(&self) -> MetadataComputationConfig {
        MetadataComputationConfig { linear_gas_solver: self.linear, linear_ap_change_solver: self.linear, ..Default::default() }
    }
    /// Same front-end configuration (produces the same Sierra)?
    pub fn same_frontend(&self, o: &Cfg) -> bool {
        Cfg { linear: true, ..*self } == Cfg { linear: true, ..*o }
    }
}

pub fn new_db(cfg: &Cfg) -> RootDatabase {
    let mut b = RootDatabase::builder();
    b.with_optimizations(cfg.optimizations());
    if !cfg.add_withdraw_gas {
        b.skip_auto_withdraw_gas();
    }
    let mut db = b.build().expect("db build");
    init_dev_corelib(&mut db, PathBuf::from(CORELIB));
    if let Some(t) = cfg.match_threshold {
        let id = FlagLongId(Flag::NUMERIC_MATCH_OPTIMIZATION_MIN_ARMS_THRESHOLD.into());
        db.set_flag(id, Some(Flag::NumericMatchOptimizationMinArmsThreshold(t)));
    }
    db
}

/// Sets the content of the single-file in-memory crate `name`.
pub fn set_src(db: &mut RootDatabase, name: &str, content: &str) -> CrateInput {
    let root = PathBuf::from(format!("/verif_virtual/{name}"));
    let db_mut: &mut dyn Database = db;
    let crate_id = CrateId::plain(db_mut, SmolStrId::from(db_mut, name));
    set_crate_config!(db_mut, crate_id, Some(CrateConfiguration::default_for_root(Directory::Real(root.clone()))));
    let file_id = FileLongId::OnDisk(root.join("lib.cairo")).intern(db_mut);
    override_file_content!(db_mut, file_id, Some(content.to_string().into()));
    let crate_id = CrateId::plain(db_mut, SmolStrId::from(db_mut, name));
    crate_id.long(db_mut).clone().into_crate_input(db_mut)
}

/// Like `set_src`, for a crate that depends on other in-memory crates (by name) and optionally has a cache blob.
pub fn set_src_deps(db: &mut RootDatabase, name: &str, content: &str, deps: &[&str], cache: Option<Vec<u8>>) -> CrateInput {
    set_src_deps_opts(db, name, content, deps, cache, CrateOpts::default())
}

/// Crate settings beyond the defaults: edition (index into the list of editions) and experimental features.
#[derive(Clone, Copy, Default, Debug, PartialEq, Eq)]
pub struct CrateOpts {
    /// 0: 2023_01 (default), 1: 2023_10, 2: 2023_11, 3: 2024_07, 4: 2025_12
    pub edition: u8,
    pub experimental: bool,
}

pub fn set_src_deps_opts(db: &mut RootDatabase, name: &str, content: &str, deps: &[&str], cache: Option<Vec<u8>>, opts: CrateOpts) -> CrateInput {
    use cairo_lang_filesystem::db::{CrateSettings, DependencySettings, Edition, ExperimentalFeaturesConfig};
    let root = PathBuf::from(format!("/verif_virtual/{name}"));
    let db_mut: &mut dyn Database = db;
    let crate_id = CrateId::plain(db_mut, SmolStrId::from(db_mut, name));
    let mut settings = CrateSettings::default();
    settings.edition = [Edition::V2023_01, Edition::V2023_10, Edition::V2023_11, Edition::V2024_07, Edition::V2025_12][opts.edition as usize];
    if opts.experimental {
        settings.experimental_features = ExperimentalFeaturesConfig { negative_impls: true, associated_item_constraints: true, coupons: true, user_defined_inline_macros: true, repr_ptrs: true };
    }
    for d in deps {
        settings.dependencies.insert(d.to_string(), DependencySettings { discriminator: None });
    }
    if !deps.is_empty() {
        settings.dependencies.insert("core".to_string(), DependencySettings { discriminator: None });
    }
    let cache_file = cache.map(|blob| cairo_lang_filesystem::ids::BlobLongId::Virtual(blob).intern(db_mut));
    set_crate_config!(db_mut, crate_id, Some(CrateConfiguration { root: Directory::Real(root.clone()), settings, cache_file }));
    let file_id = FileLongId::OnDisk(root.join("lib.cairo")).intern(db_mut);
    override_file_content!(db_mut, file_id, Some(content.to_string().into()));
    let crate_id = CrateId::plain(db_mut, SmolStrId::from(db_mut, name));
    crate_id.long(db_mut).clone().into_crate_input(db_mut)
}

/// Diagnostics of one crate: (text, has_errors).
pub fn diagnostics(db: &RootDatabase, ci: &CrateInput) -> (String, bool) {
    let mut s = String::new();
    let has_err = {
        let mut rep = DiagnosticsReporter::write_to_string(&mut s).with_crates(std::slice::from_ref(ci)).allow_warnings();
        rep.check(db)
    };
    (s, has_err)
}

/// Sierra (debug-name ids) of one crate.
pub fn sierra(db: &RootDatabase, ci: &CrateInput) -> Result<Program, String> {
    let ids = CrateInput::into_crate_ids(db, vec![ci.clone()]);
    match db.get_sierra_program(ids) {
        Ok(p) => Ok(replace_sierra_ids_in_program(db, &p.program)),
        Err(_) => Err("get_sierra_program failed (diagnostics reported)".into()),
    }
}

pub struct Compiled {
    pub program: Program,
    pub runner: SierraCasmRunner,
}

pub fn make_runner(program: Program, cfg: &Cfg) -> Result<Compiled, String> {
    let runner = SierraCasmRunner::new(program.clone(), Some(cfg.metadata()), Default::default(), None).map_err(|e| format!("{e}"))?;
    Ok(Compiled { program, runner })
}

pub fn make_builder(program: &Program, cfg: &Cfg) -> Result<RunnableBuilder, String> {
    RunnableBuilder::new(program.clone(), Some(cfg.metadata())).map_err(|e| format!("{e}"))
}

pub const IMPLICITS: &[&str] = &[
    "RangeCheck", "GasBuiltin", "Bitwise", "Pedersen", "Poseidon", "EcOp", "SegmentArena", "System", "BuiltinCosts", "RangeCheck96", "AddMod", "MulMod",
];

/// User parameter type names (debug names), implicits removed.
pub fn user_params(f: &Function) -> Vec<String> {
    f.signature
        .param_types
        .iter()
        .map(|p| p.debug_name.as_ref().map(|s| s.to_string()).unwrap_or_else(|| format!("[{}]", p.id)))
        .filter(|n| !IMPLICITS.contains(&n.as_str()))
        .collect()
}

pub fn fname(f: &Function) -> String {
    f.id.debug_name.as_ref().map(|s| s.to_string()).unwrap_or_else(|| format!("[{}]", f.id.id))
}

pub enum Outcome {
    Value(RunResultValue, Option<Felt>),
    VmError(String),
    /// harness-side input problems (not enough gas to call, argument shape): not judged
    InputError(String),
}

pub fn run(c: &Compiled, f: &Function, args: &[Arg], gas: Option<usize>) -> (Outcome, Option<RunResultStarknet>) {
    match c.runner.run_function_with_starknet_context(f, args.to_vec(), gas, StarknetState::default()) {
        Ok(r) => (Outcome::Value(r.value.clone(), r.gas_counter), Some(r)),
        Err(RunnerError::CairoRunError(e)) => (Outcome::VmError(format!("{e}")), None),
        Err(e) => (Outcome::InputError(format!("{e}")), None),
    }
}

/// A second, raw run of the same function that yields the relocated trace.
pub fn run_trace(c: &Compiled, f: &Function, args: &[Arg], gas: Option<usize>) -> Option<RunFunctionResult> {
    let (mut hp, ctx) = c.runner.prepare_starknet_context(f, args.to_vec(), gas, StarknetState::default()).ok()?;
    let data_len = ctx.bytecode.len();
    raw_run(ctx.bytecode.iter(), ctx.builtins.clone(), |vm| initialize_vm(vm, data_len), &mut hp, ctx.hints_dict).ok()
}

pub fn felt_i(v: i128) -> Felt {
    Felt::from(v)
}

/// Boundary domain B(T) by Sierra debug type name (DESIGN §2.3). `small` caps at 4-5 values.
pub fn domain(ty: &str, small: bool) -> Option<Vec<Felt>> {
    let f = |v: &[i128]| Some(v.iter().map(|x| Felt::from(*x)).collect::<Vec<_>>());
    let two = |k: u32| Felt::TWO.pow(k);
    let full = match ty {
        "felt252" => Some(vec![
            Felt::ZERO,
            Felt::ONE,
            Felt::TWO,
            two(64),
            two(128) - Felt::ONE,
            two(128),
            two(251),
            Felt::from(-1) * Felt::from(2).inverse().unwrap(),
            Felt::from(-2),
            Felt::from(-1),
        ]),
        "u8" => f(&[0, 1, 2, 127, 128, 254, 255]),
        "u16" => f(&[0, 1, 255, 256, 32768, 65534, 65535]),
        "u32" => f(&[0, 1, 65535, 65536, 1 << 31, 4294967294, 4294967295]),
        "u64" => f(&[0, 1, (1 << 32) - 1, 1 << 32, 1 << 63, u64::MAX as i128 - 1, u64::MAX as i128]),
        "u128" => Some(vec![Felt::ZERO, Felt::ONE, Felt::from(u64::MAX), two(64), two(127), Felt::from(u128::MAX - 1), Felt::from(u128::MAX)]),
        "i8" => f(&[-128, -127, -1, 0, 1, 126, 127]),
        "i16" => f(&[-32768, -32767, -1, 0, 1, 32766, 32767]),
        "i32" => f(&[i32::MIN as i128, i32::MIN as i128 + 1, -1, 0, 1, i32::MAX as i128 - 1, i32::MAX as i128]),
        "i64" => f(&[i64::MIN as i128, i64::MIN as i128 + 1, -1, 0, 1, i64::MAX as i128 - 1, i64::MAX as i128]),
        "i128" => f(&[i128::MIN, i128::MIN + 1, -1, 0, 1, i128::MAX - 1, i128::MAX]),
        "core::bool" => f(&[0, 1]),
        _ => None,
    }?;
    if small && full.len() > 4 {
        let n = full.len();
        Some(vec![full[0], full[1], full[n / 2], full[n - 1]])
    } else {
        Some(full)
    }
}

/// Expands parameter type names into per-felt domains (u256 = two u128 limbs). None if unsupported.
pub fn param_domains(params: &[String], small: bool) -> Option<Vec<Vec<Felt>>> {
    let mut out = vec![];
    for p in params {
        if p == "core::integer::u256" {
            out.push(domain("u128", true)?);
            out.push(vec![Felt::ZERO, Felt::ONE, Felt::from(u128::MAX)]);
        } else {
            out.push(domain(p, small)?);
        }
    }
    Some(out)
}

/// Calls `f` on every element of the cross product.
pub fn cross<T: Clone>(doms: &[Vec<T>], mut f: impl FnMut(&[T])) {
    if doms.iter().any(|d| d.is_empty()) {
        return;
    }
    let mut idx = vec![0usize; doms.len()];
    loop {
        let cur: Vec<T> = idx.iter().zip(doms).map(|(i, d)| d[*i].clone()).collect();
        f(&cur);
        let mut k = doms.len();
        loop {
            if k == 0 {
                return;
            }
            k -= 1;
            idx[k] += 1;
            if idx[k] < doms[k].len() {
                break;
            }
            idx[k] = 0;
        }
    }
}

pub fn felts_str(v: &[Felt]) -> Vec<String> {
    v.iter().map(|f| short_felt(f)).collect()
}
pub fn short_felt(f: &Felt) -> String {
    let b = f.to_bigint();
    let p = Felt::prime().to_string().parse::<num_bigint::BigInt>().unwrap();
    let neg = &b - &p;
    if b.bits() > 200 { format!("P{neg}") } else { b.to_string() }
}

/// E2E-CAIRO corpus: (file#index, cairo code) of every `//! > cairo_code` section.
pub fn e2e_cairo() -> Vec<(String, String)> {
    e2e_sections("cairo_code")
}
/// E2E-SIERRA corpus.
pub fn e2e_sierra() -> Vec<(String, String)> {
    e2e_sections("sierra_code")
}
fn e2e_sections(tag: &str) -> Vec<(String, String)> {
    let mut files = vec![];
    fn walk(d: &std::path::Path, out: &mut Vec<PathBuf>) {
        let Ok(rd) = std::fs::read_dir(d) else { return };
        let mut es: Vec<PathBuf> = rd.filter_map(|e| e.ok().map(|e| e.path())).collect();
        es.sort();
        for p in es {
            if p.is_dir() { walk(&p, out) } else { out.push(p) }
        }
    }
    walk(std::path::Path::new("/repo/tests/e2e_test_data"), &mut files);
    let marker = format!("//! > {tag}\n");
    let mut out = vec![];
    for p in files {
        let Ok(text) = std::fs::read_to_string(&p) else { continue };
        let rel = p.strip_prefix("/repo/tests/e2e_test_data").unwrap().to_string_lossy().trim_start_matches('/').to_string();
        for (i, sect) in text.split(&marker).skip(1).enumerate() {
            let code = sect.split("//! > ").next().unwrap();
            out.push((format!("{rel}#{i}"), code.to_string()));
        }
    }
    out
}
