#[starknet::interface]
trait ICounter<TState> {
    fn get(self: @TState) -> u128;
    fn bump(ref self: TState, by: u128);
}
#[starknet::component]
mod ownable {
    #[storage]
    pub struct Storage {
        pub owner: felt252,
    }
    #[event]
    #[derive(Drop, starknet::Event)]
    pub enum Event {
        Moved: Moved,
    }
    #[derive(Drop, starknet::Event)]
    pub struct Moved {
        #[key]
        pub to: felt252,
    }
    #[embeddable_as(OwnableImpl)]
    pub impl Ownable<TContractState, +HasComponent<TContractState>> of super::IOwn<ComponentState<TContractState>> {
        fn owner(self: @ComponentState<TContractState>) -> felt252 {
            self.owner.read()
        }
    }
}
#[starknet::interface]
trait IOwn<TState> {
    fn owner(self: @TState) -> felt252;
}
#[derive(Drop, Serde, starknet::Store)]
struct Pair {
    a: u8,
    b: u128,
}
#[starknet::storage_node]
struct Node {
    v: u128,
    m: starknet::storage::Map<felt252, Pair>,
}
#[starknet::contract]
mod counter {
    use starknet::storage::{StoragePointerReadAccess, StoragePointerWriteAccess, StoragePathEntry, Map};
    component!(path: super::ownable, storage: own, event: OwnEvent);
    #[abi(embed_v0)]
    impl OwnableImpl = super::ownable::OwnableImpl<ContractState>;
    #[storage]
    struct Storage {
        total: u128,
        by_key: Map<felt252, super::Pair>,
        node: super::Node,
        #[substorage(v0)]
        own: super::ownable::Storage,
    }
    #[event]
    #[derive(Drop, starknet::Event)]
    enum Event {
        Bumped: Bumped,
        #[flat]
        OwnEvent: super::ownable::Event,
    }
    #[derive(Drop, starknet::Event)]
    struct Bumped {
        #[key]
        by: u128,
        total: u128,
    }
    #[constructor]
    fn constructor(ref self: ContractState, start: u128) {
        self.total.write(start);
    }
    #[abi(embed_v0)]
    impl CounterImpl of super::ICounter<ContractState> {
        fn get(self: @ContractState) -> u128 {
            self.total.read() + self.node.v.read()
        }
        fn bump(ref self: ContractState, by: u128) {
            let t = self.total.read() + by;
            self.total.write(t);
            self.by_key.entry(1).write(super::Pair { a: 1, b: t });
            self.emit(Bumped { by, total: t });
        }
    }
    #[l1_handler]
    fn handle(ref self: ContractState, from_address: felt252, x: u128) {
        self.total.write(x);
    }
    #[external(v0)]
    fn free(self: @ContractState) -> u128 {
        self.total.read()
    }
}
