//! C14 — untrusted Sierra is handled totally.  (a) program-level single-point mutants through
//! registry -> metadata (linear and legacy solvers) -> compile;  (b) felt-level mutants of serialized
//! contract classes through extract_sierra_program -> CasmContractClass::from_contract_class.

use std::collections::BTreeMap;

use cairo_lang_sierra::program::Program;
use cairo_lang_sierra_to_casm::compiler::{SierraToCasmConfig, compile};
use cairo_lang_sierra_to_casm::metadata::{MetadataComputationConfig, calc_metadata};
use cairo_lang_sierra_type_size::ProgramRegistryInfo;
use cairo_lang_starknet_classes::casm_contract_class::CasmContractClass;
use cairo_lang_starknet_classes::contract_class::{ContractClass, ContractEntryPoint, ContractEntryPoints};
use cairo_lang_utils::bigint::BigUintAsHex;
use num_bigint::BigUint;
use num_traits::Zero;
use serde_json::json;

use crate::core::{CheckDef, Ctx, Tier, panic_sig};
use crate::sierra::{MutCfg, Mutation, apply, corpus, mutations};

#[derive(Clone, Copy, PartialEq, Eq, Debug)]
pub enum Stage {
    RegistryErr,
    MetadataErr,
    CompileErr,
    Ok,
}

pub fn pipeline(p: &Program, linear: bool) -> Stage {
    let Ok(info) = ProgramRegistryInfo::new(p) else { return Stage::RegistryErr };
    let cfg = MetadataComputationConfig { linear_gas_solver: linear, linear_ap_change_solver: linear, ..Default::default() };
    let Ok(md) = calc_metadata(p, &info, cfg) else { return Stage::MetadataErr };
    match compile(p, &info, &md, SierraToCasmConfig { gas_usage_check: true, max_bytecode_size: usize::MAX }) {
        Ok(_) => Stage::Ok,
        Err(_) => Stage::CompileErr,
    }
}

/// Coarse location of a mutation, used to key crash findings (which have no panic site).
pub fn sig_hint(p: &Program, m: &Mutation) -> String {
    let decl = |is_lf: bool, di: usize| -> String {
        if is_lf { format!("libfunc-decl:{}", p.libfunc_declarations[di].long_id.generic_id.0) } else { format!("type-decl:{}", p.type_declarations[di].long_id.generic_id.0) }
    };
    match m {
        Mutation::GenericArgEdit(l, d, _, _) | Mutation::GenericArgDrop(l, d, _) | Mutation::GenericArgDupLast(l, d) => decl(*l, *d),
        Mutation::TypeInfoFlip(t, _) => decl(false, *t),
        other => format!("{other:?}").split('(').next().unwrap_or("").to_string(),
    }
}

pub fn mut_cfg(tier: Tier, nstatements: usize) -> MutCfg {
    match tier {
        Tier::Quick => MutCfg { var_cap: 6, libfunc_cap: 12, target_cap: 12, type_cap: 6 },
        Tier::Thorough => {
            if nstatements <= 120 {
                MutCfg::FULL
            } else {
                MutCfg { var_cap: 8, libfunc_cap: 16, target_cap: 16, type_cap: 8 }
            }
        }
    }
}

fn run_program_mutants(ctx: &mut Ctx) {
    let tier = ctx.tier;
    let progs = corpus(tier == Tier::Thorough);
    let max_stmts = tier.pick(60, 400);
    for (name, p) in &progs {
        if p.statements.len() > max_stmts {
            continue;
        }
        let muts = mutations(p, &mut_cfg(tier, p.statements.len()));
        for (ci, chunk) in muts.chunks(500).enumerate() {
            ctx.case(
                || json!({"space":"program-mutants","program":name,"chunk":ci}),
                |ctx| {
                    ctx.count("programs_chunks", 1);
                    for (k, m) in chunk.iter().enumerate() {
                        if !ctx.sub(|| json!({"program":name,"mutation":m.describe(),"mutation_index":ci*500+k,"sig_hint":sig_hint(p, m)})) {
                            continue;
                        }
                        let q = apply(p, m);
                        ctx.distinct(&(name, ci, k));
                        if ci == 0 && k == 3 {
                            ctx.sample(|| json!({"program":name,"mutation":m.describe()}));
                        }
                        for linear in [true, false] {
                            ctx.count("evaluations", 1);
                            let r = ctx.guarded(|| pipeline(&q, linear));
                            match r {
                                Ok(st) => ctx.outcome(&format!("{st:?}/{}", if linear { "linear" } else { "legacy" })),
                                Err((loc, msg)) => {
                                    ctx.outcome("panic");
                                    ctx.violation(
                                        panic_sig(&loc, &msg),
                                        format!("panic at {loc}: {}", msg.chars().take(200).collect::<String>()),
                                        json!({"program":name,"mutation":m.describe(),"solver": if linear {"linear"} else {"legacy"},"mutation_index":ci*500+k}),
                                    );
                                }
                            }
                        }
                    }
                },
            );
        }
    }
}

// ---- felt level -------------------------------------------------------------------------------------

fn words_per_felt(padded: usize) -> usize {
    let prime = BigUint::parse_bytes(b"800000000000011000000000000000000000000000000000000000000000001", 16).unwrap();
    let mut count = 0;
    let mut max = BigUint::from(padded);
    while max < prime {
        max *= padded;
        count += 1;
    }
    count
}
/// Harness-side re-implementation of the class compression (validated by round trip on every corpus class).
pub fn my_compress(values: &[BigUint]) -> Vec<BigUint> {
    let mut code: Vec<&BigUint> = vec![];
    let mut index: BTreeMap<&BigUint, usize> = BTreeMap::new();
    for v in values {
        if !index.contains_key(v) {
            index.insert(v, code.len());
            code.push(v);
        }
    }
    let padded = std::cmp::max(256, code.len()).next_power_of_two();
    let mut out: Vec<BigUint> = vec![code.len().into(), (padded - code.len()).into()];
    out.extend(code.iter().map(|c| (*c).clone()));
    out.push(values.len().into());
    let w = words_per_felt(padded);
    for ch in values.chunks(w) {
        let mut packed = BigUint::zero();
        for v in ch.iter().rev() {
            packed *= padded;
            packed += index[v];
        }
        out.push(packed);
    }
    out
}
pub fn my_decompress(packed: &[BigUint]) -> Option<Vec<BigUint>> {
    use num_traits::ToPrimitive;
    let code_size = packed.first()?.to_usize()?;
    let padding = packed.get(1)?.to_usize()?;
    let code = packed.get(2..2 + code_size)?;
    let n = packed.get(2 + code_size)?.to_usize()?;
    let rest = packed.get(3 + code_size..)?;
    let padded = code_size + padding;
    let w = words_per_felt(padded);
    let mut out = vec![];
    for pv in rest {
        let mut v = pv.clone();
        for _ in 0..w {
            if out.len() == n {
                break;
            }
            let idx = (&v % padded).to_usize()?;
            v /= padded;
            out.push(code.get(idx)?.clone());
        }
    }
    (out.len() == n).then_some(out)
}

/// (values per packed felt, unpacked length) of a compressed felt vector.
pub fn packing_shape(packed: &[BigUint]) -> Option<(usize, usize)> {
    use num_traits::ToPrimitive;
    let code_size = packed.first()?.to_usize()?;
    let padding = packed.get(1)?.to_usize()?;
    let n = packed.get(2 + code_size)?.to_usize()?;
    Some((words_per_felt(code_size + padding), n))
}

fn felt_values(v: &BigUint, len: usize) -> Vec<BigUint> {
    let p = BigUint::parse_bytes(b"800000000000011000000000000000000000000000000000000000000000001", 16).unwrap();
    let mut out: Vec<BigUint> = vec![
        0u8.into(),
        1u8.into(),
        2u8.into(),
        v + 1u8,
        len.into(),
        (len + 1).into(),
        (1u64 << 31).into(),
        (u32::MAX as u64).into(),
        (1u64 << 63).into(),
        u64::MAX.into(),
        BigUint::from(u64::MAX) + 1u8,
        &p - 1u8,
    ];
    if !v.is_zero() {
        out.push(v - 1u8);
    }
    if len > 0 {
        out.push((len - 1).into());
    }
    out.retain(|x| x != v);
    out.sort();
    out.dedup();
    out
}

fn class_of(felts: Vec<BigUint>, nfuncs: usize) -> ContractClass {
    let eps = if nfuncs > 0 {
        ContractEntryPoints { external: vec![ContractEntryPoint { selector: 7u8.into(), function_idx: 0 }], l1_handler: vec![], constructor: vec![] }
    } else {
        ContractEntryPoints::default()
    };
    ContractClass {
        sierra_program: felts.into_iter().map(|value| BigUintAsHex { value }).collect(),
        sierra_program_debug_info: None,
        contract_class_version: "0.1.0".into(),
        entry_points_by_type: eps,
        abi: None,
    }
}

/// The full untrusted-class path.
fn class_pipeline(felts: Vec<BigUint>, nfuncs: usize, pythonic: bool, max_bytecode: usize) -> &'static str {
    let class = class_of(felts, nfuncs);
    let Ok(ext) = class.extract_sierra_program(false) else { return "extract_err" };
    match CasmContractClass::from_contract_class(class, ext, pythonic, max_bytecode) {
        Ok(_) => "casm_ok",
        Err(_) => "casm_err",
    }
}

fn run_felt_mutants(ctx: &mut Ctx) {
    let tier = ctx.tier;
    let progs = corpus(false);
    let (nprogs, max_stmts, pos_step) = tier.pick((12usize, 25usize, 1usize), (120, 60, 1));
    let mut taken = 0;
    // spread over the corpus: every k-th eligible program
    let eligible: Vec<&(String, Program)> = progs.iter().filter(|(_, p)| p.statements.len() <= max_stmts && !p.funcs.is_empty()).collect();
    let stride = (eligible.len() / nprogs).max(1);
    for (name, p) in eligible.iter().step_by(stride) {
        taken += 1;
        if taken > nprogs {
            break;
        }
        let Ok(class) = ContractClass::new(p, ContractEntryPoints::default(), None, Default::default()) else {
            ctx.count("unserializable_programs", 1);
            continue;
        };
        let compressed: Vec<BigUint> = class.sierra_program.iter().map(|x| x.value.clone()).collect();
        let Some(raw) = my_decompress(&compressed[6..]) else {
            ctx.violation("harness:decompress-model", "harness decompressor failed on a valid class", json!({"program":name}));
            continue;
        };
        let mut re = compressed[..6].to_vec();
        re.extend(my_compress(&raw));
        if re != compressed {
            ctx.violation("harness:compress-model", "harness compressor disagrees with the implementation", json!({"program":name}));
            continue;
        }
        let nfuncs = p.funcs.len();
        // mutate the uncompressed stream (program structure) and the compressed stream (container)
        for (layer, base) in [("uncompressed", &raw), ("compressed", &compressed)] {
            let positions: Vec<usize> = (0..base.len()).step_by(pos_step).collect();
            for chunk in positions.chunks(40) {
                ctx.case(
                    || json!({"space":"felt-mutants","program":name,"layer":layer,"positions":[chunk[0], chunk[chunk.len()-1]]}),
                    |ctx| {
                        ctx.set_timeout_s(30);
                        let mut run = |ctx: &mut Ctx, what: serde_json::Value, v: Vec<BigUint>| {
                            let felts = if layer == "uncompressed" {
                                let mut f = compressed[..6].to_vec();
                                f.extend(my_compress(&v));
                                f
                            } else {
                                v
                            };
                            if !ctx.sub(|| json!({"program":name,"layer":layer,"felt_mutation":what})) {
                                return;
                            }
                            ctx.count("evaluations", 1);
                            ctx.distinct(&felts);
                            let r = ctx.guarded(|| class_pipeline(felts, nfuncs, false, usize::MAX));
                            match r {
                                Ok(o) => ctx.outcome(&format!("class:{o}")),
                                Err((loc, msg)) => {
                                    ctx.outcome("panic");
                                    ctx.violation(panic_sig(&loc, &msg), format!("panic at {loc}: {}", msg.chars().take(200).collect::<String>()), json!({"program":name,"layer":layer,"felt_mutation":what}));
                                }
                            }
                        };
                        for &pos in chunk {
                            for val in felt_values(&base[pos], base.len()) {
                                let mut v = base.clone();
                                v[pos] = val.clone();
                                run(ctx, json!({"pos":pos,"set":val.to_string()}), v);
                            }
                            let mut v = base.clone();
                            v.remove(pos);
                            run(ctx, json!({"pos":pos,"op":"delete"}), v);
                            let mut v = base.clone();
                            v.insert(pos, base[pos].clone());
                            run(ctx, json!({"pos":pos,"op":"duplicate"}), v);
                            run(ctx, json!({"truncate_at":pos}), base[..pos].to_vec());
                        }
                    },
                );
            }
        }
    }
    // all short vectors over the value set (container level, incl. versions)
    let vals: Vec<BigUint> = vec![0u8.into(), 1u8.into(), 2u8.into(), 255u8.into(), 256u16.into(), u64::MAX.into(), BigUint::from(u64::MAX) + 1u8];
    let maxlen = tier.pick(3, 4);
    for len in 0..=maxlen {
        ctx.case(
            || json!({"space":"short-felt-vectors","len":len}),
            |ctx| {
                // microseconds per vector: a decoder that spins is reported after 10 s per vector
                ctx.set_timeout_s(10);
                let doms = vec![vals.clone(); len];
                let mut all: Vec<Vec<BigUint>> = vec![];
                if len == 0 {
                    all.push(vec![]);
                }
                crate::pipe::cross(&doms, |v| all.push(v.to_vec()));
                for v in all {
                    // as the whole program, and as the payload after a valid version header
                    for with_header in [false, true] {
                        let mut felts: Vec<BigUint> = if with_header { vec![1u8.into(), 7u8.into(), 0u8.into(), 2u8.into(), 20u8.into(), 0u8.into()] } else { vec![] };
                        felts.extend(v.clone());
                        let desc = json!({"felts": felts.iter().map(|x| x.to_string()).collect::<Vec<_>>()});
                        if !ctx.sub(|| desc.clone()) {
                            continue;
                        }
                        ctx.count("evaluations", 1);
                        ctx.distinct(&felts);
                        let r = ctx.guarded(|| class_pipeline(felts, 0, true, 0));
                        match r {
                            Ok(o) => ctx.outcome(&format!("short:{o}")),
                            Err((loc, msg)) => ctx.violation(panic_sig(&loc, &msg), format!("panic at {loc}: {msg}"), desc),
                        }
                    }
                }
            },
        );
    }
}

/// Thorough: second-order mutants MUT(MUT(s)) of the smallest programs through the whole pipeline, both solvers.
fn run_pairs(ctx: &mut Ctx) {
    if ctx.tier != Tier::Thorough {
        return;
    }
    let cfg = crate::sierra::PAIR_CFG;
    for (name, p) in &crate::sierra::pair_seeds() {
        for m1 in mutations(p, &cfg) {
            ctx.case(
                || json!({"space":"second-order-mutants","program":name,"first":m1.describe()}),
                |ctx| {
                    let q1 = apply(p, &m1);
                    for m2 in mutations(&q1, &cfg) {
                        if !ctx.sub(|| json!({"program":name,"first":m1.describe(),"second":m2.describe(),"sig_hint":format!("{}+{}", sig_hint(p, &m1), sig_hint(&q1, &m2))})) {
                            continue;
                        }
                        let q = apply(&q1, &m2);
                        ctx.count("second_order_mutants", 1);
                        for linear in [true, false] {
                            ctx.count("evaluations", 1);
                            match ctx.guarded(|| pipeline(&q, linear)) {
                                Ok(st) => ctx.outcome(&format!("pair:{st:?}/{}", if linear { "linear" } else { "legacy" })),
                                Err((loc, msg)) => {
                                    ctx.outcome("panic");
                                    ctx.violation(
                                        panic_sig(&loc, &msg),
                                        format!("panic at {loc}: {}", msg.chars().take(200).collect::<String>()),
                                        json!({"program":name,"first":m1.describe(),"second":m2.describe(),"solver": if linear {"linear"} else {"legacy"},"sierra":q.to_string()}),
                                    );
                                }
                            }
                        }
                    }
                },
            );
        }
    }
}


/// The size ladder: programs whose parameter lists, return lists, locals and temporaries have total sizes
/// around the `i16` range of `fp` / `ap` offsets (type sizes themselves are capped at i16::MAX by the type
/// size computation, sums of them are not). Every libfunc shape that copies a whole value is included.
fn size_ladder() -> Vec<(String, String)> {
    // A = 10, B = 100, C = 1000, D = 10000 felts
    let st = |name: &str, members: &[(&str, usize)]| -> String {
        let ms: Vec<String> = members.iter().flat_map(|(t, n)| std::iter::repeat(t.to_string()).take(*n)).collect();
        format!("type {name} = Struct<ut@{name}, {}>;", ms.join(", "))
    };
    let mut types = vec!["type felt252 = felt252;".to_string(), st("A", &[("felt252", 10)]), st("B", &[("A", 10)]), st("C", &[("B", 10)]), st("D", &[("C", 10)])];
    // T<n> for n = 32767 - k: 3 D + 2 C + 7 B + 6 A + (7 - k) felts
    let sizes: Vec<usize> = vec![32767, 32766, 32765, 32764, 32763, 32760, 30000, 20000, 16384, 16383, 10922];
    for n in &sizes {
        let (d, r) = (n / 10000, n % 10000);
        let (c, r) = (r / 1000, r % 1000);
        let (b, r) = (r / 100, r % 100);
        let (a, f) = (r / 10, r % 10);
        types.push(st(&format!("T{n}"), &[("D", d), ("C", c), ("B", b), ("A", a), ("felt252", f)]));
    }
    let mut out = vec![];
    let prog = |types: &[String], libfuncs: &[String], body: &[String]| format!("{}\n{}\n{}\n", types.join("\n"), libfuncs.join("\n"), body.join("\n"));
    for n in &sizes {
        let t = format!("T{n}");
        let lf = |g: &str| format!("libfunc {g}<{t}> = {g}<{t}>;");
        // k parameters of the type, dropped
        for k in [1usize, 2, 3, 4] {
            let params: Vec<String> = (0..k).map(|i| format!("[{i}]: {t}")).collect();
            let mut body: Vec<String> = (0..k).map(|i| format!("drop<{t}>([{i}]) -> ();")).collect();
            body.push("return();".into());
            body.push(format!("test::f@0({}) -> ();", params.join(", ")));
            out.push((format!("size:params:{k}x{n}"), prog(&types, &[lf("drop")], &body)));
        }
        // identity through store_temp, dup, rename, locals, a call, a box, an array
        out.push((format!("size:store_temp:{n}"), prog(&types, &[lf("store_temp")], &[format!("store_temp<{t}>([0]) -> ([0]);"), "return([0]);".into(), format!("test::f@0([0]: {t}) -> ({t});")])));
        out.push((format!("size:dup:{n}"), prog(&types, &[lf("dup"), lf("store_temp")], &[format!("dup<{t}>([0]) -> ([0], [1]);"), format!("store_temp<{t}>([0]) -> ([0]);"), format!("store_temp<{t}>([1]) -> ([1]);"), "return([0], [1]);".into(), format!("test::f@0([0]: {t}) -> ({t}, {t});")])));
        out.push((
            format!("size:locals:{n}"),
            prog(
                &[types.clone(), vec![format!("type Uninitialized<{t}> = Uninitialized<{t}>;")]].concat(),
                &[lf("alloc_local"), "libfunc finalize_locals = finalize_locals;".into(), lf("store_local"), lf("store_temp")],
                &[format!("alloc_local<{t}>() -> ([1]);"), format!("alloc_local<{t}>() -> ([2]);"), "finalize_locals() -> ();".into(), format!("store_local<{t}>([2], [0]) -> ([0]);"), format!("store_local<{t}>([1], [0]) -> ([0]);"), format!("store_temp<{t}>([0]) -> ([0]);"), "return([0]);".into(), format!("test::f@0([0]: {t}) -> ({t});")],
            ),
        ));
        out.push((
            format!("size:call:{n}"),
            prog(&types, &[lf("store_temp"), "libfunc function_call<user@test::g> = function_call<user@test::g>;".into()], &[format!("store_temp<{t}>([0]) -> ([0]);"), "function_call<user@test::g>([0]) -> ([1]);".into(), "return([1]);".into(), format!("store_temp<{t}>([0]) -> ([0]);"), "return([0]);".into(), format!("test::f@0([0]: {t}) -> ({t});"), format!("test::g@3([0]: {t}) -> ({t});")]),
        ));
        out.push((
            format!("size:box:{n}"),
            prog(&[types.clone(), vec![format!("type Box<{t}> = Box<{t}>;")]].concat(), &[lf("into_box"), lf("unbox"), lf("store_temp")], &[format!("into_box<{t}>([0]) -> ([1]);"), format!("unbox<{t}>([1]) -> ([2]);"), format!("store_temp<{t}>([2]) -> ([2]);"), "return([2]);".into(), format!("test::f@0([0]: {t}) -> ({t});")]),
        ));
        out.push((
            format!("size:array:{n}"),
            prog(
                &[types.clone(), vec![format!("type Array<{t}> = Array<{t}>;")]].concat(),
                &[lf("array_new"), lf("array_append"), format!("libfunc store_temp<Array<{t}>> = store_temp<Array<{t}>>;")],
                &[format!("array_new<{t}>() -> ([1]);"), format!("array_append<{t}>([1], [0]) -> ([2]);"), format!("store_temp<Array<{t}>>([2]) -> ([2]);"), "return([2]);".into(), format!("test::f@0([0]: {t}) -> (Array<{t}>);")],
            ),
        ));
        out.push((
            format!("size:enum:{n}"),
            prog(&[types.clone(), vec![format!("type E = Enum<ut@E, {t}, felt252>;")]].concat(), &[format!("libfunc enum_init<E, 0> = enum_init<E, 0>;"), "libfunc store_temp<E> = store_temp<E>;".into()], &[format!("enum_init<E, 0>([0]) -> ([1]);"), "store_temp<E>([1]) -> ([1]);".into(), "return([1]);".into(), format!("test::f@0([0]: {t}) -> (E);")]),
        ));
        out.push((
            format!("size:deconstruct:{n}"),
            prog(&[types.clone(), vec![format!("type P = Struct<ut@P, {t}, felt252>;")]].concat(), &["libfunc struct_deconstruct<P> = struct_deconstruct<P>;".into(), lf("drop"), "libfunc store_temp<felt252> = store_temp<felt252>;".into()], &["struct_deconstruct<P>([0]) -> ([1], [2]);".into(), format!("drop<{t}>([1]) -> ();"), "store_temp<felt252>([2]) -> ([2]);".into(), "return([2]);".into(), "test::f@0([0]: P) -> (felt252);".into()]),
        ));
    }
    // k temporaries of one big type alive at once (ap-relative offsets beyond i16), returned together
    for n in [30000usize, 16384, 16383, 10922] {
        let t = format!("T{n}");
        for k in [2usize, 3, 4] {
            let mut body: Vec<String> = vec![];
            for i in 1..k {
                body.push(format!("dup<{t}>([0]) -> ([0], [{i}]);"));
            }
            for i in 0..k {
                body.push(format!("store_temp<{t}>([{i}]) -> ([{i}]);"));
            }
            body.push(format!("return({});", (0..k).map(|i| format!("[{i}]")).collect::<Vec<_>>().join(", ")));
            body.push(format!("test::f@0([0]: {t}) -> ({});", vec![t.clone(); k].join(", ")));
            out.push((format!("size:temps:{k}x{n}"), prog(&types, &[format!("libfunc dup<{t}> = dup<{t}>;"), format!("libfunc store_temp<{t}> = store_temp<{t}>;")], &body)));
        }
    }
    // very many small parameters
    for k in [32764usize, 32765, 32766, 40000] {
        let params: Vec<String> = (0..k).map(|i| format!("[{i}]: felt252")).collect();
        let mut body: Vec<String> = (0..k).map(|i| format!("drop<felt252>([{i}]) -> ();")).collect();
        body.push("return();".into());
        body.push(format!("test::f@0({}) -> ();", params.join(", ")));
        out.push((format!("size:many-params:{k}"), prog(&types[..1], &["libfunc drop<felt252> = drop<felt252>;".to_string()], &body)));
    }
    out
}

fn run_size_ladder(ctx: &mut Ctx) {
    for (name, text) in size_ladder() {
        ctx.case(
            || json!({"space":"size-ladder","program":name}),
            |ctx| {
                let p = match cairo_lang_sierra::ProgramParser::new().parse(&text) {
                    Ok(p) => p,
                    Err(e) => panic!("harness: size ladder program {name} does not parse: {e:?}"),
                };
                for linear in [true, false] {
                    if !ctx.sub(|| json!({"program": name, "linear": linear, "sierra": text.chars().rev().take(600).collect::<String>().chars().rev().collect::<String>()})) {
                        continue;
                    }
                    ctx.count("evaluations", 1);
                    ctx.distinct(&(name.as_str(), linear));
                    match ctx.guarded(|| pipeline(&p, linear)) {
                        Ok(st) => ctx.outcome(&format!("size-ladder:{st:?}")),
                        Err((loc, msg)) => ctx.violation(panic_sig(&loc, &msg), format!("panic at {loc}: {}", msg.chars().take(200).collect::<String>()), json!({"program": name, "linear": linear})),
                    }
                }
            },
        );
    }
}

fn run(ctx: &mut Ctx) {
    run_size_ladder(ctx);
    run_pairs(ctx);
    run_program_mutants(ctx);
    run_felt_mutants(ctx);
    crate::c14inst::run_type_lattice(ctx);
    crate::c14inst::run_libfunc_lattice(ctx);
}

pub static C14: CheckDef = CheckDef {
    id: "C14",
    level: "exploration",
    rule: "(a) every single-point mutant (statement delete/duplicate/swap; libfunc id -> other declared libfunc; argument/result/param var -> other var or fresh; branch target -> any statement or fallthrough; entry point -> any statement; return list swap/truncate/extend; type/libfunc/function declaration delete/duplicate/swap/move-to-end; generic arg -> +-1,0,-1,2^128,2^251,-2^127,u64::MAX,other type/kind, dropped, duplicated; signature type -> other declared type; declared-type-info bit flips) of every corpus Sierra program up to the statement bound (quick: e2e programs <=60 statements with capped replacement alphabets; thorough: e2e + *.sierra files <=400 statements, full alphabets <=120 statements) through ProgramRegistryInfo::new -> calc_metadata (linear AND legacy equation solvers) -> compile; (b) for corpus programs serialized as a contract class: every position of the uncompressed felt stream and of the compressed container x 12-14 boundary replacements + delete + duplicate + truncate, and every felt vector of length <=3 (4) over a 7-value set with and without a valid version header, through ContractClass::extract_sierra_program -> CasmContractClass::from_contract_class. (c) the instantiation lattice (programs no compiler produces): every generic type id (70) x every generic-argument tuple of length <=2, user-type-led tuples of length 3 and (quick <=4, thorough <=6)-tuples over a 5-symbol mixed alphabet, arguments drawn from ~45 accepted edge types (zero-sized and empty structs, empty enum, consts of every shape incl. zero-sized / nested / enum / NonZero consts, BoundedInt<0,0>, circuit gates and circuits incl. the empty circuit), 8 boundary values, user types and user functions, each declared through ProgramRegistryInfo::new; then every generic libfunc id of CoreLibfunc::supported_ids() x the same tuples over the ~150-type universe, specialised with the real `specialize`, and every accepted instantiation wrapped in a function that takes the libfunc's parameters and returns / drops its outputs (fallthrough branch laid out first) and pushed through the whole pipeline with both solvers. (e) the size ladder: 11 struct types of 10 922 .. 32 767 cells (type sizes are capped at i16::MAX, their sums are not) as 1..4 parameters, through store_temp / dup / two locals / a call / box / array / enum / deconstruct, 2..4 big temporaries returned together, and 32 764 .. 40 000 felt252 parameters. (d) thorough: second-order mutants MUT(MUT(s)) of the <=200 smallest programs (<=9 statements; capped alphabets), both solvers. Oracle: returns Ok/Err; panic, abort, stack overflow, watchdog or address-space cap = violation keyed by panic site. distinct_nontrivial = distinct mutants.",
    assumptions: &["corpus programs are seeds; the mutation operators carry the quantifier", "4 GiB address-space cap and 60 s per 500-mutant item stand for 'allocates without bound' / 'hangs'"],
    run,
    stack_mb: 8,
    item_timeout_s: 400,
    wall_cap_s: (50, 1700),
    shards: 0,
};
