//! C14 (c) — the instantiation lattice: every generic type and every generic libfunc of the core set,
//! instantiated with every generic-argument tuple (length <= 2, plus user-type-led tuples of length 3) over
//! a universe of edge types (zero-sized, empty enum, nested wrappers, consts of every shape, circuit gates),
//! boundary values, user types and user functions.  An instantiation that the registry accepts is wrapped in
//! a function that takes the libfunc's parameters as its own parameters and returns / drops its outputs, and
//! is pushed through registry -> metadata (both solvers) -> sierra-to-casm.  Nothing here is produced by
//! the Cairo compiler: this is the "arbitrary types, generic arguments" part of the property.

use std::collections::{BTreeMap, BTreeSet, HashMap};

use cairo_lang_sierra::ProgramParser;
use cairo_lang_sierra::extensions::core::{CoreLibfunc, CoreType};
use cairo_lang_sierra::extensions::lib_func::{BranchSignature, ParamSignature, SignatureSpecializationContext, SpecializationContext};
use cairo_lang_sierra::extensions::type_specialization_context::TypeSpecializationContext;
use cairo_lang_sierra::extensions::types::TypeInfo;
use cairo_lang_sierra::extensions::{ConcreteLibfunc, ConcreteType, GenericLibfunc};
use cairo_lang_sierra::ids::{ConcreteTypeId, FunctionId, GenericLibfuncId, GenericTypeId};
use cairo_lang_sierra::program::{Function, FunctionSignature, GenericArg, Program};
use cairo_lang_sierra::program_registry::ProgramRegistry;
use serde_json::json;

use crate::c14::pipeline;
use crate::core::{Ctx, Tier, guarded, panic_sig};

pub const GENERIC_TYPES: &[&str] = &[
    "AddMod", "AddModGate", "Array", "Bitwise", "Blake2sState", "BoundedInt", "BoundedIntGuarantee", "Box", "BuiltinCosts", "Circuit",
    "CircuitData", "CircuitDescriptor", "CircuitFailureGuarantee", "CircuitInput", "CircuitInputAccumulator", "CircuitModulus",
    "CircuitOutputs", "CircuitPartialOutputs", "ClassHash", "Const", "ContractAddress", "Coupon", "EcOp", "EcPoint", "EcState", "Enum",
    "Felt252Dict", "Felt252DictEntry", "GasBuiltin", "GasReserve", "IntRange", "InverseGate", "MulMod", "MulModGate", "NonZero",
    "Nullable", "Pedersen", "Poseidon", "RangeCheck", "RangeCheck96", "Secp256k1Point", "Secp256r1Point", "SegmentArena",
    "Sha256StateHandle", "Sha512StateHandle", "Snapshot", "Span", "SquashedFelt252Dict", "StorageAddress", "StorageBaseAddress", "Struct",
    "SubModGate", "System", "U128MulGuarantee", "U96Guarantee", "U96LimbsLtGuarantee", "Uninitialized", "bytes31", "felt252", "i128",
    "i16", "i32", "i64", "i8", "qm31", "u128", "u16", "u32", "u64", "u8",
];

/// Hand-picked composite types (in dependency order); each is tested like any other candidate.
const COMPOSITES: &[&str] = &[
    "Struct<ut@Tuple>",
    "Struct<ut@Empty>",
    "Enum<ut@Never>",
    "Enum<ut@Two, Struct<ut@Tuple>, Struct<ut@Tuple>>",
    "Enum<ut@Opt, felt252, Struct<ut@Tuple>>",
    "Struct<ut@Pair, felt252, u8>",
    "Struct<ut@WrapUnit, Struct<ut@Tuple>>",
    "Struct<ut@U256, u128, u128>",
    "BoundedInt<0, 0>",
    "BoundedInt<-1, 1>",
    "BoundedInt<0, 255>",
    // ranges whose ends sit on the range-check bound 2^128 / below zero (one-sided casts, constrain halves)
    "BoundedInt<1, 340282366920938463463374607431768211456>",
    "BoundedInt<340282366920938463463374607431768211456, 340282366920938463463374607431768211556>",
    "BoundedInt<-5, 127>",
    "BoundedInt<-340282366920938463463374607431768211456, -1>",
    "Array<felt252>",
    "Box<felt252>",
    "Snapshot<Array<felt252>>",
    "NonZero<felt252>",
    "Nullable<felt252>",
    "Const<felt252, 1>",
    "Const<felt252, 0>",
    "Const<u8, 2>",
    "Const<u8, 255>",
    "Const<i8, -128>",
    "Const<Struct<ut@Tuple>>",
    "Const<Struct<ut@Empty>>",
    "Const<Struct<ut@Pair, felt252, u8>, Const<felt252, 1>, Const<u8, 2>>",
    "Const<Struct<ut@WrapUnit, Struct<ut@Tuple>>, Const<Struct<ut@Tuple>>>",
    "Const<Enum<ut@Opt, felt252, Struct<ut@Tuple>>, 0, Const<felt252, 1>>",
    "Const<Enum<ut@Opt, felt252, Struct<ut@Tuple>>, 1, Const<Struct<ut@Tuple>>>",
    "Const<Enum<ut@Two, Struct<ut@Tuple>, Struct<ut@Tuple>>, 1, Const<Struct<ut@Tuple>>>",
    "Const<NonZero<felt252>, Const<felt252, 1>>",
    "Const<BoundedInt<0, 0>, 0>",
    "Const<Box<felt252>, Const<felt252, 1>>",
    "CircuitInput<0>",
    "CircuitInput<1>",
    "AddModGate<CircuitInput<0>, CircuitInput<1>>",
    "InverseGate<CircuitInput<0>>",
    "MulModGate<CircuitInput<0>, CircuitInput<0>>",
    "Struct<ut@Tuple, AddModGate<CircuitInput<0>, CircuitInput<1>>>",
    "Circuit<Struct<ut@Tuple, AddModGate<CircuitInput<0>, CircuitInput<1>>>>",
    "Struct<ut@Tuple, InverseGate<CircuitInput<0>>>",
    "Circuit<Struct<ut@Tuple, InverseGate<CircuitInput<0>>>>",
    "Circuit<Struct<ut@Tuple>>",
];

/// The boundary values offered as value arguments.
const VALUES: &[&str] = &["0", "1", "2", "-1", "255", "256", "340282366920938463463374607431768211456", "-170141183460469231731687303715884105728"];

#[derive(Clone, Debug, PartialEq, Eq, Hash, PartialOrd, Ord)]
enum A {
    Ty(String),
    Val(&'static str),
    UserTy(&'static str),
    UserFn(&'static str),
}
impl A {
    fn text(&self) -> String {
        match self {
            A::Ty(t) => t.clone(),
            A::Val(v) => v.to_string(),
            A::UserTy(u) => format!("ut@{u}"),
            A::UserFn(f) => format!("user@{f}"),
        }
    }
}

/// The helper functions offered as `user@` arguments: (name, parameter types, return types).
const HELPERS: &[(&str, &[&str], &[&str])] = &[("G0", &[], &[]), ("G1", &["felt252"], &["felt252"]), ("G2", &["RangeCheck", "felt252"], &["RangeCheck", "felt252"])];

/// Accepted types: text -> declaration chain (dependencies first, itself last).
#[derive(Default, Clone)]
struct Universe {
    chain: BTreeMap<String, Vec<String>>,
    order: Vec<String>,
}
impl Universe {
    fn decls_for<'a>(&'a self, tys: impl IntoIterator<Item = &'a String>) -> Vec<String> {
        let mut seen = BTreeSet::new();
        let mut out = vec![];
        for t in tys {
            for d in self.chain.get(t).map(|c| c.as_slice()).unwrap_or(&[]) {
                if seen.insert(d.clone()) {
                    out.push(d.clone());
                }
            }
        }
        out
    }
    fn add(&mut self, text: String, args: &[A]) {
        let mut chain = self.decls_for(args.iter().filter_map(|a| if let A::Ty(t) = a { Some(t) } else { None }));
        chain.push(text.clone());
        self.order.push(text.clone());
        self.chain.insert(text, chain);
    }
}

fn helper_funcs_text(first_idx: usize, used: &[&str]) -> (String, String) {
    // bodies, declarations
    let (mut body, mut decl, mut idx) = (String::new(), String::new(), first_idx);
    for (name, params, rets) in HELPERS {
        if !used.contains(name) {
            continue;
        }
        for (i, t) in rets.iter().enumerate() {
            body.push_str(&format!("store_temp<{t}>([{i}]) -> ([{i}]);\n"));
        }
        body.push_str(&format!("return({});\n", (0..rets.len()).map(|i| format!("[{i}]")).collect::<Vec<_>>().join(", ")));
        decl.push_str(&format!(
            "{name}@{idx}({}) -> ({});\n",
            params.iter().enumerate().map(|(i, t)| format!("[{i}]: {t}")).collect::<Vec<_>>().join(", "),
            rets.join(", ")
        ));
        idx += rets.len() + 1;
    }
    (body, decl)
}

fn type_decl_text(decls: &[String]) -> String {
    decls.iter().map(|d| format!("type {d} = {d};\n")).collect()
}

/// Parses a declaration-only program (types + optional helper functions).
fn parse(text: &str) -> Option<Program> {
    ProgramParser::new().parse(text).ok()
}

fn cand_text(g: &str, args: &[A]) -> String {
    if args.is_empty() { g.to_string() } else { format!("{g}<{}>", args.iter().map(|a| a.text()).collect::<Vec<_>>().join(", ")) }
}

/// Does the registry accept `cand` (declared after its dependency chain)?  Err = panic.
fn type_accepted(u: &Universe, cand: &str, args: &[A]) -> Result<bool, (String, String)> {
    let mut decls = u.decls_for(args.iter().filter_map(|a| if let A::Ty(t) = a { Some(t) } else { None }));
    if decls.iter().any(|d| d == cand) {
        return Ok(false);
    }
    decls.push(cand.to_string());
    let used: Vec<&str> = args.iter().filter_map(|a| if let A::UserFn(f) = a { Some(*f) } else { None }).collect();
    let mut hdecls = vec![];
    if !used.is_empty() {
        for t in ["felt252", "RangeCheck"] {
            if !decls.iter().any(|d| d == t) {
                hdecls.push(t.to_string());
            }
        }
    }
    let (body, fdecl) = helper_funcs_text(0, &used);
    let lf = if used.is_empty() { String::new() } else { "libfunc store_temp<felt252> = store_temp<felt252>;\nlibfunc store_temp<RangeCheck> = store_temp<RangeCheck>;\n".to_string() };
    let text = format!("{}{}{lf}\n{body}\n{fdecl}", type_decl_text(&hdecls), type_decl_text(&decls));
    let Some(p) = parse(&text) else { return Ok(false) };
    guarded(|| cairo_lang_sierra_type_size::ProgramRegistryInfo::new(&p).is_ok())
}

fn nullary_and_composites() -> (Universe, Vec<(String, Result<bool, (String, String)>)>) {
    let mut u = Universe::default();
    let mut log = vec![];
    for g in GENERIC_TYPES {
        let r = type_accepted(&u, g, &[]);
        if matches!(r, Ok(true)) {
            u.add(g.to_string(), &[]);
        }
        log.push((g.to_string(), r));
    }
    for c in COMPOSITES {
        // dependencies = every already accepted type whose text occurs as a generic argument
        let deps: Vec<A> = top_level_args(c).into_iter().filter(|a| u.chain.contains_key(a)).map(A::Ty).collect();
        let r = type_accepted(&u, c, &deps);
        if matches!(r, Ok(true)) {
            u.add(c.to_string(), &deps);
        }
        log.push((c.to_string(), r));
    }
    (u, log)
}

fn top_level_args(t: &str) -> Vec<String> {
    let Some(lt) = t.find('<') else { return vec![] };
    let inner = &t[lt + 1..t.len() - 1];
    let mut out = vec![];
    let (mut depth, mut cur) = (0, String::new());
    for c in inner.chars() {
        match c {
            '<' => depth += 1,
            '>' => depth -= 1,
            _ => {}
        }
        if c == ',' && depth == 0 {
            out.push(cur.trim().to_string());
            cur.clear();
        } else {
            cur.push(c);
        }
    }
    if !cur.trim().is_empty() {
        out.push(cur.trim().to_string());
    }
    out
}

fn arg_alphabet(types: &[String]) -> Vec<A> {
    let mut v: Vec<A> = types.iter().cloned().map(A::Ty).collect();
    v.extend(VALUES.iter().map(|x| A::Val(x)));
    v.extend(["X", "Tuple"].iter().map(|x| A::UserTy(x)));
    v.extend(HELPERS.iter().map(|h| A::UserFn(h.0)));
    v
}

/// The small type set used for pairs.
fn small_types(u: &Universe, tier: Tier) -> Vec<String> {
    let want: &[&str] = match tier {
        Tier::Quick => &["felt252", "u8", "u128", "Struct<ut@Tuple>", "Enum<ut@Never>", "Array<felt252>", "BoundedInt<0, 0>", "BoundedInt<1, 340282366920938463463374607431768211456>", "Const<felt252, 1>", "CircuitInput<0>"],
        Tier::Thorough => &[
            "felt252", "u8", "u128", "i8", "RangeCheck", "Struct<ut@Tuple>", "Struct<ut@Empty>", "Enum<ut@Never>", "Enum<ut@Opt, felt252, Struct<ut@Tuple>>",
            "Struct<ut@Pair, felt252, u8>", "Array<felt252>", "Box<felt252>", "NonZero<felt252>", "BoundedInt<0, 0>", "BoundedInt<-1, 1>", "BoundedInt<0, 255>", "BoundedInt<1, 340282366920938463463374607431768211456>", "BoundedInt<340282366920938463463374607431768211456, 340282366920938463463374607431768211556>", "BoundedInt<-5, 127>", "BoundedInt<-340282366920938463463374607431768211456, -1>",
            "Const<felt252, 1>", "Const<Struct<ut@Tuple>>", "Const<u8, 2>", "CircuitInput<0>", "CircuitInput<1>", "AddModGate<CircuitInput<0>, CircuitInput<1>>",
            "InverseGate<CircuitInput<0>>", "Snapshot<Array<felt252>>",
        ],
    };
    want.iter().filter(|t| u.chain.contains_key(**t)).map(|t| t.to_string()).collect()
}

fn tuples(alpha: &[A], small: &[A], tier: Tier) -> Vec<Vec<A>> {
    let mut out: Vec<Vec<A>> = vec![vec![]];
    for a in alpha {
        out.push(vec![a.clone()]);
    }
    for a in small {
        for b in small {
            out.push(vec![a.clone(), b.clone()]);
        }
    }
    // user-type-led tuples (Struct / Enum shapes), and (type, value, value)
    let ut = A::UserTy("X");
    for a in small {
        for b in small {
            out.push(vec![ut.clone(), a.clone(), b.clone()]);
        }
    }
    // every tuple up to length 4 (6) over a tiny mixed alphabet: shapes such as <user@F, 0, 1, T, 1, T>
    let tiny = [A::UserFn("G1"), A::Val("0"), A::Val("1"), A::Ty("felt252".into()), A::Ty("Struct<ut@Tuple>".into())];
    let mut level: Vec<Vec<A>> = vec![vec![]];
    for len in 1..=tier.pick(4, 6) {
        level = level.iter().flat_map(|t| tiny.iter().map(move |a| { let mut t = t.clone(); t.push(a.clone()); t })).collect();
        if len >= 3 {
            out.extend(level.iter().cloned());
        }
    }
    if tier == Tier::Thorough {
        for a in small.iter().filter(|a| matches!(a, A::Ty(_))) {
            for b in small {
                for c in small {
                    out.push(vec![a.clone(), b.clone(), c.clone()]);
                }
            }
        }
    }
    out
}

/// Level-1 universe: nullary + composites + every accepted `G<a>` / `G<ut@X, a>` with `a` from the inner set.
fn build_universe(tier: Tier) -> Universe {
    let (mut u, _) = nullary_and_composites();
    let inner: Vec<String> = small_types(&u, tier);
    let base = u.clone();
    for g in GENERIC_TYPES {
        for t in &inner {
            for args in [vec![A::Ty(t.clone())], vec![A::UserTy("X"), A::Ty(t.clone())], vec![A::UserTy("X"), A::Ty(t.clone()), A::Ty(t.clone())]] {
                let c = cand_text(g, &args);
                if u.chain.contains_key(&c) {
                    continue;
                }
                if matches!(type_accepted(&base, &c, &args), Ok(true)) {
                    u.add(c, &args);
                }
            }
        }
    }
    u
}

// ---- type lattice -----------------------------------------------------------------------------------

pub fn run_type_lattice(ctx: &mut Ctx) {
    let tier = ctx.tier;
    let (u0, log0) = nullary_and_composites();
    ctx.case(
        || json!({"space":"type-lattice","generic_type":"(nullary and composite declarations)"}),
        |ctx| {
            for (t, r) in &log0 {
                ctx.count("evaluations", 1);
                match r {
                    Ok(true) => ctx.outcome("type-accepted"),
                    Ok(false) => ctx.outcome("type-rejected"),
                    Err((loc, msg)) => ctx.violation(panic_sig(loc, msg), format!("declaring `type {t}` panics at {loc}: {msg}"), json!({"type": t})),
                }
            }
        },
    );
    let types: Vec<String> = u0.order.clone();
    let alpha = arg_alphabet(&types);
    let small: Vec<A> = arg_alphabet(&small_types(&u0, tier));
    let tups = tuples(&alpha, &small, tier);
    for g in GENERIC_TYPES {
        ctx.case(
            || json!({"space":"type-lattice","generic_type":g}),
            |ctx| {
                for args in &tups {
                    let c = cand_text(g, args);
                    if !ctx.sub(|| json!({"type": c, "sig_hint": format!("type-decl:{g}")})) {
                        continue;
                    }
                    ctx.count("evaluations", 1);
                    ctx.distinct(&c);
                    match type_accepted(&u0, &c, args) {
                        Ok(true) => {
                            ctx.outcome("type-accepted");
                            ctx.sample(|| json!({"type": c, "verdict": "accepted"}));
                        }
                        Ok(false) => ctx.outcome("type-rejected"),
                        Err((loc, msg)) => {
                            ctx.outcome("panic");
                            ctx.violation(panic_sig(&loc, &msg), format!("declaring `type {c}` panics at {loc}: {}", msg.chars().take(200).collect::<String>()), json!({"type": c}))
                        }
                    }
                }
            },
        );
    }
}

// ---- libfunc lattice --------------------------------------------------------------------------------

struct MyCtx {
    infos: HashMap<ConcreteTypeId, TypeInfo>,
    ids: HashMap<(GenericTypeId, Vec<GenericArg>), ConcreteTypeId>,
    funcs: HashMap<FunctionId, Function>,
}
impl TypeSpecializationContext for MyCtx {
    fn try_get_type_info<'a>(&'a self, id: &ConcreteTypeId) -> Option<&'a TypeInfo> {
        self.infos.get(id)
    }
}
impl SignatureSpecializationContext for MyCtx {
    fn try_get_concrete_type(&self, id: GenericTypeId, generic_args: &[GenericArg]) -> Option<ConcreteTypeId> {
        self.ids.get(&(id, generic_args.to_vec())).cloned()
    }
    fn try_get_function_signature(&self, function_id: &FunctionId) -> Option<FunctionSignature> {
        self.funcs.get(function_id).map(|f| f.signature.clone())
    }
}
impl SpecializationContext for MyCtx {
    fn try_get_function(&self, function_id: &FunctionId) -> Option<Function> {
        self.funcs.get(function_id).cloned()
    }
}

struct LfEnv {
    u: Universe,
    ctx: MyCtx,
    /// parsed generic args by text
    args: HashMap<String, GenericArg>,
}

fn build_env(tier: Tier) -> Option<LfEnv> {
    let u = build_universe(tier);
    let all_helpers: Vec<&str> = HELPERS.iter().map(|h| h.0).collect();
    let (body, fdecl) = helper_funcs_text(0, &all_helpers);
    // a probe program declaring every universe type, every offered generic argument (through a dummy
    // declaration that only has to *parse*), and the helper functions
    let text = format!("{}libfunc store_temp<felt252> = store_temp<felt252>;\nlibfunc store_temp<RangeCheck> = store_temp<RangeCheck>;\n\n{body}\n{fdecl}", type_decl_text(&u.order));
    let p = parse(&text)?;
    let reg = ProgramRegistry::<CoreType, CoreLibfunc>::new(&p).ok()?;
    let mut infos = HashMap::new();
    let mut ids = HashMap::new();
    for d in &p.type_declarations {
        infos.insert(d.id.clone(), reg.get_type(&d.id).ok()?.info().clone());
        ids.insert((d.long_id.generic_id.clone(), d.long_id.generic_args.clone()), d.id.clone());
    }
    let funcs = p.funcs.iter().map(|f| (f.id.clone(), f.clone())).collect();
    // generic args by text: parse `libfunc x = x<arg>;`
    let mut args = HashMap::new();
    let alpha = arg_alphabet(&u.order);
    for a in &alpha {
        let t = a.text();
        if let Some(q) = parse(&format!("libfunc probe = probe<{t}>;\n")) {
            if let Some(ga) = q.libfunc_declarations[0].long_id.generic_args.first() {
                args.insert(t, ga.clone());
            }
        }
    }
    Some(LfEnv { u, ctx: MyCtx { infos, ids, funcs }, args })
}

/// Builds the wrapper program for an accepted instantiation.  None = the shape cannot be wrapped (reason).
fn wrapper(env: &LfEnv, g: &str, args: &[A], param_sigs: &[ParamSignature], branch_sigs: &[BranchSignature], fallthrough: Option<usize>) -> Result<String, &'static str> {
    wrapper_with(env, g, args, param_sigs, branch_sigs, fallthrough, None).map(|(t, _)| t)
}

/// `construct = Some(k)`: parameters of box / nullable / enum types are built inside the function from a value
/// of the inner (k-th variant's) type, which the function takes instead - so that the runner, which can only
/// pass scalars, structs and arrays, can execute the instantiation.  Returns the text and whether anything was
/// constructed.
fn wrapper_with(env: &LfEnv, g: &str, args: &[A], param_sigs: &[ParamSignature], branch_sigs: &[BranchSignature], fallthrough: Option<usize>, construct: Option<usize>) -> Result<(String, bool), &'static str> {
    let name = |t: &ConcreteTypeId| t.to_string();
    let droppable = |t: &ConcreteTypeId| env.ctx.infos.get(t).map(|i| i.droppable).unwrap_or(false);
    let lf_params: Vec<String> = param_sigs.iter().map(|p| name(&p.ty)).collect();
    // function parameters, construction prelude, and the variable passed for each libfunc parameter
    let mut params: Vec<String> = vec![];
    let mut prelude: Vec<String> = vec![];
    let mut prelude_lf: BTreeSet<String> = BTreeSet::new();
    let mut prelude_types: BTreeSet<String> = BTreeSet::new();
    let mut pending: Vec<(usize, String, usize)> = vec![]; // (libfunc param index, construction kind, fn param index)
    let mut constructed = false;
    for (i, t) in lf_params.iter().enumerate() {
        let inner = top_level_args(t);
        let known = |x: &String| env.u.chain.contains_key(x);
        let plan: Option<(String, Option<String>)> = match construct {
            None => None,
            Some(k) => {
                if t.starts_with("Box<") && inner.len() == 1 && known(&inner[0]) {
                    Some(("box".into(), Some(inner[0].clone())))
                } else if t.starts_with("Nullable<") && inner.len() == 1 && known(&inner[0]) {
                    if k % 2 == 0 { Some(("nullable".into(), Some(inner[0].clone()))) } else { Some(("null".into(), None)) }
                } else if t.starts_with("Enum<") && inner.len() >= 2 && inner[1..].iter().all(known) {
                    let nv = inner.len() - 1;
                    Some((format!("enum:{}", k % nv), Some(inner[1 + k % nv].clone())))
                } else {
                    None
                }
            }
        };
        match plan {
            None => {
                pending.push((i, "as-is".into(), params.len()));
                params.push(t.clone());
            }
            Some((kind, Some(inner_ty))) => {
                constructed = true;
                pending.push((i, kind, params.len()));
                params.push(inner_ty);
            }
            Some((kind, None)) => {
                constructed = true;
                pending.push((i, kind, usize::MAX));
            }
        }
    }
    let nfp = params.len();
    let mut next_var = nfp;
    let mut arg_vars: Vec<usize> = vec![0; lf_params.len()];
    for (i, kind, fp) in &pending {
        let t = &lf_params[*i];
        let inner = top_level_args(t);
        match kind.as_str() {
            "as-is" => arg_vars[*i] = *fp,
            "box" => {
                prelude_lf.insert(format!("into_box<{}>", inner[0]));
                prelude.push(format!("into_box<{}>([{fp}]) -> ([{next_var}]);", inner[0]));
                arg_vars[*i] = next_var;
                next_var += 1;
            }
            "nullable" => {
                prelude_lf.insert(format!("into_box<{}>", inner[0]));
                prelude_lf.insert(format!("nullable_from_box<{}>", inner[0]));
                prelude_types.insert(format!("Box<{}>", inner[0]));
                prelude.push(format!("into_box<{}>([{fp}]) -> ([{next_var}]);", inner[0]));
                prelude.push(format!("nullable_from_box<{}>([{next_var}]) -> ([{}]);", inner[0], next_var + 1));
                arg_vars[*i] = next_var + 1;
                next_var += 2;
            }
            "null" => {
                prelude_lf.insert(format!("null<{}>", inner[0]));
                prelude.push(format!("null<{}>() -> ([{next_var}]);", inner[0]));
                arg_vars[*i] = next_var;
                next_var += 1;
            }
            k if k.starts_with("enum:") => {
                let idx: usize = k[5..].parse().unwrap_or(0);
                prelude_lf.insert(format!("enum_init<{t}, {idx}>"));
                prelude_lf.insert(format!("store_temp<{t}>"));
                prelude.push(format!("enum_init<{t}, {idx}>([{fp}]) -> ([{next_var}]);"));
                prelude.push(format!("store_temp<{t}>([{next_var}]) -> ([{next_var}]);"));
                arg_vars[*i] = next_var;
                next_var += 1;
            }
            _ => {}
        }
    }
    if prelude_types.iter().any(|t| !env.u.chain.contains_key(t)) {
        return Err("construction needs an undeclared type");
    }
    let np = nfp;
    // per-branch outputs
    let mut branches: Vec<Vec<(usize, ConcreteTypeId)>> = vec![];
    for b in branch_sigs {
        let mut v = vec![];
        for o in &b.vars {
            v.push((next_var, o.ty.clone()));
            next_var += 1;
        }
        branches.push(v);
    }
    // the return types: outputs that cannot be dropped must be returned, and must agree between branches
    let single = branches.len() == 1;
    let kept = |outs: &Vec<(usize, ConcreteTypeId)>| -> Vec<(usize, ConcreteTypeId)> { outs.iter().filter(|(_, t)| single || !droppable(t)).cloned().collect() };
    let rets: Vec<String> = match branches.first() {
        None => vec![],
        Some(b0) => kept(b0).iter().map(|(_, t)| name(t)).collect(),
    };
    for b in &branches {
        if kept(b).iter().map(|(_, t)| name(t)).collect::<Vec<_>>() != rets {
            return Err("branches keep different non-droppable outputs");
        }
    }
    let mut used_types: BTreeSet<String> = params.iter().cloned().chain(lf_params.iter().cloned()).chain(prelude_types.iter().cloned()).collect();
    let mut helper_lf: BTreeSet<String> = prelude_lf.clone();
    let mut stmts: Vec<String> = prelude.clone();
    let base = prelude.len();
    let _ = np;
    let arglist = arg_vars.iter().map(|i| format!("[{i}]")).collect::<Vec<_>>().join(", ");
    // layout: statement 0 = invocation, then each branch's block
    let block = |outs: &Vec<(usize, ConcreteTypeId)>, align: bool, helper_lf: &mut BTreeSet<String>, used_types: &mut BTreeSet<String>| -> Vec<String> {
        let mut b = vec![];
        if align {
            helper_lf.insert("branch_align".into());
            b.push("branch_align() -> ();".to_string());
        }
        for (v, t) in outs {
            used_types.insert(name(t));
            if !single && droppable(t) {
                helper_lf.insert(format!("drop<{}>", name(t)));
                b.push(format!("drop<{}>([{v}]) -> ();", name(t)));
            }
        }
        let ks = kept(outs);
        for (v, t) in &ks {
            helper_lf.insert(format!("store_temp<{}>", name(t)));
            b.push(format!("store_temp<{}>([{v}]) -> ([{v}]);", name(t)));
        }
        b.push(format!("return({});", ks.iter().map(|(v, _)| format!("[{v}]")).collect::<Vec<_>>().join(", ")));
        b
    };
    let blocks: Vec<Vec<String>> = branches.iter().map(|o| block(o, !single, &mut helper_lf, &mut used_types)).collect();
    let outs_text = |o: &Vec<(usize, ConcreteTypeId)>| o.iter().map(|(v, _)| format!("[{v}]")).collect::<Vec<_>>().join(", ");
    if single {
        stmts.push(format!("L({arglist}) -> ({});", outs_text(&branches[0])));
    } else {
        // the libfunc's own fallthrough branch is laid out first
        let ft = fallthrough.unwrap_or(0).min(branches.len().saturating_sub(1));
        let mut layout: Vec<usize> = vec![];
        if !branches.is_empty() {
            layout.push(ft);
            layout.extend((0..branches.len()).filter(|k| *k != ft));
        }
        let mut start_of = vec![0usize; branches.len()];
        let mut start = base + 1;
        for k in &layout {
            start_of[*k] = start;
            start += blocks[*k].len();
        }
        let mut bt = vec![];
        for (k, o) in branches.iter().enumerate() {
            if k == ft {
                bt.push(format!("fallthrough({})", outs_text(o)));
            } else {
                bt.push(format!("{}({})", start_of[k], outs_text(o)));
            }
        }
        stmts.push(format!("L({arglist}) {{ {} }};", bt.join(" ")));
        for k in &layout {
            stmts.extend(blocks[*k].iter().cloned());
        }
    }
    if single {
        stmts.extend(blocks[0].iter().cloned());
    }
    for a in args {
        if let A::Ty(t) = a {
            used_types.insert(t.clone());
        }
    }
    let used_helpers: Vec<&str> = args.iter().filter_map(|a| if let A::UserFn(f) = a { Some(*f) } else { None }).collect();
    if !used_helpers.is_empty() {
        used_types.insert("felt252".into());
        used_types.insert("RangeCheck".into());
        helper_lf.insert("store_temp<felt252>".into());
        helper_lf.insert("store_temp<RangeCheck>".into());
    }
    let decls = env.u.decls_for(used_types.iter());
    let (hbody, hdecl) = helper_funcs_text(stmts.len(), &used_helpers);
    let mut text = type_decl_text(&decls);
    text.push_str(&format!("libfunc L = {};\n", cand_text(g, args)));
    for h in &helper_lf {
        text.push_str(&format!("libfunc {h} = {h};\n"));
    }
    text.push('\n');
    for s in &stmts {
        text.push_str(s);
        text.push('\n');
    }
    text.push_str(&hbody);
    text.push('\n');
    text.push_str(&format!("test::F@0({}) -> ({});\n", params.iter().enumerate().map(|(i, t)| format!("[{i}]: {t}")).collect::<Vec<_>>().join(", "), rets.join(", ")));
    text.push_str(&hdecl);
    Ok((text, constructed))
}

pub fn libfunc_names() -> Vec<String> {
    let mut v: Vec<String> = CoreLibfunc::supported_ids().into_iter().map(|g| g.0.to_string()).collect();
    v.sort();
    v.dedup();
    v
}

pub fn run_libfunc_lattice(ctx: &mut Ctx) {
    let tier = ctx.tier;
    let Some(env) = build_env(tier) else {
        ctx.note("instantiation lattice: the universe program was not accepted — nothing explored".into());
        ctx.count("universe_build_failed", 1);
        return;
    };
    let alpha = arg_alphabet(&env.u.order);
    let small: Vec<A> = arg_alphabet(&small_types(&env.u, tier));
    let tups = tuples(&alpha, &small, tier);
    ctx.max("universe_types", env.u.order.len() as i64);
    for g in libfunc_names() {
        let Some(lf) = CoreLibfunc::by_id(&GenericLibfuncId::from(g.as_str())) else { continue };
        ctx.case(
            || json!({"space":"libfunc-lattice","generic_libfunc":g}),
            |ctx| {
                for args in &tups {
                    let inst = cand_text(&g, args);
                    if !ctx.sub(|| json!({"libfunc": inst, "sig_hint": format!("libfunc-decl:{g}")})) {
                        continue;
                    }
                    ctx.count("evaluations", 1);
                    ctx.distinct(&inst);
                    let gargs: Option<Vec<GenericArg>> = args.iter().map(|a| env.args.get(&a.text()).cloned()).collect();
                    let Some(gargs) = gargs else {
                        ctx.outcome("arg-unparseable");
                        continue;
                    };
                    let sig = match guarded(|| lf.specialize(&env.ctx, &gargs)) {
                        Err((loc, msg)) => {
                            ctx.outcome("panic");
                            ctx.violation(panic_sig(&loc, &msg), format!("specializing `{inst}` panics at {loc}: {}", msg.chars().take(200).collect::<String>()), json!({"libfunc": inst}));
                            continue;
                        }
                        Ok(Err(_)) => {
                            ctx.outcome("libfunc-rejected");
                            continue;
                        }
                        Ok(Ok(s)) => s,
                    };
                    ctx.count("instantiations_accepted", 1);
                    let text = match wrapper(&env, &g, args, sig.param_signatures(), sig.branch_signatures(), sig.fallthrough()) {
                        Ok(t) => t,
                        Err(why) => {
                            ctx.outcome(&format!("not-wrapped:{why}"));
                            continue;
                        }
                    };
                    let Some(p) = parse(&text) else {
                        ctx.outcome("wrapper-unparseable");
                        ctx.note(format!("wrapper of {inst} does not parse"));
                        continue;
                    };
                    ctx.count("states", 1);
                    if std::env::var("VERIF_DEBUG_INST").is_ok() {
                        if let Err(e) = cairo_lang_sierra_type_size::ProgramRegistryInfo::new(&p) {
                            use std::io::Write;
                            let mut f = std::fs::OpenOptions::new().create(true).append(true).open("/tmp/inst-debug.log").unwrap();
                            let _ = writeln!(f, "REGERR {inst}: {e}\n{text}");
                        }
                    }
                    for linear in [true, false] {
                        ctx.count("transitions", 1);
                        match guarded(|| pipeline(&p, linear)) {
                            Ok(st) => {
                                ctx.outcome(&format!("wrapped:{st:?}/{}", if linear { "linear" } else { "legacy" }));
                                if st == crate::c14::Stage::Ok && linear {
                                    ctx.sample(|| json!({"libfunc": inst, "verdict": "compiles", "program": text}));
                                }
                            }
                            Err((loc, msg)) => {
                                ctx.outcome("panic");
                                ctx.violation(
                                    panic_sig(&loc, &msg),
                                    format!("compiling a function that only invokes `{inst}` panics at {loc}: {}", msg.chars().take(200).collect::<String>()),
                                    json!({"libfunc": inst, "solver": if linear {"linear"} else {"legacy"}, "program": text}),
                                );
                            }
                        }
                    }
                }
            },
        );
    }
}

/// Debug: prints the universe, or the wrapper + stages of every instantiation of `g` whose text contains `pat`.
pub fn debug(g: &str, pat: &str) {
    let tier = if std::env::var("VERIF_TIER").as_deref() == Ok("thorough") { Tier::Thorough } else { Tier::Quick };
    let env = build_env(tier).expect("env");
    if g == "universe" {
        for t in &env.u.order {
            println!("{t}");
        }
        return;
    }
    let alpha = arg_alphabet(&env.u.order);
    let small: Vec<A> = arg_alphabet(&small_types(&env.u, tier));
    let lf = CoreLibfunc::by_id(&GenericLibfuncId::from(g)).expect("libfunc");
    for args in tuples(&alpha, &small, tier) {
        let inst = cand_text(g, &args);
        if !inst.contains(pat) {
            continue;
        }
        let gargs: Option<Vec<GenericArg>> = args.iter().map(|a| env.args.get(&a.text()).cloned()).collect();
        let Some(gargs) = gargs else { println!("{inst}: arg unparseable"); continue };
        match guarded(|| lf.specialize(&env.ctx, &gargs)) {
            Err(e) => println!("{inst}: PANIC {e:?}"),
            Ok(Err(e)) => println!("{inst}: rejected {e}"),
            Ok(Ok(sig)) => match wrapper(&env, g, &args, sig.param_signatures(), sig.branch_signatures(), sig.fallthrough()) {
                Err(w) => println!("{inst}: not wrapped: {w}"),
                Ok(text) => {
                    println!("{inst}:\n{text}");
                    match parse(&text) {
                        None => println!("  does not parse"),
                        Some(p) => {
                            if let Err(e) = cairo_lang_sierra_type_size::ProgramRegistryInfo::new(&p) {
                                println!("  registry: {e}");
                            }
                            println!("  stage: {:?}", guarded(|| pipeline(&p, true)));
                        }
                    }
                }
            },
        }
    }
}

/// Every instantiation-lattice wrapper program that compiles with the linear solvers (name, program): seeds
/// for C15 / C18.  Panics are left to C14.
pub fn compiled_wrappers(tier: Tier) -> Vec<(String, Program)> {
    let Some(env) = build_env(tier) else { return vec![] };
    let alpha = arg_alphabet(&env.u.order);
    let small: Vec<A> = arg_alphabet(&small_types(&env.u, tier));
    let tups = tuples(&alpha, &small, tier);
    let mut out = vec![];
    for g in libfunc_names() {
        let Some(lf) = CoreLibfunc::by_id(&GenericLibfuncId::from(g.as_str())) else { continue };
        for args in &tups {
            let gargs: Option<Vec<GenericArg>> = args.iter().map(|a| env.args.get(&a.text()).cloned()).collect();
            let Some(gargs) = gargs else { continue };
            let Ok(Ok(sig)) = guarded(|| lf.specialize(&env.ctx, &gargs)) else { continue };
            let Ok(text) = wrapper(&env, &g, args, sig.param_signatures(), sig.branch_signatures(), sig.fallthrough()) else { continue };
            let Some(p) = parse(&text) else { continue };
            if matches!(guarded(|| pipeline(&p, true)), Ok(crate::c14::Stage::Ok)) {
                out.push((format!("inst:{}", cand_text(&g, args)), p));
            }
            // variants that build box / nullable / enum parameters inside the function (executable by the runner)
            let mut seen = BTreeSet::new();
            for k in 0..3usize {
                let Ok((text, constructed)) = wrapper_with(&env, &g, args, sig.param_signatures(), sig.branch_signatures(), sig.fallthrough(), Some(k)) else { continue };
                if !constructed || !seen.insert(text.clone()) {
                    continue;
                }
                let Some(p) = parse(&text) else { continue };
                if matches!(guarded(|| pipeline(&p, true)), Ok(crate::c14::Stage::Ok)) {
                    out.push((format!("inst:{}#built{k}", cand_text(&g, args)), p));
                }
            }
        }
    }
    out
}
