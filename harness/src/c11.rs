//! C11 — formatting is idempotent and layout-only, under every configuration.

use std::collections::BTreeMap;

use cairo_lang_formatter::{BreakingBehaviorConfig, CollectionsBreakingBehavior, FormatterConfig, get_formatted_file};
use cairo_lang_parser::utils::SimpleParserDatabase;
use cairo_lang_syntax::node::SyntaxNode;
use cairo_lang_syntax::node::kind::SyntaxKind;
use salsa::Database;
use serde_json::{Value, json};

use crate::core::{CheckDef, Ctx, Tier, guarded, panic_sig};
use crate::text::*;

#[derive(Clone, Debug, PartialEq, Eq, Hash)]
enum Tok {
    Code(SyntaxKind, String),
    /// one word of a comment, with the comment kind
    Word(SyntaxKind, String),
}

fn is_comment(k: SyntaxKind) -> bool {
    matches!(k, SyntaxKind::TokenSingleLineComment | SyntaxKind::TokenSingleLineInnerComment | SyntaxKind::TokenSingleLineDocComment)
}

/// Code tokens and comment words of a subtree, in source order.
fn toks(db: &dyn Database, root: SyntaxNode<'_>) -> Vec<Tok> {
    let mut out = vec![];
    let mut stack = vec![root];
    while let Some(n) = stack.pop() {
        let ch = n.get_children(db);
        if ch.is_empty() {
            if let Some(t) = n.text(db) {
                let k = n.kind(db);
                let s = t.long(db).as_str();
                if matches!(k, SyntaxKind::TokenWhitespace | SyntaxKind::TokenNewline) || s.is_empty() {
                    continue;
                }
                if is_comment(k) {
                    // the comment marker and each word; re-wrapping long comment lines is layout
                    let body = s.trim_start_matches('/').trim_start_matches('!');
                    for w in body.split_whitespace() {
                        out.push(Tok::Word(k, w.to_string()));
                    }
                } else {
                    out.push(Tok::Code(k, s.to_string()));
                }
            }
        } else {
            for c in ch.iter().rev() {
                stack.push(*c);
            }
        }
    }
    out
}

/// Removes every `,` immediately followed (ignoring comments) by a closing delimiter or the closing `|` of
/// closure parameters — the "optional trailing comma" freedom.
fn strip_trailing_commas(v: &[Tok]) -> Vec<Tok> {
    let mut out = Vec::with_capacity(v.len());
    // closure parameter bars: an `|` that closes a parameter list is the second of a pair at expression start;
    // approximated as: a `,` directly before `|` is optional (the formatter may add/remove it only there).
    for (i, t) in v.iter().enumerate() {
        if let Tok::Code(SyntaxKind::TokenComma, _) = t {
            let next = v[i + 1..].iter().find(|x| matches!(x, Tok::Code(..)));
            match next {
                None => continue,
                Some(Tok::Code(k, _)) if matches!(k, SyntaxKind::TokenRParen | SyntaxKind::TokenRBrace | SyntaxKind::TokenRBrack | SyntaxKind::TokenGT | SyntaxKind::TokenOr) => continue,
                _ => {}
            }
        }
        out.push(t.clone());
    }
    out
}

fn render(v: &[Tok]) -> String {
    v.iter()
        .map(|t| match t {
            Tok::Code(_, s) => s.clone(),
            Tok::Word(_, w) => format!("«{w}»"),
        })
        .collect::<Vec<_>>()
        .join(" ")
}

/// Expands the code tokens of a `use` item into its leaves ("a::b::c as d"), given tokens after the `use` keyword.
fn use_leaves(code: &[String]) -> Vec<String> {
    fn rec(prefix: &str, toks: &[String], pos: &mut usize, out: &mut Vec<String>) {
        // parses one use-path starting at *pos until `,` `}` or `;`
        let mut path = prefix.to_string();
        while *pos < toks.len() {
            let t = toks[*pos].as_str();
            match t {
                "," | "}" | ";" => break,
                "{" => {
                    *pos += 1;
                    loop {
                        if *pos >= toks.len() {
                            return;
                        }
                        if toks[*pos] == "}" {
                            *pos += 1;
                            break;
                        }
                        if toks[*pos] == "," {
                            *pos += 1;
                            continue;
                        }
                        rec(&path, toks, pos, out);
                    }
                    return;
                }
                "as" => {
                    *pos += 1;
                    let alias = toks.get(*pos).cloned().unwrap_or_default();
                    *pos += 1;
                    out.push(format!("{path} as {alias}"));
                    return;
                }
                _ => {
                    path.push_str(t);
                    *pos += 1;
                }
            }
        }
        out.push(path);
    }
    let mut out = vec![];
    let mut pos = 0;
    rec("", code, &mut pos, &mut out);
    // `a::{self}` and `a` are the same leaf
    out.into_iter().map(|l| l.strip_suffix("::self").map(|s| s.to_string()).unwrap_or(l)).collect()
}

/// Order/grouping-insensitive canonical form of a module item list: multiset of use leaves (with their
/// attributes and visibility) and multiset of the other items' token strings; inline module bodies recursively.
fn canon_items(db: &dyn Database, list: SyntaxNode<'_>, dedup_uses: bool) -> Vec<String> {
    let mut out = vec![];
    for item in list.get_children(db).iter() {
        match item.kind(db) {
            SyntaxKind::ItemUse => {
                let code: Vec<String> = strip_trailing_commas(&toks(db, *item))
                    .into_iter()
                    .filter_map(|t| match t {
                        Tok::Code(_, s) => Some(s),
                        _ => None,
                    })
                    .collect();
                let upos = code.iter().position(|s| s == "use").unwrap_or(0);
                let prefix = code[..upos].join(" ");
                for leaf in use_leaves(&code[upos + 1..]) {
                    out.push(format!("{prefix} use {leaf}"));
                }
            }
            SyntaxKind::ItemModule => {
                let mut s = String::new();
                fn walk(db: &dyn Database, n: SyntaxNode<'_>, s: &mut String, dedup: bool) {
                    if n.kind(db) == SyntaxKind::ModuleItemList {
                        s.push_str(&format!("[{}]", canon_items(db, n, dedup).join(" | ")));
                        return;
                    }
                    let ch = n.get_children(db);
                    if ch.is_empty() {
                        for t in strip_trailing_commas(&toks(db, n)) {
                            if let Tok::Code(_, c) = t {
                                s.push_str(&c);
                                s.push(' ');
                            }
                        }
                    } else {
                        for c in ch.iter() {
                            walk(db, *c, s, dedup);
                        }
                    }
                }
                walk(db, *item, &mut s, dedup_uses);
                out.push(s);
            }
            _ => {
                let code: Vec<String> = strip_trailing_commas(&toks(db, *item))
                    .into_iter()
                    .filter_map(|t| match t {
                        Tok::Code(_, s) => Some(s),
                        _ => None,
                    })
                    .collect();
                if !code.is_empty() {
                    out.push(code.join(" "));
                }
            }
        }
    }
    out.sort();
    if dedup_uses {
        out.dedup_by(|a, b| a == b && a.contains(" use "));
    }
    out
}

fn module_item_list<'a>(db: &'a dyn Database, root: SyntaxNode<'a>) -> Option<SyntaxNode<'a>> {
    root.get_children(db).iter().copied().find(|c| c.kind(db) == SyntaxKind::ModuleItemList)
}

fn cfg_json(c: &FormatterConfig) -> Value {
    json!({"tab_size": c.tab_size, "max_line_length": c.max_line_length, "sort": c.sort_module_level_items, "merge_use": c.merge_use_items, "allow_dup": c.allow_duplicate_uses,
        "tuple_lbl": c.breaking_behavior.tuple == CollectionsBreakingBehavior::LineByLine, "array_lbl": c.breaking_behavior.fixed_array == CollectionsBreakingBehavior::LineByLine,
        "macro_lbl": c.breaking_behavior.macro_call == CollectionsBreakingBehavior::LineByLine})
}

fn mk_cfg(tab: usize, width: usize, sort: bool, merge: bool, dup: bool, lbl: (bool, bool, bool)) -> FormatterConfig {
    FormatterConfig::new(tab, width, sort, BreakingBehaviorConfig { tuple: lbl.0.into(), fixed_array: lbl.1.into(), macro_call: lbl.2.into() }, merge, dup)
}

/// The oracle on one (text, config). `src` must parse without diagnostics (checked by the caller).
fn check_one(ctx: &mut Ctx, db: &SimpleParserDatabase, src: &str, cfg: &FormatterConfig, origin: &dyn Fn() -> Value) {
    let case = || json!({"origin": origin(), "config": cfg_json(cfg), "text": if src.len() < 3000 { json!(src) } else { json!(format!("<{} bytes>", src.len())) }});
    if !ctx.sub(&case) {
        return;
    }
    ctx.count("evaluations", 1);
    let r = guarded(|| {
        let (root, diags) = db.parse_virtual_with_diagnostics(src);
        if !diags.get_all().is_empty() {
            return None;
        }
        let o1 = get_formatted_file(db, &root, cfg.clone());
        let (root1, d1) = db.parse_virtual_with_diagnostics(&o1);
        let parse_ok = d1.get_all().is_empty();
        let o2 = if parse_ok { get_formatted_file(db, &root1, cfg.clone()) } else { String::new() };
        // the innermost syntax node of the first output that contains the first byte the second pass changes
        let node_at = if parse_ok && o2 != o1 {
            let i = o1.bytes().zip(o2.bytes()).position(|(a, b)| a != b).unwrap_or(o1.len().min(o2.len()));
            let mut cur = root1;
            let mut best = format!("{:?}", cur.kind(db));
            loop {
                let ch = cur.get_children(db);
                let Some(c) = ch.iter().find(|c| {
                    let sp = c.span(db);
                    (sp.start.as_u32() as usize) <= i && i < (sp.end.as_u32() as usize)
                }) else {
                    break;
                };
                let name = format!("{:?}", c.kind(db));
                if name.starts_with("Terminal") || name.starts_with("Token") || name == "Trivia" {
                    break;
                }
                best = name;
                cur = *c;
            }
            best
        } else {
            String::new()
        };
        let t0 = toks(db, root);
        let t1 = toks(db, root1);
        let reorder = cfg.sort_module_level_items || cfg.merge_use_items;
        let canon = if reorder {
            let dedup = !cfg.allow_duplicate_uses && cfg.merge_use_items;
            Some((
                module_item_list(db, root).map(|l| canon_items(db, l, dedup)).unwrap_or_default(),
                module_item_list(db, root1).map(|l| canon_items(db, l, dedup)).unwrap_or_default(),
            ))
        } else {
            None
        };
        Some((o1, parse_ok, o2, t0, t1, canon, node_at))
    });
    let (o1, parse_ok, o2, t0, t1, canon, node_at) = match r {
        Err((loc, msg)) => {
            ctx.count("formatter_panics_left_to_C09", 1);
            let _ = (loc, msg);
            return;
        }
        Ok(None) => {
            ctx.count("inputs_with_diagnostics_skipped", 1);
            return;
        }
        Ok(Some(x)) => x,
    };
    ctx.count("formatted", 1);
    ctx.sample(|| json!({"origin": origin(), "config": cfg_json(cfg), "input_prefix": src.chars().take(160).collect::<String>(), "output_prefix": o1.chars().take(160).collect::<String>()}));
    if o1 == src {
        ctx.count("already_formatted", 1);
    }
    if !parse_ok {
        ctx.violation("output-does-not-parse", "the formatter's output has parse diagnostics", json!({"case": case(), "output": o1.chars().take(2000).collect::<String>()}));
        return;
    }
    if o2 != o1 {
        let i = o1.bytes().zip(o2.bytes()).position(|(a, b)| a != b).unwrap_or(o1.len().min(o2.len()));
        let ctxt = |s: &str| s[floor_cb(s, i.saturating_sub(60))..floor_cb(s, (i + 60).min(s.len()))].to_string();
        let kind = if canon.is_some() { "with-sort-or-merge" } else { "plain" };
        // classify by the first differing line
        let line_at = |s: &str| -> String {
            let st = s[..floor_cb(s, i.min(s.len()))].rfind('\n').map(|p| p + 1).unwrap_or(0);
            let en = s[st..].find('\n').map(|p| st + p).unwrap_or(s.len());
            s[st..en].to_string()
        };
        let (l1, l2) = (line_at(&o1), line_at(&o2));
        let at = |s: &str| s.get(floor_cb(s, i.min(s.len()))..).unwrap_or("").to_string();
        let class = if at(&o1).starts_with("//") && at(&o2).starts_with(" //") {
            // a comment that was on its own line before a mid-line token is glued to the previous token in pass
            // one and gets its space only in pass two
            "space-before-comment"
        } else if l1.trim_start().starts_with("//") || l2.trim_start().starts_with("//") {
            "comment-line"
        } else if l1.trim().is_empty() || l2.trim().is_empty() {
            "blank-line"
        } else {
            "code-line"
        };
        let width_class = if cfg.max_line_length < 20 { ":width<20" } else { "" };
        // inputs made by inserting a comment at an unusual place form their own class of findings
        let inserted = origin().get("replacement").and_then(|r| r.as_str()).map(|r| r.contains("//")).unwrap_or(false);
        let width_class = format!("{width_class}{}", if inserted && class != "space-before-comment" { ":comment-inserted" } else { "" });
        // (the missing space before a comment is one defect wherever it occurs; the other classes are told apart by
        // the syntax node in which the second pass first changes something)
        let node_suffix = if class == "space-before-comment" { String::new() } else { format!("@{node_at}") };
        ctx.violation(format!("not-idempotent:{kind}:{class}{width_class}{node_suffix}"), format!("f(f(t)) != f(t) in a {node_at} near {:?} vs {:?}", ctxt(&o1), ctxt(&o2)), case());
    }
    match canon {
        None => {
            let (a, b) = (strip_trailing_commas(&t0), strip_trailing_commas(&t1));
            if a != b {
                let i = a.iter().zip(&b).position(|(x, y)| x != y).unwrap_or(a.len().min(b.len()));
                let win = |v: &[Tok]| render(&v[i.saturating_sub(4)..(i + 5).min(v.len())]);
                let what = match (a.get(i), b.get(i)) {
                    (Some(Tok::Code(k, s)), _) if !matches!(b.get(i), Some(Tok::Code(k2, s2)) if k2 == k && s2 == s) && b.get(i) == a.get(i + 1) => format!("code-token-removed:{s}"),
                    (Some(Tok::Word(..)), _) | (_, Some(Tok::Word(..))) => "comment-changed".to_string(),
                    _ => "code-tokens-changed".to_string(),
                };
                ctx.violation(format!("tokens-differ:{what}"), format!("input {:?} vs output {:?}", win(&a), win(&b)), case());
            }
        }
        Some((c0, c1)) => {
            if c0 != c1 {
                let d0: Vec<&String> = c0.iter().filter(|x| !c1.contains(x)).take(3).collect();
                let d1: Vec<&String> = c1.iter().filter(|x| !c0.contains(x)).take(3).collect();
                // pair the first unmatched items and name the first differing token
                let what = match (d0.first(), d1.first()) {
                    (Some(a), Some(b)) => {
                        let (ta, tb): (Vec<&str>, Vec<&str>) = (a.split(' ').collect(), b.split(' ').collect());
                        let k = ta.iter().zip(&tb).position(|(x, y)| x != y).unwrap_or(ta.len().min(tb.len()));
                        if ta.get(k + 1) == tb.get(k) { format!("code-token-removed:{}", ta.get(k).unwrap_or(&"")) } else { "item-changed".to_string() }
                    }
                    (Some(_), None) => "item-lost".to_string(),
                    (None, Some(_)) => "item-added".to_string(),
                    _ => "multiplicity".to_string(),
                };
                ctx.violation(format!("items-differ:{what}"), format!("items only in input {d0:?}; only in output {d1:?}"), case());
            }
            // comments: same multiset of words
            let words = |v: &[Tok]| {
                let mut m: BTreeMap<String, i64> = BTreeMap::new();
                for t in v {
                    if let Tok::Word(_, w) = t {
                        *m.entry(w.clone()).or_default() += 1;
                    }
                }
                m
            };
            if words(&t0) != words(&t1) {
                ctx.violation("comment-words-differ:with-sort-or-merge", "comment words lost or duplicated", case());
            }
        }
    }
}

fn floor_cb(s: &str, mut i: usize) -> usize {
    while i > 0 && !s.is_char_boundary(i) {
        i -= 1;
    }
    i
}

const GAPS: &[&str] = &["", " ", "\n", "\n\n", "\t", " // c\n", "\n// c\n", "\n/// d\n"];

fn run(ctx: &mut Ctx) {
    let tier = ctx.tier;
    let corpus = cairo_corpus();
    let plain = mk_cfg(4, 100, false, false, false, (true, false, false));
    // A. every corpus file that parses cleanly x a configuration set
    let widths_a: Vec<usize> = tier.pick(vec![100, 40, 1], vec![100, 120, 80, 60, 40, 20, 8, 1]);
    for (path, src) in &corpus {
        if src.len() > tier.pick(20_000, 400_000) {
            continue;
        }
        ctx.case(
            || json!({"space":"corpus-files","file":path}),
            |ctx| {
                let db = new_db();
                ctx.distinct(src);
                check_one(ctx, &db, src, &FormatterConfig::default(), &|| json!({"file":path}));
                for w in &widths_a {
                    check_one(ctx, &db, src, &mk_cfg(4, *w, false, false, false, (true, false, false)), &|| json!({"file":path}));
                }
                check_one(ctx, &db, src, &mk_cfg(2, 100, true, false, false, (false, true, true)), &|| json!({"file":path}));
            },
        );
    }
    // seeds: small clean files
    let max_seed = tier.pick(1200, 2048);
    let seeds: Vec<&(String, String)> = corpus
        .iter()
        .filter(|(_, s)| s.len() <= max_seed && s.len() > 20)
        .filter(|(_, s)| {
            let db = new_db();
            db.parse_virtual_with_diagnostics(s).1.get_all().is_empty()
        })
        .collect();
    let nseeds = tier.pick(40, seeds.len());
    // B. every max_line_length 1..=120 (the break-point search is a function of the width)
    for (path, src) in seeds.iter().take(nseeds) {
        ctx.case(
            || json!({"space":"width-sweep","file":path}),
            |ctx| {
                let db = new_db();
                for w in 1..=120usize {
                    check_one(ctx, &db, src, &mk_cfg(4, w, false, false, false, (true, false, false)), &|| json!({"file":path,"sweep":"max_line_length"}));
                    ctx.count("width_sweep_cases", 1);
                }
                for tab in [1usize, 2, 8] {
                    check_one(ctx, &db, src, &mk_cfg(tab, 60, false, false, false, (true, false, false)), &|| json!({"file":path,"sweep":"tab_size"}));
                }
            },
        );
    }
    // C. the 2^6 product of boolean options
    for (path, src) in seeds.iter().take(tier.pick(25, seeds.len())) {
        ctx.case(
            || json!({"space":"option-product","file":path}),
            |ctx| {
                let db = new_db();
                for bits in 0..64u32 {
                    let b = |i: u32| bits & (1 << i) != 0;
                    let cfg = mk_cfg(4, 100, b(0), b(1), b(2), (b(3), b(4), b(5)));
                    check_one(ctx, &db, src, &cfg, &|| json!({"file":path,"sweep":"options"}));
                    ctx.count("option_product_cases", 1);
                }
            },
        );
    }
    // D. layout deviations, bound 1: at every token gap, every whitespace/comment variant that keeps the tokens
    for (path, src) in seeds.iter().take(tier.pick(16, seeds.len())) {
        let db0 = new_db();
        let (root, _) = db0.parse_virtual_with_diagnostics(src.as_str());
        let ranges = token_ranges(&db0, root);
        // gaps between consecutive code tokens (comments excluded from being split)
        let code: Vec<(usize, usize)> = ranges.iter().filter(|(_, _, k)| !is_comment(*k)).map(|(s, e, _)| (*s, *e)).collect();
        let base_tokens: Vec<(SyntaxKind, String)> = ranges.iter().filter(|(_, _, k)| !is_comment(*k)).map(|(s, e, k)| (*k, src[*s..*e].to_string())).collect();
        let gaps: Vec<(usize, usize)> = code.windows(2).map(|w| (w[0].1, w[1].0)).filter(|(a, b)| !src[*a..*b].contains("//")).collect();
        for (gi, chunk) in gaps.chunks(12).enumerate() {
            ctx.case(
                || json!({"space":"layout-deviation","file":path,"gap_chunk":gi}),
                |ctx| {
                    let db = new_db();
                    for (a, b) in chunk {
                        for g in GAPS {
                            if &src[*a..*b] == *g {
                                continue;
                            }
                            let m = format!("{}{}{}", &src[..*a], g, &src[*b..]);
                            // keep only variants that lex to the same code tokens and still parse cleanly
                            let (r, d) = db.parse_virtual_with_diagnostics(&m);
                            if !d.get_all().is_empty() {
                                ctx.count("layout_variants_rejected", 1);
                                continue;
                            }
                            let tk: Vec<(SyntaxKind, String)> = token_ranges(&db, r).into_iter().filter(|(_, _, k)| !is_comment(*k)).map(|(s, e, k)| (k, m[s..e].to_string())).collect();
                            if tk != base_tokens {
                                ctx.count("layout_variants_rejected", 1);
                                continue;
                            }
                            ctx.count("layout_variants", 1);
                            ctx.distinct(&m);
                            check_one(ctx, &db, &m, &plain, &|| json!({"file":path,"gap":[a,b],"replacement":g}));
                            if tier == Tier::Thorough {
                                check_one(ctx, &db, &m, &FormatterConfig::default(), &|| json!({"file":path,"gap":[a,b],"replacement":g}));
                            }
                        }
                    }
                },
            );
        }
    }
}

pub static C11: CheckDef = CheckDef {
    id: "C11",
    level: "exploration",
    rule: "Enumerated: (A) every corpus .cairo file that parses without diagnostics x {default config, plain config at widths {100,40,1} (thorough: 8 widths), a tab-2/sort/line-by-line config}; (B) small clean files (quick 40 <=1.2KB, thorough all <=2KB) x EVERY max_line_length 1..=120 and tab_size {1,2,8}; (C) small files x the full 2^6 product of sort_module_level_items, merge_use_items, allow_duplicate_uses, tuple/fixed-array/macro-call line-by-line breaking; (D) layout deviations bound 1: at every gap between code tokens each of 8 whitespace/comment fillers, kept only when the text still lexes to the same code tokens and parses cleanly. Oracle for o=f_c(t): parse(o) has no diagnostics; f_c(o)==o; with sort/merge off the sequence of code tokens and comment words of o equals that of t after deleting commas that directly precede a closing delimiter (or `|`); with sort/merge on: equal multisets of use leaves (tree expanded, attributes+visibility kept) and of other items (module bodies recursively), equal multiset of comment words. distinct_nontrivial = distinct input texts.",
    assumptions: &["comments are compared word-wise: the formatter legitimately re-wraps over-long comment lines (layout)", "inputs with parse diagnostics are outside the property's domain and are skipped"],
    run,
    stack_mb: 16,
    item_timeout_s: 120,
    wall_cap_s: (50, 1700),
    shards: 0,
};

#[allow(dead_code)]
fn _unused(_: panic_sig_t) {}
#[allow(non_camel_case_types, dead_code)]
type panic_sig_t = fn(&str, &str) -> String;
#[allow(dead_code)]
const _P: panic_sig_t = panic_sig;
