//! C15 — acceptance implies well-typedness and exact-once use: an independent abstract interpreter over
//! (statement index, var -> type) checked against `compile` on every accepted program of the mutation space.

use std::collections::BTreeMap;

use cairo_lang_sierra::ProgramParser;
use cairo_lang_sierra::extensions::core::{CoreLibfunc, CoreType};
use cairo_lang_sierra::extensions::lib_func::SierraApChange;
use cairo_lang_sierra::extensions::ConcreteLibfunc;
use cairo_lang_sierra::program::{BranchTarget, Program, Statement};
use cairo_lang_sierra::program_registry::ProgramRegistry;
use serde_json::json;

use crate::c14::{Stage, mut_cfg, pipeline};
use crate::core::{CheckDef, Ctx, Tier};
use crate::sierra::{apply, corpus, mutations};

pub struct CheckStats {
    pub states: u64,
    pub transitions: u64,
}


/// Droppable / duplicatable by the checker's own structural table (None: a type constructor the table does
/// not know - not judged). Deliberately not read from the registry's type info.
fn own_drop_dup(p: &Program, ty: &cairo_lang_sierra::ids::ConcreteTypeId, depth: usize) -> Option<(bool, bool)> {
    use cairo_lang_sierra::program::GenericArg;
    if depth > 12 {
        return None;
    }
    let d = p.type_declarations.iter().find(|d| d.id == *ty)?;
    let inner = |i: usize| match d.long_id.generic_args.get(i) {
        Some(GenericArg::Type(t)) => own_drop_dup(p, t, depth + 1),
        _ => None,
    };
    Some(match d.long_id.generic_id.0.as_str() {
        "felt252" | "u8" | "u16" | "u32" | "u64" | "u128" | "i8" | "i16" | "i32" | "i64" | "i128" | "bytes31" | "BoundedInt" | "EcPoint" | "EcState" | "ContractAddress" | "ClassHash"
        | "StorageAddress" | "StorageBaseAddress" | "BuiltinCosts" | "Snapshot" | "IntRange" | "Secp256k1Point" | "Secp256r1Point" | "qm31" => (true, true),
        "Array" | "Uninitialized" => (true, false),
        "NonZero" | "Box" | "Nullable" => inner(0)?,
        "Felt252Dict" | "Felt252DictEntry" | "RangeCheck" | "RangeCheck96" | "Pedersen" | "Poseidon" | "Bitwise" | "EcOp" | "SegmentArena" | "GasBuiltin" | "System" | "AddMod" | "MulMod" => (false, false),
        "SquashedFelt252Dict" => (inner(0)?.0, false),
        "Struct" | "Enum" => {
            let mut r = (true, true);
            for a in d.long_id.generic_args.iter().skip(1) {
                let GenericArg::Type(t) = a else { return None };
                let x = own_drop_dup(p, t, depth + 1)?;
                r = (r.0 && x.0, r.1 && x.1);
            }
            r
        }
        _ => return None,
    })
}

/// The signature of the libfuncs whose types follow from the program's own declarations, computed without
/// the registry: (parameter types, result types of the single branch). None: not such a libfunc.
fn own_signature(p: &Program, lid: &cairo_lang_sierra::ids::ConcreteLibfuncId) -> Option<Result<(Vec<u64>, Vec<u64>), String>> {
    use cairo_lang_sierra::program::GenericArg;
    let d = p.libfunc_declarations.iter().find(|d| d.id == *lid)?;
    let args = &d.long_id.generic_args;
    let ty0 = || match args.first() {
        Some(GenericArg::Type(t)) => Some(t.clone()),
        _ => None,
    };
    let members = |t: &cairo_lang_sierra::ids::ConcreteTypeId, want: &str| -> Option<Vec<u64>> {
        let td = p.type_declarations.iter().find(|x| x.id == *t)?;
        if td.long_id.generic_id.0 != want {
            return None;
        }
        td.long_id.generic_args.iter().skip(1).map(|a| if let GenericArg::Type(t) = a { Some(t.id) } else { None }).collect()
    };
    Some(match d.long_id.generic_id.0.as_str() {
        "drop" => {
            let t = ty0()?;
            match own_drop_dup(p, &t, 0) {
                Some((false, _)) => Err(format!("drop of a type that is not droppable ({})", d.long_id)),
                _ => Ok((vec![t.id], vec![])),
            }
        }
        "dup" => {
            let t = ty0()?;
            match own_drop_dup(p, &t, 0) {
                Some((_, false)) => Err(format!("dup of a type that is not duplicatable ({})", d.long_id)),
                _ => Ok((vec![t.id], vec![t.id, t.id])),
            }
        }
        "store_temp" | "rename" => {
            let t = ty0()?;
            Ok((vec![t.id], vec![t.id]))
        }
        "struct_construct" => {
            let t = ty0()?;
            Ok((members(&t, "Struct")?, vec![t.id]))
        }
        "struct_deconstruct" => {
            let t = ty0()?;
            Ok((vec![t.id], members(&t, "Struct")?))
        }
        "enum_init" => {
            let t = ty0()?;
            let Some(GenericArg::Value(idx)) = args.get(1) else { return None };
            let vs = members(&t, "Enum")?;
            let i: usize = idx.try_into().ok()?;
            match vs.get(i) {
                Some(v) => Ok((vec![*v], vec![t.id])),
                None => Err(format!("enum_init with variant index {i} of {} variants", vs.len())),
            }
        }
        "function_call" => {
            let Some(GenericArg::UserFunc(fid)) = args.first() else { return None };
            let f = p.funcs.iter().find(|f| f.id == *fid)?;
            Ok((f.signature.param_types.iter().map(|t| t.id).collect(), f.signature.ret_types.iter().map(|t| t.id).collect()))
        }
        _ => return None,
    })
}

/// The independent checker. Err(reason) when the program is ill-typed / non-linear.
pub fn check_program(p: &Program, stats: &mut CheckStats) -> Result<(), String> {
    let registry = ProgramRegistry::<CoreType, CoreLibfunc>::new(p).map_err(|e| format!("registry: {e}"))?;
    // statement -> (function index, state) as first seen
    let mut seen: Vec<Option<(usize, BTreeMap<u64, u64>)>> = vec![None; p.statements.len()];
    for (fi, f) in p.funcs.iter().enumerate() {
        if f.params.len() != f.signature.param_types.len() {
            return Err(format!("function {fi}: params/signature length mismatch"));
        }
        let mut st: BTreeMap<u64, u64> = BTreeMap::new();
        for (prm, ty) in f.params.iter().zip(&f.signature.param_types) {
            if prm.ty != *ty {
                return Err(format!("function {fi}: param {} type differs from signature", prm.id.id));
            }
            if st.insert(prm.id.id, ty.id).is_some() {
                return Err(format!("function {fi}: duplicate param var {}", prm.id.id));
            }
        }
        let mut work: Vec<(usize, BTreeMap<u64, u64>)> = vec![(f.entry_point.0, st)];
        while let Some((idx, st)) = work.pop() {
            if idx >= p.statements.len() {
                return Err(format!("function {fi}: control reaches statement {idx} beyond the program"));
            }
            match &seen[idx] {
                Some((ofi, ost)) => {
                    if *ofi != fi {
                        return Err(format!("statement {idx} belongs to two functions"));
                    }
                    if *ost != st {
                        return Err(format!("statement {idx}: paths merge with different live variables/types"));
                    }
                    continue;
                }
                None => seen[idx] = Some((fi, st.clone())),
            }
            stats.states += 1;
            match &p.statements[idx] {
                Statement::Return(vars) => {
                    let mut st = st;
                    if vars.len() != f.signature.ret_types.len() {
                        return Err(format!("statement {idx}: returns {} values, function declares {}", vars.len(), f.signature.ret_types.len()));
                    }
                    for (v, ty) in vars.iter().zip(&f.signature.ret_types) {
                        match st.remove(&v.id) {
                            None => return Err(format!("statement {idx}: returned var {} is not live (missing or used twice)", v.id)),
                            Some(t) if t != ty.id => return Err(format!("statement {idx}: returned var {} has the wrong type", v.id)),
                            _ => {}
                        }
                    }
                    if !st.is_empty() {
                        return Err(format!("statement {idx}: {} variable(s) left over at return", st.len()));
                    }
                }
                Statement::Invocation(inv) => {
                    let lf = registry.get_libfunc(&inv.libfunc_id).map_err(|e| format!("statement {idx}: {e}"))?;
                    let params = lf.param_signatures();
                    // libfuncs whose types follow from the declarations: the registry's signature must be the
                    // one the declarations give (and drop / dup only for types that allow it)
                    match own_signature(p, &inv.libfunc_id) {
                        Some(Err(e)) => return Err(format!("statement {idx}: {e}")),
                        Some(Ok((ps, rs))) => {
                            let reg_ps: Vec<u64> = params.iter().map(|x| x.ty.id).collect();
                            let reg_rs: Vec<u64> = lf.branch_signatures().first().map(|b| b.vars.iter().map(|v| v.ty.id).collect()).unwrap_or_default();
                            if lf.branch_signatures().len() != 1 || reg_ps != ps || reg_rs != rs {
                                return Err(format!("statement {idx}: the signature of `{}` differs from the one its declarations give", inv.libfunc_id));
                            }
                        }
                        None => {}
                    }
                    if params.len() != inv.args.len() {
                        return Err(format!("statement {idx}: {} args for {} params", inv.args.len(), params.len()));
                    }
                    let mut st = st;
                    for (a, ps) in inv.args.iter().zip(params) {
                        match st.remove(&a.id) {
                            None => return Err(format!("statement {idx}: arg var {} is not live (missing or used twice)", a.id)),
                            Some(t) if t != ps.ty.id => return Err(format!("statement {idx}: arg var {} has the wrong type", a.id)),
                            _ => {}
                        }
                    }
                    let bs = lf.branch_signatures();
                    if bs.len() != inv.branches.len() {
                        return Err(format!("statement {idx}: {} branches for a libfunc with {}", inv.branches.len(), bs.len()));
                    }
                    for (b, sig) in inv.branches.iter().zip(bs) {
                        if b.results.len() != sig.vars.len() {
                            return Err(format!("statement {idx}: branch has {} results, libfunc yields {}", b.results.len(), sig.vars.len()));
                        }
                        let mut nst = st.clone();
                        for (r, vi) in b.results.iter().zip(&sig.vars) {
                            if nst.insert(r.id, vi.ty.id).is_some() {
                                return Err(format!("statement {idx}: result var {} overrides a live variable", r.id));
                            }
                        }
                        let target = match b.target {
                            BranchTarget::Fallthrough => idx + 1,
                            BranchTarget::Statement(t) => t.0,
                        };
                        if bs.len() > 1 {
                            let ok = match p.statements.get(target) {
                                Some(Statement::Invocation(ti)) => {
                                    let tl = registry.get_libfunc(&ti.libfunc_id).map_err(|e| format!("statement {target}: {e}"))?;
                                    matches!(tl.branch_signatures(), [one] if one.ap_change == SierraApChange::BranchAlign)
                                }
                                _ => false,
                            };
                            if !ok {
                                return Err(format!("statement {idx}: branch of a multi-branch libfunc lands on statement {target}, not an alignment point"));
                            }
                        }
                        stats.transitions += 1;
                        work.push((target, nst));
                    }
                }
            }
        }
    }
    Ok(())
}

const BASE_TYPES: &str = "
type felt252 = felt252;
type NonZero<felt252> = NonZero<felt252>;
";
const BASE: &str = "
libfunc dup<felt252> = dup<felt252>;
libfunc drop<felt252> = drop<felt252>;
libfunc drop<NonZero<felt252>> = drop<NonZero<felt252>>;
libfunc felt252_add = felt252_add;
libfunc felt252_is_zero = felt252_is_zero;
libfunc branch_align = branch_align;
libfunc store_temp<felt252> = store_temp<felt252>;
libfunc jump = jump;
";

/// Hand-broken negatives: (name, body). All must be rejected by the checker; `ok` must be accepted.
fn negatives() -> Vec<(&'static str, String, bool)> {
    let f = |body: &str| {
        // a body may start with extra `type` declarations: they go before the libfunc declarations
        let (types, rest): (Vec<&str>, Vec<&str>) = body.lines().partition(|l| l.starts_with("type "));
        let (libfuncs, stmts): (Vec<&str>, Vec<&str>) = rest.into_iter().partition(|l| l.starts_with("libfunc "));
        format!("{BASE_TYPES}{}\n{BASE}{}\n{}", types.join("\n"), libfuncs.join("\n"), stmts.join("\n"))
    };
    vec![
        ("ok", f("dup<felt252>([0]) -> ([0], [2]);\nfelt252_add([0], [2]) -> ([3]);\nstore_temp<felt252>([3]) -> ([3]);\nreturn([3]);\ntest::f@0([0]: felt252) -> (felt252);"), true),
        ("ok-branch", f("dup<felt252>([0]) -> ([0], [1]);\nfelt252_is_zero([1]) { fallthrough() 5([2]) };\nbranch_align() -> ();\nstore_temp<felt252>([0]) -> ([0]);\nreturn([0]);\nbranch_align() -> ();\ndrop<NonZero<felt252>>([2]) -> ();\nstore_temp<felt252>([0]) -> ([0]);\nreturn([0]);\ntest::f@0([0]: felt252) -> (felt252);"), true),
        ("use-twice", f("felt252_add([0], [0]) -> ([3]);\nstore_temp<felt252>([3]) -> ([3]);\nreturn([3]);\ntest::f@0([0]: felt252) -> (felt252);"), false),
        ("leftover", f("dup<felt252>([0]) -> ([0], [2]);\nstore_temp<felt252>([0]) -> ([0]);\nreturn([0]);\ntest::f@0([0]: felt252) -> (felt252);"), false),
        ("undefined", f("felt252_add([0], [9]) -> ([3]);\nstore_temp<felt252>([3]) -> ([3]);\nreturn([3]);\ntest::f@0([0]: felt252) -> (felt252);"), false),
        ("wrong-type", f("dup<felt252>([0]) -> ([0], [1]);\nfelt252_is_zero([1]) { fallthrough() 5([2]) };\nbranch_align() -> ();\nstore_temp<felt252>([0]) -> ([0]);\nreturn([0]);\nbranch_align() -> ();\ndrop<felt252>([0]) -> ();\nstore_temp<felt252>([2]) -> ([2]);\nreturn([2]);\ntest::f@0([0]: felt252) -> (felt252);"), false),
        ("no-align", f("dup<felt252>([0]) -> ([0], [1]);\nfelt252_is_zero([1]) { fallthrough() 4([2]) };\nstore_temp<felt252>([0]) -> ([0]);\nreturn([0]);\nbranch_align() -> ();\ndrop<NonZero<felt252>>([2]) -> ();\nstore_temp<felt252>([0]) -> ([0]);\nreturn([0]);\ntest::f@0([0]: felt252) -> (felt252);"), false),
        ("merge-mismatch", f("dup<felt252>([0]) -> ([0], [1]);\nfelt252_is_zero([1]) { fallthrough() 4([2]) };\nbranch_align() -> ();\njump() { 6() };\nbranch_align() -> ();\ndrop<NonZero<felt252>>([2]) -> ();\ndup<felt252>([0]) -> ([0], [5]);\nstore_temp<felt252>([0]) -> ([0]);\nreturn([0]);\ntest::f@0([0]: felt252) -> (felt252);"), false),
        ("override", f("dup<felt252>([0]) -> ([0], [0]);\nstore_temp<felt252>([0]) -> ([0]);\nreturn([0]);\ntest::f@0([0]: felt252) -> (felt252);"), false),
        ("ret-count", f("store_temp<felt252>([0]) -> ([0]);\nreturn([0]);\ntest::f@0([0]: felt252) -> (felt252, felt252);"), false),
        ("ret-wrong-type", f("dup<felt252>([0]) -> ([0], [1]);\nfelt252_is_zero([1]) { fallthrough() 5([2]) };\nbranch_align() -> ();\nstore_temp<felt252>([0]) -> ([0]);\nreturn([0]);\nbranch_align() -> ();\ndrop<felt252>([0]) -> ();\nreturn([2]);\ntest::f@0([0]: felt252) -> (felt252);"), false),
        ("param-ids-collide", f("drop<felt252>([0]) -> ();\nreturn();\ntest::f@0([0]: felt252, [0]: felt252) -> ();"), false),
        ("dup-array", f("type Array<felt252> = Array<felt252>;\nlibfunc dup<Array<felt252>> = dup<Array<felt252>>;\nlibfunc drop<Array<felt252>> = drop<Array<felt252>>;\ndup<Array<felt252>>([0]) -> ([0], [1]);\ndrop<Array<felt252>>([1]) -> ();\nreturn([0]);\ntest::f@0([0]: Array<felt252>) -> (Array<felt252>);"), false),
        ("drop-dict", f("type Felt252Dict<felt252> = Felt252Dict<felt252>;\nlibfunc drop<Felt252Dict<felt252>> = drop<Felt252Dict<felt252>>;\ndrop<Felt252Dict<felt252>>([0]) -> ();\nreturn();\ntest::f@0([0]: Felt252Dict<felt252>) -> ();"), false),
        ("drop-builtin", f("type RangeCheck = RangeCheck;\nlibfunc drop<RangeCheck> = drop<RangeCheck>;\ndrop<RangeCheck>([0]) -> ();\nreturn();\ntest::f@0([0]: RangeCheck) -> ();"), false),
        ("dup-struct-with-array", f("type Array<felt252> = Array<felt252>;\ntype S = Struct<ut@S, felt252, Array<felt252>>;\nlibfunc dup<S> = dup<S>;\nlibfunc drop<S> = drop<S>;\ndup<S>([0]) -> ([0], [1]);\ndrop<S>([1]) -> ();\nreturn([0]);\ntest::f@0([0]: S) -> (S);"), false),
        ("call-wrong-arg-type", f("libfunc function_call<user@test::g> = function_call<user@test::g>;\nlibfunc felt252_const<1> = felt252_const<1>;\nfunction_call<user@test::g>([0]) -> ([1]);\nreturn([1]);\nfelt252_const<1>() -> ([1]);\nstore_temp<felt252>([1]) -> ([1]);\ndrop<felt252>([0]) -> ();\nreturn([1]);\ntest::f@0([0]: NonZero<felt252>) -> (felt252);\ntest::g@2([0]: felt252) -> (felt252);"), false),
        ("call-arity", f("libfunc function_call<user@test::g> = function_call<user@test::g>;\nfunction_call<user@test::g>([0], [1]) -> ([2]);\nreturn([2]);\nstore_temp<felt252>([0]) -> ([0]);\nreturn([0]);\ntest::f@0([0]: felt252, [1]: felt252) -> (felt252);\ntest::g@2([0]: felt252) -> (felt252);"), false),
        ("leftover-on-one-path", f("dup<felt252>([0]) -> ([0], [1]);\nfelt252_is_zero([1]) { fallthrough() 5([2]) };\nbranch_align() -> ();\nstore_temp<felt252>([0]) -> ([0]);\nreturn([0]);\nbranch_align() -> ();\nstore_temp<felt252>([0]) -> ([0]);\nreturn([0]);\ntest::f@0([0]: felt252) -> (felt252);"), false),
    ]
}


/// The merge lattice: a diamond whose two incoming paths reach the merge point with systematically varied
/// variable sets. Both paths start with [0] and [5] live; each path applies one edit (none / consume [5] /
/// define [6] / consume [5] and define [6]), and the code after the merge consumes a subset of {[5], [6]}.
/// The jump path reaches the merge statement first, the fall-through path second. Well-formed exactly when
/// both paths agree and everything is consumed (the independent checker decides).
fn merge_lattice() -> Vec<(String, String)> {
    let edits: [(&str, &[&str]); 4] = [("none", &[]), ("consume5", &["drop<felt252>([5]) -> ();"]), ("define6", &["felt252_const<7>() -> ([6]);"]), ("consume5+define6", &["drop<felt252>([5]) -> ();", "felt252_const<7>() -> ([6]);"])];
    let afters: [(&str, &[&str]); 4] = [("none", &[]), ("drop5", &["drop<felt252>([5]) -> ();"]), ("drop6", &["drop<felt252>([6]) -> ();"]), ("drop5+drop6", &["drop<felt252>([5]) -> ();", "drop<felt252>([6]) -> ();"])];
    let mut out = vec![];
    for (an, a) in &edits {
        for (bn, b) in &edits {
            for (cn, c) in &afters {
                // 0: dup [0] -> [0],[1]; 1: dup [0] -> [0],[5]; 2: is_zero([1]) { fallthrough() T([2]) };
                // 3: branch_align; a...; jump M; T: branch_align; drop nz; b...; M: after...; store_temp; return
                let t = 3 + 1 + a.len() + 1;
                let m = t + 2 + b.len();
                let mut st: Vec<String> = vec![
                    "dup<felt252>([0]) -> ([0], [1]);".into(),
                    "dup<felt252>([0]) -> ([0], [5]);".into(),
                    format!("felt252_is_zero([1]) {{ fallthrough() {t}([2]) }};"),
                    "branch_align() -> ();".into(),
                ];
                st.extend(a.iter().map(|x| x.to_string()));
                st.push(format!("jump() {{ {m}() }};"));
                st.push("branch_align() -> ();".into());
                st.push("drop<NonZero<felt252>>([2]) -> ();".into());
                st.extend(b.iter().map(|x| x.to_string()));
                st.extend(c.iter().map(|x| x.to_string()));
                st.push("store_temp<felt252>([0]) -> ([0]);".into());
                st.push("return([0]);".into());
                let text = format!("{BASE_TYPES}\n{BASE}libfunc felt252_const<7> = felt252_const<7>;\n{}\ntest::f@0([0]: felt252) -> (felt252);", st.join("\n"));
                out.push((format!("merge:jump-path={an}:fallthrough-path={bn}:after={cn}"), text));
            }
        }
    }
    out
}

fn run(ctx: &mut Ctx) {
    let tier = ctx.tier;
    // vacuity guard: the checker rejects the hand-broken negatives and accepts the positives
    ctx.case(
        || json!({"space":"negatives"}),
        |ctx| {
            for (name, text, expect_ok) in negatives() {
                let p = ProgramParser::new().parse(&text).unwrap_or_else(|e| panic!("harness negative {name} does not parse: {e:?}"));
                let mut stats = CheckStats { states: 0, transitions: 0 };
                let r = check_program(&p, &mut stats);
                ctx.count("negatives_checked", 1);
                if r.is_ok() != expect_ok {
                    ctx.violation(format!("harness:checker-self-test:{name}"), format!("independent checker verdict {r:?} on the hand-made case '{name}' (expected ok={expect_ok})"), json!({"case": name}));
                }
                let compiled = pipeline(&p, true) == Stage::Ok;
                if compiled && r.is_err() {
                    ctx.violation(format!("accepted-but-ill-typed:negative:{name}"), format!("compile accepts the hand-broken program '{name}': {r:?}"), json!({"case": name, "program": text}));
                }
                ctx.outcome(&format!("negative:{name}:compile={compiled}:checker={}", r.is_ok()));
            }
        },
    );
    // the merge lattice: both verdicts on every combination of path edits
    ctx.case(
        || json!({"space":"merge-lattice"}),
        |ctx| {
            let (mut both_accept, mut both_reject) = (0, 0);
            for (name, text) in merge_lattice() {
                let p = ProgramParser::new().parse(&text).unwrap_or_else(|e| panic!("harness: merge lattice program {name} does not parse: {e:?}"));
                let mut stats = CheckStats { states: 0, transitions: 0 };
                let r = check_program(&p, &mut stats);
                ctx.count("evaluations", 1);
                ctx.count("merge_lattice_programs", 1);
                let compiled = matches!(ctx.guarded(|| pipeline(&p, true)), Ok(Stage::Ok));
                match (compiled, r.is_ok()) {
                    (true, true) => both_accept += 1,
                    (false, false) => both_reject += 1,
                    (true, false) => ctx.violation(format!("accepted-but-ill-typed:{}", name.split(":after").next().unwrap_or("")), format!("compile accepts a program whose paths merge with different variables: {r:?}"), json!({"case": name, "program": text})),
                    (false, true) => ctx.count("well_typed_but_rejected", 1),
                }
            }
            ctx.count("merge_lattice_both_accept", both_accept);
            ctx.count("merge_lattice_both_reject", both_reject);
            if both_accept < 3 || both_reject < 30 {
                ctx.violation("harness:merge-lattice-vacuous", format!("the merge lattice has {both_accept} programs accepted by both and {both_reject} rejected by both"), json!({}));
            }
        },
    );
    let mut progs = corpus(tier == Tier::Thorough);
    // plus the C14 instantiation lattice (one function per accepted libfunc instantiation over edge types);
    // quick: every 4th
    progs.extend(crate::c14inst::compiled_wrappers(tier).into_iter().enumerate().filter(|(i, _)| tier == Tier::Thorough || i % 4 == 0).map(|(_, x)| x));
    let max_stmts = tier.pick(60, 400);
    for (name, p) in &progs {
        if p.statements.len() > max_stmts {
            continue;
        }
        let muts = mutations(p, &mut_cfg(tier, p.statements.len()));
        for (ci, chunk) in muts.chunks(500).enumerate() {
            ctx.case(
                || json!({"space":"program-mutants","program":name,"chunk":ci}),
                |ctx| {
                    for (k, m) in chunk.iter().enumerate() {
                        if !ctx.sub(|| json!({"program":name,"mutation":m.describe(),"mutation_index":ci*500+k})) {
                            continue;
                        }
                        let q = apply(p, m);
                        ctx.count("evaluations", 1);
                        // a panic in the pipeline is C14's business
                        let Ok(stage) = ctx.guarded(|| pipeline(&q, true)) else {
                            ctx.count("pipeline_panics_left_to_C14", 1);
                            continue;
                        };
                        let accepted = stage == Stage::Ok;
                        let mut stats = CheckStats { states: 0, transitions: 0 };
                        let verdict = check_program(&q, &mut stats);
                        ctx.count("states", stats.states as i64);
                        ctx.count("transitions", stats.transitions as i64);
                        ctx.outcome(&format!("compile={}:checker={}", if accepted { "accept" } else { "reject" }, if verdict.is_ok() { "accept" } else { "reject" }));
                        if accepted {
                            ctx.count("traces_validated_against_impl", 1);
                            ctx.distinct(&(name, ci, k));
                            if k % 97 == 0 {
                                ctx.sample(|| json!({"accepted_mutant": {"program": name, "mutation": m.describe()}, "checker": format!("{verdict:?}")}));
                            }
                            if let Err(why) = verdict {
                                let kind = why.split(':').nth(1).unwrap_or(&why).trim().chars().filter(|c| !c.is_ascii_digit()).collect::<String>();
                                ctx.violation(
                                    format!("accepted-but-ill-typed:{}", kind.chars().take(60).collect::<String>()),
                                    format!("compile accepts a program the independent checker rejects: {why}"),
                                    json!({"program":name,"mutation":m.describe(),"mutation_index":ci*500+k,"sierra": q.to_string()}),
                                );
                            }
                        }
                    }
                },
            );
        }
    }
}

/// Thorough: second-order mutants MUT(MUT(s)) of the smallest programs - compensating pairs (a type changed in
/// a declaration AND in a signature, two statements rewired together) are exactly where an acceptance check
/// that looks at one place only gives in.
fn run_pairs(ctx: &mut Ctx) {
    if ctx.tier != Tier::Thorough {
        return;
    }
    let progs = crate::sierra::pair_seeds();
    let cfg = crate::sierra::PAIR_CFG;
    for (name, p) in &progs {
        let m1s = mutations(p, &cfg);
        for (i1, m1) in m1s.iter().enumerate() {
            ctx.case(
                || json!({"space":"second-order-mutants","program":name,"first":m1.describe()}),
                |ctx| {
                    let q1 = apply(p, m1);
                    for (i2, m2) in mutations(&q1, &cfg).iter().enumerate() {
                        if !ctx.sub(|| json!({"program":name,"first":m1.describe(),"second":m2.describe()})) {
                            continue;
                        }
                        let q = apply(&q1, m2);
                        ctx.count("evaluations", 1);
                        ctx.count("second_order_mutants", 1);
                        let Ok(stage) = ctx.guarded(|| pipeline(&q, true)) else {
                            ctx.count("pipeline_panics_left_to_C14", 1);
                            continue;
                        };
                        if stage != Stage::Ok {
                            continue;
                        }
                        let mut stats = CheckStats { states: 0, transitions: 0 };
                        let verdict = check_program(&q, &mut stats);
                        ctx.count("states", stats.states as i64);
                        ctx.count("transitions", stats.transitions as i64);
                        ctx.count("traces_validated_against_impl", 1);
                        ctx.count("second_order_accepted", 1);
                        ctx.distinct(&(name, i1, i2, "pair"));
                        if let Err(why) = verdict {
                            let kind = why.split(':').nth(1).unwrap_or(&why).trim().chars().filter(|c| !c.is_ascii_digit()).collect::<String>();
                            ctx.violation(
                                format!("accepted-but-ill-typed:{}", kind.chars().take(60).collect::<String>()),
                                format!("compile accepts a second-order mutant the independent checker rejects: {why}"),
                                json!({"program":name,"first":m1.describe(),"second":m2.describe(),"sierra": q.to_string()}),
                            );
                        }
                    }
                },
            );
        }
    }
}

fn run_both(ctx: &mut Ctx) {
    run(ctx);
    run_pairs(ctx);
}

pub static C15: CheckDef = CheckDef {
    id: "C15",
    level: "model_checking",
    rule: "[thorough adds second-order mutants MUT(MUT(s)) of the <=200 smallest programs (<=9 statements), ~10^7 programs] [seed programs: the corpus plus the compiling wrapper programs of the C14 instantiation lattice (quick: every 4th)] Model: an independent abstract interpreter (no code shared with annotations.rs/references.rs) over states (statement index, map var -> type), exploring every control-flow path of every function with a worklist; libfunc signatures come from ProgramRegistry. Transfer: args must be live with exactly the parameter types and are consumed; results are added with the branch's types and may not override a live var; a statement reached twice must see the identical map and the same function; every target of a multi-branch invocation must be an alignment point; return needs exactly the declared types and nothing left over. Enumerated: the whole C14(a) single-point mutation space of the corpus programs + the unmutated programs + hand-broken negatives (vacuity guard). Conformance: for EVERY mutant both verdicts are computed; compile==Ok && checker==Err is the violation; states/transitions = abstract states and branch edges explored by the checker; traces_validated_against_impl = accepted programs on which both verdicts were compared; observed_outcomes is the 2x2 agreement matrix. The checker is independent of the registry where the property speaks about types: the signatures of drop / dup / store_temp / rename / struct_construct / struct_deconstruct / enum_init / function_call are recomputed from the type and function declarations and must equal the registry's, and drop / dup are admitted only for types its own structural table calls droppable / duplicatable (18 hand-broken negatives incl. dup of an array, drop of a dict / builtin, dup of a struct holding an array, call with a wrong argument type / arity, colliding parameter ids, a wrong return type, a variable left over on one path), plus the merge lattice: a diamond whose jump path and fall-through path each apply one of {nothing, consume [5], define [6], both} and whose tail consumes one of four subsets of {[5], [6]} (64 programs, both verdicts on each).",
    assumptions: &["libfunc signatures as reported by ProgramRegistry are the specification of each operation's types (the property's own observation point)", "dup/drop legality is enforced by the registry's specialization and not re-derived"],
    run: run_both,
    stack_mb: 8,
    item_timeout_s: 120,
    wall_cap_s: (50, 1700),
    shards: 0,
};
