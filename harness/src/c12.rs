//! C12 — compilation is deterministic on any query history / schedule (abstracted to the order in which
//! top-level queries first execute, on which thread). Fork-snapshot exploration on the real RootDatabase.

use std::io::Write;
use std::path::Path;

use cairo_lang_compiler::db::RootDatabase;
use cairo_lang_compiler::diagnostics::get_diagnostics_as_string;
use cairo_lang_compiler::project::setup_project;
use cairo_lang_compiler::{CompilerConfig, compile_prepared_db_program_artifact};
use cairo_lang_filesystem::ids::CrateInput;
use cairo_lang_sierra_generator::canonical_id_replacer::CanonicalReplacer;
use cairo_lang_sierra_generator::db::SierraGenGroup;
use cairo_lang_sierra_generator::program_generator::find_all_free_function_ids;
use cairo_lang_sierra_generator::replace_ids::{SierraIdReplacer, replace_sierra_ids_in_program};
use serde_json::json;

use crate::core::{CheckDef, Ctx, Tier, hash_of};
use crate::hist::in_child;
use crate::pipe::*;

#[derive(Clone, Debug)]
enum Task {
    /// function_with_body_sierra of the k-th free function of the project
    Sierra(usize),
    /// all diagnostics of the project crates
    DiagMain,
    /// diagnostics + Sierra of an unrelated crate in the same database
    Unrelated(usize),
    /// the whole Sierra program of the project (then thrown away)
    WholeProgram,
    /// the k-th *last* submodule of the first project crate, reached through its parent only (without enumerating
    /// the crate's modules first): its items, its diagnostics and the Sierra of its first free function.  This is
    /// the query pattern of an IDE opening one file; it interns the module's items before those of its siblings.
    ModuleFirst(usize),
    /// as ModuleFirst, but the Sierra of the module's LAST free function: its callees are interned in call
    /// order, the reverse of the source order for helpers defined above their user
    ModuleLast(usize),
}

const UNRELATED: &[&str] = &[
    "fn u0(a: u8) -> u8 { a + 1 }\n#[derive(Drop)]\nstruct Q { x: Array<u8> }\nfn u1(q: Q) -> u32 { q.x.len() }\n",
    "trait Tr<T> { fn go(self: T) -> felt252; }\nimpl I of Tr<felt252> { fn go(self: felt252) -> felt252 { self * 3 } }\nfn u2(x: felt252) -> felt252 { x.go() + core::pedersen::pedersen(x, 1) }\n",
];

struct Project {
    name: &'static str,
    /// path of a project directory, or None for an in-memory crate built from the hand-written programs
    path: Option<&'static str>,
}

const PROJECTS: &[Project] = &[
    Project { name: "examples", path: Some("/repo/examples") },
    Project { name: "handwritten-batch", path: None },
    Project { name: "recursion-cycles", path: None },
    Project { name: "bug_samples", path: Some("/repo/tests/bug_samples") },
];

/// Recursion cycles of two and three functions and a last function that reaches them "from the far end".
const RECURSION_CYCLES: &str = "mod other {\n    pub fn id(a: u8) -> u8 { a }\n}\nmod mrec {\n    pub fn f3(a: u8) -> u8 { if a == 0 { 0 } else { g3(a - 1) + 1 } }\n    pub fn g3(a: u8) -> u8 { if a == 0 { 1 } else { h3(a - 1) + 2 } }\n    pub fn h3(a: u8) -> u8 { if a == 0 { 2 } else { f3(a - 1) + 3 } }\n    pub fn ev(a: u8) -> bool { if a == 0 { true } else { od(a - 1) } }\n    pub fn od(a: u8) -> bool { if a == 0 { false } else { ev(a - 1) } }\n    pub fn zz_last(a: u8) -> u8 { h3(a) + if od(a) { 1 } else { 0 } }\n}\n";

fn load(db: &mut RootDatabase, p: &Project) -> Option<Vec<CrateInput>> {
    match p.path {
        Some(path) => setup_project(db, Path::new(path)).ok(),
        None if p.name == "recursion-cycles" => Some(vec![set_src(db, "cycles", RECURSION_CYCLES)]),
        None => {
            // all hand-written programs in one crate, each in its own module
            let mut src = String::new();
            for (i, (_, code)) in crate::progs::EXTRA.iter().enumerate() {
                src.push_str(&format!("mod m{i} {{\n{code}}}\n"));
            }
            Some(vec![set_src(db, "batch", &src)])
        }
    }
}

/// The final artefacts whose bytes must not depend on the history.
fn artefacts(db: &RootDatabase, inputs: &[CrateInput]) -> Result<Vec<(&'static str, u64, usize)>, String> {
    let ids = CrateInput::into_crate_ids(db, inputs.to_vec());
    let diags = get_diagnostics_as_string(db, Some(ids.clone()));
    let p = db.get_sierra_program(ids.clone()).map_err(|_| "get_sierra_program failed".to_string())?;
    let named = replace_sierra_ids_in_program(db, &p.program);
    let named_s = named.to_string();
    let canon = CanonicalReplacer::from_program(&named).apply(&named);
    let canon_s = crate::c18::strip(&canon).to_string();
    let casm = crate::c18::casm_text(&named)?;
    Ok(vec![("diagnostics", hash_of(&diags), diags.len()), ("sierra-debug-names", hash_of(&named_s), named_s.len()), ("sierra-canonical", hash_of(&canon_s), canon_s.len()), ("casm", hash_of(&casm), casm.len())])
}

fn run_task(db: &mut RootDatabase, inputs: &[CrateInput], t: &Task, on_thread: bool) {
    let body = |db: &RootDatabase| {
        let ids = CrateInput::into_crate_ids(db, inputs.to_vec());
        match t {
            Task::Sierra(k) => {
                if let Ok(fs) = find_all_free_function_ids(db, ids) {
                    if let Some(f) = fs.get(*k) {
                        let _ = db.function_with_body_sierra(*f);
                    }
                }
            }
            Task::DiagMain => {
                let _ = get_diagnostics_as_string(db, Some(ids));
            }
            Task::WholeProgram => {
                let _ = db.get_sierra_program(ids);
            }
            Task::ModuleFirst(k) | Task::ModuleLast(k) => {
                use cairo_lang_defs::db::DefsGroup;
                use cairo_lang_defs::ids::ModuleId;
                use cairo_lang_lowering::ids::ConcreteFunctionWithBodyId;
                use cairo_lang_semantic::db::SemanticGroup;
                if let Some(crate_id) = ids.first() {
                    if let Ok(subs) = db.module_submodules_ids(ModuleId::CrateRoot(*crate_id)) {
                        if let Some(sub) = subs.iter().rev().nth(*k) {
                            let m = ModuleId::Submodule(*sub);
                            let _ = db.module_semantic_diagnostics(m);
                            if let Ok(fs) = db.module_free_functions_ids(m) {
                                let pick = if matches!(t, Task::ModuleLast(_)) { fs.last() } else { fs.first() };
                                if let Some(f) = pick.and_then(|f| ConcreteFunctionWithBodyId::from_no_generics_free(db, *f)) {
                                    let _ = db.function_with_body_sierra(f);
                                }
                            }
                        }
                    }
                }
            }
            Task::Unrelated(_) => unreachable!(),
        }
    };
    if let Task::Unrelated(k) = t {
        // needs &mut: a new crate enters the database between the project's queries
        let ci = set_src(db, &format!("unrelated{k}"), UNRELATED[*k]);
        let _ = diagnostics(db, &ci);
        let _ = sierra(db, &ci);
        return;
    }
    if on_thread {
        let snap = db.snapshot();
        std::thread::scope(|s| {
            s.spawn(move || body(&snap)).join().ok();
        });
    } else {
        body(db);
    }
}

/// `verif c12-fresh <project index>`: compile the project in this (fresh) process and print the artefact hashes.
pub fn fresh_main(idx: usize) {
    let p = &PROJECTS[idx];
    let mut db = new_db(&Cfg::DEFAULT);
    let Some(inputs) = load(&mut db, p) else {
        println!("does-not-load");
        return;
    };
    println!("{:?}", artefacts(&db, &inputs));
}

fn run_all(ctx: &mut Ctx) {
    let tier = ctx.tier;
    let depth = tier.pick(2, 3);
    let nprojects = tier.pick(3, PROJECTS.len());
    // "identical on every run": the fork-snapshot children below all inherit one process image, including the
    // per-process keys of std's RandomState, so iteration-order leaks of a std HashMap would be invisible to
    // them.  Each project is therefore also compiled in several fresh processes (own hasher keys, different
    // rayon pool sizes) and the artefacts compared.
    for (pi, p) in PROJECTS.iter().enumerate().take(nprojects) {
        ctx.case(
            || json!({"space":"fresh-processes","project":p.name}),
            |ctx| {
                let exe = std::env::current_exe().expect("current_exe");
                let threads = tier.pick(vec!["1", "4"], vec!["1", "2", "4", "16", "3", "1"]);
                let children: Vec<_> = threads
                    .iter()
                    .map(|t| std::process::Command::new(&exe).args(["c12-fresh", &pi.to_string()]).env("RAYON_NUM_THREADS", t).stdout(std::process::Stdio::piped()).stderr(std::process::Stdio::null()).spawn())
                    .collect();
                let mut outs: Vec<(String, String)> = vec![];
                for (t, c) in threads.iter().zip(children) {
                    let Ok(c) = c else {
                        ctx.note("c12-fresh: spawn failed".into());
                        continue;
                    };
                    match c.wait_with_output() {
                        Ok(o) if o.status.success() => outs.push((t.to_string(), String::from_utf8_lossy(&o.stdout).trim().to_string())),
                        Ok(o) => ctx.violation("fresh-process-compile-died", format!("compiling project {} in a fresh process ended with {:?}", p.name, o.status), json!({"project": p.name, "rayon_threads": t})),
                        Err(_) => ctx.note("c12-fresh: wait failed".into()),
                    }
                }
                ctx.count("fresh_process_compilations", outs.len() as i64);
                ctx.count("evaluations", outs.len() as i64);
                for (t, o) in &outs {
                    ctx.distinct(&(p.name, "fresh", t));
                    if *o != outs[0].1 {
                        ctx.violation(
                            "differs-between-processes",
                            format!("project {} compiled in two fresh processes gives different artefacts: {} vs {}", p.name, outs[0].1.chars().take(300).collect::<String>(), o.chars().take(300).collect::<String>()),
                            json!({"project": p.name, "rayon_threads": [outs[0].0, t]}),
                        );
                    }
                }
                if let Some((_, o)) = outs.first() {
                    ctx.outcome(if o.starts_with("Ok") { "fresh-process-artefacts-equal-class" } else { "fresh-process-compile-error" });
                }
            },
        );
    }
    // several contracts compiled by ONE call (the Starknet compiler fans them out over the rayon pool): the
    // i-th class must belong to the i-th contract whatever the pool size and the completion order
    ctx.case(
        || json!({"space":"contracts-by-pool-size"}),
        |ctx| {
            let path = std::path::Path::new("/repo/crates/cairo-lang-starknet/cairo_level_tests");
            let pools: Vec<usize> = tier.pick(vec![1, 8, 8], vec![1, 8, 8, 3, 16, 2]);
            let mut first: Option<Vec<String>> = None;
            for t in pools {
                ctx.count("evaluations", 1);
                ctx.distinct(&("contracts-by-pool-size", t, first.is_some()));
                match crate::c19::classes_by_pool(path, t) {
                    Err(e) => {
                        ctx.note(format!("contracts-by-pool-size: {}", e.chars().take(200).collect::<String>()));
                        return;
                    }
                    Ok(lines) => {
                        ctx.max("contracts_in_one_call", lines.len() as i64);
                        match &first {
                            None => first = Some(lines),
                            Some(f) if *f != lines => {
                                let diff = f.iter().zip(&lines).find(|(a, b)| a != b).map(|(a, b)| format!("{a} vs {b}")).unwrap_or_default();
                                ctx.violation("contract-classes-depend-on-pool-size", format!("the classes returned for one list of contracts differ with the rayon pool size: {diff}"), json!({"project": path.display().to_string(), "threads": t}));
                                return;
                            }
                            _ => {}
                        }
                    }
                }
            }
        },
    );
    for p in PROJECTS.iter().take(nprojects) {
        // the task alphabet of this project (needs the number of functions: computed in a probe child)
        let mut probe_db = new_db(&Cfg::DEFAULT);
        let Some(inputs) = load(&mut probe_db, p) else {
            ctx.note(format!("project {} does not load", p.name));
            continue;
        };
        let nfuncs = {
            let ids = CrateInput::into_crate_ids(&probe_db, inputs.clone());
            find_all_free_function_ids(&probe_db, ids).map(|v| v.len()).unwrap_or(0)
        };
        drop(probe_db);
        let nf_tasks = tier.pick(3, 10).min(nfuncs);
        let mut tasks: Vec<Task> = (0..nf_tasks).map(|i| Task::Sierra(i * nfuncs / nf_tasks.max(1))).collect();
        tasks.push(Task::ModuleFirst(0));
        tasks.push(Task::ModuleFirst(1));
        tasks.push(Task::ModuleLast(0));
        tasks.push(Task::DiagMain);
        tasks.push(Task::WholeProgram);
        tasks.push(Task::Unrelated(0));
        tasks.push(Task::Unrelated(1));
        // one work item per first task (and thread choice): the pristine image is rebuilt per item
        for (ti, first) in tasks.iter().enumerate() {
            for first_on_thread in [false, true] {
                if first_on_thread && matches!(first, Task::Unrelated(_)) {
                    continue;
                }
                ctx.case(
                    || json!({"space":"query-histories","project":p.name,"first_task":format!("{first:?}"),"first_on_thread":first_on_thread,"depth":depth}),
                    |ctx| {
                        let mut db = new_db(&Cfg::DEFAULT);
                        let inputs = load(&mut db, p).expect("project loads");
                        // baseline: the empty history, in a child of the pristine image
                        let base = in_child(600, |w| {
                            let r = artefacts(&db, &inputs);
                            let _ = writeln!(w, "{}", json!({"t":"art","history":[],"art":format!("{r:?}")}));
                        });
                        let Some(base_art) = base.records.first().map(|v| v["art"].as_str().unwrap_or("").to_string()) else {
                            ctx.violation("baseline-compile-died", format!("compiling the project with no prior queries died: {:?}", base.abnormal), json!({"project":p.name}));
                            return;
                        };
                        if base_art.starts_with("Err") {
                            ctx.note(format!("project {} baseline: {}", p.name, base_art.chars().take(200).collect::<String>()));
                        }
                        ctx.count("states", 1);
                        // histories: first task fixed by the item; every sequence of distinct further tasks up to the depth
                        fn rec(db: &mut RootDatabase, inputs: &[CrateInput], tasks: &[Task], used: &mut Vec<(usize, bool)>, depth: usize, w: &mut dyn Write) {
                            // artefacts after the current history (in a child so the observation itself does not
                            // become part of longer histories)
                            let r = in_child(600, |w2| {
                                let a = artefacts(db, inputs);
                                let _ = writeln!(w2, "{}", json!({"t":"art","history":used.iter().map(|(i,th)| json!([i,th])).collect::<Vec<_>>(),"art":format!("{a:?}")}));
                            });
                            for rec_ in &r.records {
                                let _ = writeln!(w, "{rec_}");
                            }
                            if let Some(a) = r.abnormal {
                                let _ = writeln!(w, "{}", json!({"t":"abnormal","history":used.iter().map(|(i,th)| json!([i,th])).collect::<Vec<_>>(),"what":a}));
                            }
                            if used.len() >= depth {
                                return;
                            }
                            for (i, t) in tasks.iter().enumerate() {
                                if used.iter().any(|(j, _)| *j == i) {
                                    continue;
                                }
                                for th in [false, true] {
                                    if th && matches!(t, Task::Unrelated(_)) {
                                        continue;
                                    }
                                    used.push((i, th));
                                    let r = in_child(600, |w2| {
                                        run_task(db, inputs, t, th);
                                        rec(db, inputs, tasks, used, depth, w2);
                                    });
                                    for rec_ in &r.records {
                                        let _ = writeln!(w, "{rec_}");
                                    }
                                    if let Some(a) = r.abnormal {
                                        let _ = writeln!(w, "{}", json!({"t":"abnormal","history":used.iter().map(|(i,th)| json!([i,th])).collect::<Vec<_>>(),"what":a}));
                                    }
                                    used.pop();
                                }
                            }
                        }
                        let r = in_child(900, |w| {
                            run_task(&mut db, &inputs, first, first_on_thread);
                            let mut used = vec![(ti, first_on_thread)];
                            rec(&mut db, &inputs, &tasks, &mut used, depth, w);
                        });
                        if let Some(a) = &r.abnormal {
                            // SIGALRM (14) is the watchdog of the forked explorer: under load a subtree can exceed it; that
                            // cuts the exploration (reported as not exhaustive), it is not a verdict about the compiler
                            if a.ends_with("signal 14") {
                                ctx.mark_capped(&format!("explorer subtree of project {} / first task {first:?} hit its watchdog", p.name));
                            } else {
                                ctx.violation("explorer-child-died", format!("the exploring process died: {a}"), json!({"project":p.name,"first_task":format!("{first:?}")}));
                            }
                        }
                        for rec_ in &r.records {
                            match rec_["t"].as_str() {
                                Some("art") => {
                                    ctx.count("evaluations", 1);
                                    ctx.count("transitions", 1);
                                    ctx.count("states", 1);
                                    ctx.count("traces_validated_against_impl", 1);
                                    ctx.distinct(&(p.name, rec_["history"].to_string()));
                                    let art = rec_["art"].as_str().unwrap_or("");
                                    if art != base_art {
                                        // name the first differing artefact
                                        let names = ["diagnostics", "sierra-debug-names", "sierra-canonical", "casm"];
                                        let which = names.iter().find(|n| {
                                            let key = format!("(\"{n}\", ");
                                            let a = art.find(&key).map(|i| &art[i..(i + 60).min(art.len())]);
                                            let b = base_art.find(&key).map(|i| &base_art[i..(i + 60).min(base_art.len())]);
                                            a != b
                                        });
                                        let which = which.copied().unwrap_or("outcome");
                                        let hist: Vec<String> = rec_["history"].as_array().map(|h| h.iter().map(|e| format!("{:?}{}", tasks[e[0].as_u64().unwrap() as usize], if e[1].as_bool().unwrap() { "@thread" } else { "" })).collect()).unwrap_or_default();
                                        ctx.violation(
                                            format!("output-depends-on-query-history:{which}:{}", p.name),
                                            format!("after first executing {hist:?} the {which} of project {} differ from a compilation with no prior queries", p.name),
                                            json!({"project":p.name,"history":hist,"baseline":base_art,"observed":art}),
                                        );
                                    }
                                }
                                Some("abnormal") if rec_["what"].as_str().map(|w| w.ends_with("signal 14")).unwrap_or(false) => {
                                    ctx.mark_capped("a history's child hit its watchdog");
                                }
                                Some("abnormal") | Some("child-panic") => {
                                    ctx.violation("query-history-crashes-compiler", format!("a query history crashed the compiler process: {rec_}"), json!({"project":p.name,"record":rec_}));
                                }
                                _ => {}
                            }
                        }
                        ctx.sample(|| json!({"project":p.name,"first_task":format!("{first:?}"),"on_thread":first_on_thread,"nodes":r.records.len(),"baseline":base_art.chars().take(300).collect::<String>()}));
                    },
                );
            }
        }
    }
    // auxiliary, NOT deciding (free-running OS threads: sampling): the compiler's own parallel path under
    // rayon pools of different sizes must reproduce the same artefact
    let reps = tier.pick(1, 3);
    for n in [1usize, 2, 4, 16] {
        ctx.case(
            || json!({"space":"rayon-pools(sampled, auxiliary)","threads":n}),
            |ctx| {
                let mut outs = vec![];
                for _ in 0..reps {
                    let pool = rayon::ThreadPoolBuilder::new().num_threads(n).build().expect("pool");
                    let out = pool.install(|| {
                        let mut db = new_db(&Cfg::DEFAULT);
                        let inputs = setup_project(&mut db, Path::new("/repo/examples")).expect("examples");
                        let ids = CrateInput::into_crate_ids(&db, inputs);
                        let art = compile_prepared_db_program_artifact(&db, ids, CompilerConfig { replace_ids: true, ..Default::default() });
                        art.map(|a| a.program.to_string()).map_err(|e| format!("{e}"))
                    });
                    outs.push(out);
                    ctx.count("rayon_pool_runs_sampled", 1);
                }
                let h: Vec<u64> = outs.iter().map(|o| hash_of(&format!("{o:?}"))).collect();
                ctx.note(format!("rayon threads={n}: artefact hash {:x}", h[0]));
                if h.iter().any(|x| *x != h[0]) {
                    ctx.violation("output-depends-on-thread-schedule", format!("compile_prepared_db_program_artifact gives different Sierra across runs with {n} rayon threads"), json!({"threads":n}));
                }
                ctx.max(&format!("rayon_hash_{n}"), (h[0] % 1_000_000_007) as i64);
            },
        );
    }
}

pub static C12: CheckDef = CheckDef {
    id: "C12",
    level: "model_checking",
    rule: "(0) every project compiled in 2 (thorough 6) fresh processes - own std RandomState keys, rayon pools of 1/2/3/4/16 threads - must give byte-identical artefacts (the fork-snapshot children below share one process image and would not see a hash-iteration-order leak); the 20 contracts of crates/cairo-lang-starknet/cairo_level_tests compiled by ONE Starknet compile_prepared_db call in fresh databases under rayon pools of 1 / 8 / 8 (thorough + 3, 16, 2) threads: the (contract, class hash) lists must be equal. (1) Model: a schedule is abstracted to the order in which top-level queries first execute (tracked queries run on exactly one thread; the schedule-dependent state is which queries ran before and the first-come order of interned ids) and the thread each runs on. Task alphabet per project: the last and the last-but-one submodule of the crate opened first through its parent only (items, diagnostics, Sierra of its first function - the IDE pattern, which interns a module's items before its siblings'); function_with_body_sierra of k functions spread over the crate (quick 6, thorough 10), all diagnostics of the project, the whole Sierra program, and diagnostics+Sierra of two unrelated crates added to the same database. Enumerated: EVERY sequence of <=2 (thorough <=3) distinct tasks x {main thread, a second OS thread on a database snapshot} per task, by fork-snapshot DFS on the real RootDatabase (each node is a copy-on-write process image), for projects examples/ and a 24-module crate of hand-written programs (thorough: + tests/bug_samples). Oracle: after every history the diagnostics text, Sierra with debug names, canonical Sierra and CASM text are byte-identical (Sierra printed with raw salsa intern ids is first-come by design and is not part of the property) (hash + length) to the empty-history baseline. states/transitions = histories executed; traces_validated_against_impl = all of them. Auxiliary, sampled, not deciding: compile_prepared_db_program_artifact under rayon pools of 1/2/4/16 threads must agree across runs and across pool sizes (maxs.rayon_hash_*).",
    assumptions: &["no preemption inside a query is explored (salsa-under-shuttle is infeasible here: see DESIGN §1)", "a bug needing an interleaving finer than whole top-level queries is outside the bound"],
    run: run_all,
    stack_mb: 64,
    item_timeout_s: 1500,
    wall_cap_s: (55, 3600),
    shards: 0,
};

#[allow(dead_code)]
fn _t(_: Tier) {}

/// Prints the first differing lines between the named Sierra of a fresh compilation and of one that first
/// computed the Sierra of the last function of the last module.
pub fn debug_diff() {
    let p = &PROJECTS[2];
    let text = |pre: bool| -> String {
        let mut db = new_db(&Cfg::DEFAULT);
        let inputs = load(&mut db, p).unwrap();
        if pre {
            run_task(&mut db, &inputs, &Task::ModuleLast(0), false);
        }
        let ids = CrateInput::into_crate_ids(&db, inputs.to_vec());
        let prog = db.get_sierra_program(ids).unwrap();
        replace_sierra_ids_in_program(&db, &prog.program).to_string()
    };
    let (a, b) = (text(false), text(true));
    let mut n = 0;
    for (x, y) in a.lines().zip(b.lines()) {
        if x != y {
            println!("- {x}\n+ {y}");
            n += 1;
            if n > 12 {
                break;
            }
        }
    }
    println!("lines {} vs {}", a.lines().count(), b.lines().count());
}
